#!/usr/bin/env python3
"""C01 - Relocated values are correct at run time.

Family: definition kind x reference kind x output kind (x addend in the thorough tier), see
lib/relmatrix.py.  Every applicable cell is first linked alone (wild, in-process server; GNU ld by
batches of gc roots with per-cell confirmation of every rejection), then all cells a linker accepts
are packed into ONE program per output kind and linker; the program prints, per probe, the observed
value and the relocation-free ground truth (whereis / dereferenced marker / callee marker).
A cell is a violation when wild's program observes a value that differs from the ground truth while
GNU ld's program of the same cell agrees with the ground truth (x86-64), or, for AArch64 (thorough
tier, evaluated with lib/imgsim.py), while ld.lld's output of the same member evaluates correctly."""
import json
import os
import re
import shutil
import subprocess
import sys

sys.path.insert(0, os.path.join(os.path.dirname(os.path.abspath(__file__)), "..", "lib"))
import vlib
import wildrun
import elfread
import relmatrix as R

QUICK_OUTS = ["static", "pie", "shared"]


# ------------------------------------------------------------------------------------- preparation
def prepare(base, addends):
    """Assemble every object of the family into `base` (content-cached) and build libdefs.so with
    wild (so_wild/) and with GNU ld (so_ld/). Returns the cell list."""
    cells = R.x86_cells(addends)
    os.makedirs(base, exist_ok=True)

    def put(name, src, **kw):
        shutil.copyfile(vlib.assemble(src, **kw), os.path.join(base, name))

    put("start.o", R.RT_START)
    for mode in set(R.RT_MODE.values()):
        put(f"rt_{mode}.o", R.RT_C, ext=".c", extra=R.RT_FLAGS + ["-D" + mode])
    for o in "AB":
        put(f"probes{o}.o", R.x86_probe_obj_src(cells, o), extra=R.PROBE_OBJ_FLAGS[o])
    put("defs.o", R.x86_defs_obj_src())
    put("so.o", R.x86_so_src())
    put("ar.o", R.x86_ar_src())
    put("runstub.o", R.RUNSTUB)
    subprocess.run(["ar", "rcD", "libar.a", "ar.o"], cwd=base, check=True)
    for sub in ("so_wild", "so_ld"):
        os.makedirs(os.path.join(base, sub), exist_ok=True)
        shutil.copyfile(os.path.join(base, "so.o"), os.path.join(base, sub, "so.o"))
    rc, msg = wildrun.server_link(R.SO_ARGV, cwd=os.path.join(base, "so_wild"))
    if rc != 0:
        return cells, f"wild cannot link libdefs.so: {msg[-300:]}"
    r = subprocess.run(["ld", *R.SO_ARGV], cwd=os.path.join(base, "so_ld"), capture_output=True)
    if r.returncode != 0:
        return cells, f"ld cannot link libdefs.so: {r.stderr.decode()[-300:]}"
    return cells, None


def applicable_cells(cells, out):
    return [i for i, (dn, rid, a) in enumerate(cells)
            if R.applicable(R.X86_DEF[dn], R.X86_REF[rid], out, a)]


# -------------------------------------------------------------------------------------- acceptance
def wild_accept_job(job):
    base, out, idx = job
    o = os.path.join(base, f"acc.{os.getpid()}")
    rc, msg = wildrun.server_link(R.x86_link_argv(out, o, "runstub.o", "so_wild", roots=[idx]), cwd=base)
    return out, idx, rc, (msg or "")[-600:]


def ld_link(base, argv):
    r = subprocess.run(["ld", *argv], cwd=base, capture_output=True)
    return r.returncode, r.stderr.decode("utf-8", "replace")


def ld_single_job(job):
    base, out, idx = job
    o = os.path.join(base, f"lacc.{os.getpid()}")
    rc, err = ld_link(base, R.x86_link_argv(out, o, "runstub.o", "so_ld", roots=[idx]))
    return out, idx, rc, err[-600:]


_SEC_RE = re.compile(r"\.(?:text|data)\.p(\d+)")
_SYM_RE = re.compile(r"relocation (R_X86_64_\w+) against (?:\w+ )*`([^']+)'")


def ld_batch_job(job):
    """Iteratively shrink the set of roots until GNU ld links it. Returns (out, suspected rejects,
    number of ld runs). Suspects are confirmed one by one afterwards."""
    base, out, idxs, cells = job
    o = os.path.join(base, f"lbatch.{out}")
    live, suspects, runs = list(idxs), [], 0

    def ok(sub):
        nonlocal runs
        runs += 1
        rc, err = ld_link(base, R.x86_link_argv(out, o, "runstub.o", "so_ld", roots=sub))
        return rc == 0, err

    def bisect(sub):
        good, err = ok(sub)
        if good:
            return []
        if len(sub) == 1:
            return list(sub)
        h = len(sub) // 2
        return bisect(sub[:h]) + bisect(sub[h:])

    while live:
        good, err = ok(live)
        if good:
            break
        named = {int(m) for m in _SEC_RE.findall(err)} & set(live)
        if not named:
            for rt, sym in _SYM_RE.findall(err):
                for i in live:
                    dn, rid, a = cells[i]
                    if dn == sym.split('.')[-1] and rt in R.X86_REF[rid].relocs.replace("+", "+R_X86_64_").split("+"):
                        named.add(i)
        if not named:
            named = set(bisect(live))
            if not named:
                break
        suspects += sorted(named)
        live = [i for i in live if i not in named]
    return out, suspects, runs


# ------------------------------------------------------------------------------------- run + judge
def run_program(cmd, env, cwd, limit):
    """Run the packed program, restarting after a probe that kills it.
    -> (results, bases, crashes, runs, error)"""
    results, bases, crashes, start, runs = {}, {}, {}, 0, 0
    while runs < limit:
        runs += 1
        rc, so, se = vlib.run(cmd + [str(start)], env=env, cwd=cwd, timeout=60)
        text = so.decode("utf-8", "replace")
        res, bs, last, ended = R.parse_run(text)
        results.update(res)
        bases.update(bs)
        if ended:
            return results, bases, crashes, runs, None
        if "RT-FAIL" in text:
            return results, bases, crashes, runs, "runtime: " + text[-200:]
        if last is None or last < start:
            return results, bases, crashes, runs, f"no progress (rc={rc}, stdout={text[-80:]!r}, stderr={se[-200:]!r})"
        crashes[last] = rc
        start = last + 1
    return results, bases, crashes, runs, "restart limit"


def build_and_run(base, out, linker, sel, cells, tag):
    """Link the packed program of `sel` with `linker`, run it against every libdefs.so variant.
    -> dict(link_error, runs={variant: dict(results, common, crashes, error)}, spawns, argv)"""
    wd = os.path.join(base, f"{linker}_{out}_{tag}")
    os.makedirs(wd, exist_ok=True)
    res = dict(runs={}, spawns=1, link_error=None)
    run_name = f"run_{linker}_{out}_{tag}.o"
    shutil.copyfile(vlib.assemble(R.x86_run_src(cells, sel)), os.path.join(base, run_name))
    sodir = "so_wild" if linker == "wild" else "so_ld"
    output = os.path.join(wd, "libtest.so" if out == "shared" else "prog")
    argv = R.x86_link_argv(out, output, run_name, sodir)
    res["argv"] = argv
    if linker == "wild":
        rc, msg = wildrun.server_link(argv, cwd=base)
    elif linker == "lld":
        r = subprocess.run(["ld.lld", *argv], cwd=base, capture_output=True)
        rc, msg = r.returncode, r.stderr.decode("utf-8", "replace")
        res["spawns"] += 1
    else:
        rc, msg = ld_link(base, argv)
        res["spawns"] += 1
    if rc != 0:
        res["link_error"] = f"rc={rc} {msg[-500:]}"
        return res
    cmd = [output]
    if out == "shared":
        shutil.copyfile(os.path.join(base, "start.o"), os.path.join(wd, "start.o"))
        r = subprocess.run(["ld", *R.DRIVER_ARGV], cwd=wd, capture_output=True)
        res["spawns"] += 1
        if r.returncode != 0:
            res["link_error"] = "driver: " + r.stderr.decode()[-300:]
            return res
        cmd = [os.path.join(wd, "driver")]
    common = None
    try:
        elf = elfread.Elf(output)
        for s in elf.symbols(".symtab"):
            if s.name == "common" and s.shndx != 0:
                common = s.value
        if out not in ("static", "static-pie"):
            poison = R.poison_cells(elf)
            if poison:
                res["poison"] = poison
                return res
    except Exception as ex:            # noqa: BLE001
        res["symtab_error"] = str(ex)
    variants = ["-"] if out in ("static", "static-pie") else (["so_wild", "so_ld"] if linker == "wild" else ["so_ld"])
    for sv in variants:
        env = {"LD_LIBRARY_PATH": (os.path.join(base, sv) if sv != "-" else "") + ":" + wd}
        results, bases, crashes, runs, err = run_program(cmd, env, wd, limit=len(sel) + 2)
        res["spawns"] += runs
        cm = {}
        if common is not None and out != "shared":
            cm = {i: common + b for i, b in bases.items() if b is not None}
        res["runs"][sv] = dict(results=results, common=cm, crashes=crashes, error=err)
    return res


def link_and_run_job(job):
    """Packed program of one (output kind, linker). When the packed program cannot be linked or does
    not start (one cell can make the loader refuse the whole image), the set is bisected; cells that
    fail alone are recorded in `dead`. Returns merged results."""
    base, out, linker, sel, cells = job[:5]
    prefix = job[5] if len(job) > 5 else ""
    merged = dict(out=out, linker=linker, selected=sel, spawns=0, dead={}, argv=None, programs=0,
                  runs={})
    counter = [0]

    def go(sub):
        if not sub:
            return
        counter[0] += 1
        r = build_and_run(base, out, linker, sub, cells, prefix + str(counter[0]))
        merged["spawns"] += r["spawns"]
        merged["programs"] += 1
        if merged["argv"] is None:
            merged["argv"] = r["argv"]
        err = r["link_error"]
        if r.get("poison"):
            named = {i for i, t in r["poison"] if i in sub}
            if named:
                for i, t in r["poison"]:
                    if i in named:
                        merged["dead"][i] = f"output carries dynamic relocation {t}, which ld.so does not support"
                go([i for i in sub if i not in named])
                return
            err = f"unsupported dynamic relocations not attributable to a probe: {r['poison'][:3]}"
        if not err:
            for sv, run in r["runs"].items():
                if run["error"]:
                    err = f"{sv}: {run['error']}"
        if err:
            if len(sub) == 1:
                merged["dead"][sub[0]] = err
                return
            h = len(sub) // 2
            go(sub[:h])
            go(sub[h:])
            return
        for sv, run in r["runs"].items():
            m = merged["runs"].setdefault(sv, dict(results={}, common={}, crashes={}))
            for k in ("results", "common", "crashes"):
                m[k].update(run[k])

    go(list(sel))
    return merged


def judge_run(cells, res, run):
    """-> {idx: (status, detail)} for one libdefs variant of a packed program."""
    results = run["results"]
    truth = R.sibling_truth(cells, results)
    verdicts = {}
    for idx in res["selected"]:
        if idx in res["dead"]:
            verdicts[idx] = ("dead", res["dead"][idx])
        elif idx in run["crashes"]:
            verdicts[idx] = ("crash", f"killed (status {run['crashes'][idx]}) inside this probe, "
                                      f"printed {[hex(v) for v in results.get(idx, [])]}")
        elif idx not in results:
            verdicts[idx] = ("missing", "no line printed")
        else:
            t = dict(truth)
            if idx in run["common"]:
                t["common"] = run["common"][idx]
            verdicts[idx] = R.judge_x86(cells, idx, results[idx], t)
    return verdicts


# Rejections wild documents in its diagnostic: a relocation type it does not implement, or its deliberate
# policy of refusing a direct (non-GOT/PLT) reference to a preemptible / dynamic symbol or an absolute
# relocation in read-only position-independent code ("recompile with -fPIC" class). Those are counted.
# Anything else (range errors from a relaxation wild chose itself, internal allocation checks, ...) is
# reported when the reference linker links the cell and its output is correct.
UNSUPPORTED_RE = re.compile(r"not (?:yet )?(?:supported|implemented)|unsupported|unimplemented|"
                            r"Direct relocation \(\w+\) to dynamic symbol|recompile with -fPIC", re.I)


def msg_class(msg):
    m = re.sub(r"\s+", " ", msg.split("Caused by:")[-1]).strip()
    m = re.sub(r"`[^`]*`", "`_`", m)
    m = re.sub(r"\(\d+ local=\d+\)|#\d+ \(\d+/\d+\)|\(\d+ \(\d+/\d+\)\)", "", m)
    m = re.sub(r"-?\b\d+\b|0x[0-9a-f]+", "N", m)
    return m[:200]


def finding_key(cells, idx):
    dn, rid, a = cells[idx]
    d, r = R.X86_DEF[dn], R.X86_REF[rid]
    kind, form = rid.split(":")
    return f"x86_64:{kind}:{form}:{d.vclass}"


def x86_part(chk, base, outs, addends, stats, samples):
    cells, err = prepare(base, addends)
    if err:
        chk.machinery(err)
    app = {o: applicable_cells(cells, o) for o in outs}
    stats["x86_cells_defined"] = len(cells)
    stats["x86_members"] = sum(len(v) for v in app.values())
    stats["x86_not_applicable"] = len(R.X86_DEFS) * len(R.X86_REFS) * len(addends) * len(outs) - stats["x86_members"]
    rp = {"arch": "x86_64", "addends": addends}
    # --- acceptance: wild, every cell alone
    wacc = {o: {} for o in outs}
    for out, idx, rc, msg in wildrun.pmap(wild_accept_job, [(base, o, i) for o in outs for i in app[o]]):
        wacc[out][idx] = (rc, msg)
        if rc not in (0, 1):
            dn, rid, a = cells[idx]
            chk.violation(f"link-crash:{dn}:{rid}:{out}", f"wild rc={rc} linking cell {cells[idx]} as {out}: {msg[-300:]}",
                          dict(rp, cell=cells[idx], out=out, mode="accept"))
    # --- acceptance: GNU ld. Cells wild accepts go in one gc-root batch per output kind that is shrunk
    # until it links; every suspected rejection and every cell wild rejects is then linked alone.
    lrej = {o: set() for o in outs}
    ld_runs = 0
    batches = [(base, o, [i for i in app[o] if wacc[o][i][0] == 0], cells) for o in outs]
    for out, suspects, runs in vlib.pmap(ld_batch_job, batches, procs=len(outs), chunksize=1):
        lrej[out] = set(suspects)
        ld_runs += runs
    confirm = [(base, o, i) for o in outs for i in app[o] if i in lrej[o] or wacc[o][i][0] != 0]
    readd = 0
    for out, idx, rc, err in vlib.pmap(ld_single_job, confirm):
        ld_runs += 1
        if rc == 0:
            if idx in lrej[out]:
                readd += 1
            lrej[out].discard(idx)
        else:
            lrej[out].add(idx)
    stats["ld_acceptance_runs"] = ld_runs
    stats["ld_suspects_accepted_alone"] = readd
    # --- packed programs
    jobs = []
    for o in outs:
        jobs.append((base, o, "wild", [i for i in app[o] if wacc[o][i][0] == 0], cells))
        jobs.append((base, o, "ld", [i for i in app[o] if i not in lrej[o]], cells))
    packed = {}
    spawns = ld_runs + 12
    for res in wildrun.pmap(link_and_run_job, jobs, procs=len(jobs), chunksize=1):
        packed[(res["out"], res["linker"])] = res
        spawns += res["spawns"]
        stats["programs_linked"] += res["programs"]
    stats["subprocesses"] += spawns
    # --- verdicts
    pending, rejects = [], []
    for o in outs:
        pw, pl = packed[(o, "wild")], packed[(o, "ld")]
        lv = judge_run(cells, pl, pl["runs"]["so_ld" if "so_ld" in pl["runs"] else "-"]) if pl["runs"] else {}
        wv_by = {sv: judge_run(cells, pw, run) for sv, run in pw["runs"].items()}
        if not wv_by and pw["selected"]:
            wv_by = {"-": {i: ("dead", pw["dead"].get(i, "")) for i in pw["selected"]}}
        for idx in app[o]:
            dn, rid, a = cells[idx]
            w_ok = wacc[o][idx][0] == 0
            l_ok = idx not in lrej[o]
            stats["evaluations"] += 1
            lstat = lv.get(idx, ("dead", ""))[0] if l_ok else "rejected"
            if not w_ok and not l_ok:
                stats["rejected_by_all"] += 1
                continue
            if not w_ok:
                msg = wacc[o][idx][1]
                if UNSUPPORTED_RE.search(msg):
                    stats["wild_documents_unsupported"] += 1
                    stats["unsupported_messages"].add(msg_class(msg))
                elif lstat != "ok":
                    stats["wild_rejects_ld_output_wrong"] += 1     # ld accepts but does not produce the psABI value
                else:
                    rejects.append((o, idx, msg))
                continue
            stats["wild_accepted"] += 1
            if not l_ok:
                stats["ld_rejects_wild_accepts"] += 1
            worst = None
            for sv, wv in wv_by.items():
                st, detail = wv.get(idx, ("missing", ""))
                stats["verdicts"][st] = stats["verdicts"].get(st, 0) + 1
                if st in ("bad", "crash", "missing", "dead") and worst is None:
                    worst = (sv, st, detail)
            if worst is None:
                if all(wv.get(idx, ("?",))[0] == "ok" for wv in wv_by.values()):
                    stats["distinct"].add((dn, rid, o))
                continue
            sv, st, detail = worst
            if lstat == "ok":
                stats["wild_wrong_ld_right"] += 1
                pending.append((o, idx, f"{rid} against {dn}{a:+d} in output kind {o} (libdefs by {sv}): {st}: "
                                        f"{detail}; GNU ld's program of the same cell is correct"))
            elif lstat == "rejected":
                stats["wild_wrong_ld_rejects"] += 1
                stats["wild_wrong_ld_rejects_cells"].add(f"{dn}:{rid}:{a}:{o}:{st}")
            else:
                stats["both_wrong"] += 1
                stats["both_wrong_cells"].add(f"{dn}:{rid}:{a}:{o}:wild={st},ld={lstat}")
        if pw["runs"]:
            run = next(iter(pw["runs"].values()))
            for idx in pw["selected"][7:400:131]:
                samples.append({"arch": "x86_64", "out": o, "cell": cells[idx],
                                "printed": [hex(v) for v in run["results"].get(idx, [])]})
    # --- a cell wild rejects is reported only if GNU ld's program of that cell ALONE is correct as well (in
    # the packed program another probe may have changed how the symbol is treated, e.g. a copy relocation)
    for res in wildrun.pmap(link_and_run_job, [(base, o, f"ld", [idx], cells, f"s{idx}") for o, idx, _ in rejects],
                            chunksize=1):
        stats["subprocesses"] += res["spawns"]
        o, idx = res["out"], res["selected"][0]
        msg = next(m for oo, i, m in rejects if (oo, i) == (o, idx))
        v = judge_run(cells, res, res["runs"]["so_ld" if "so_ld" in res["runs"] else "-"]) if res["runs"] else {}
        dn, rid, a = cells[idx]
        if v.get(idx, ("dead",))[0] != "ok":
            stats["wild_rejects_ld_output_wrong"] += 1
            continue
        stats["wild_rejects"] += 1
        stats["reported_reject_messages"].add(msg_class(msg))
        stats["_deferred"].append((f"rejects:{dn}:{rid}:{o}",
                      f"wild rejects cell {cells[idx]} for output {o}; GNU ld links it and its program observes the "
                      f"correct value. wild: {re.sub(chr(10), ' ', msg)[-300:]}",
                      dict(rp, cell=cells[idx], out=o, mode="accept")))
    # --- third opinion (information only): what ld.lld does with every cell about to be reported
    third = {}
    for o in outs:
        sel = sorted({i for oo, i, _ in pending if oo == o})
        if sel:
            res = link_and_run_job((base, o, "lld", sel, cells))
            stats["subprocesses"] += res["spawns"]
            v = judge_run(cells, res, res["runs"]["so_ld" if "so_ld" in res["runs"] else "-"]) if res["runs"] else {}
            for i in sel:
                third[(o, i)] = v.get(i, ("rejected or dead", res["dead"].get(i, "")[:80]))[0]
    for o, idx, what in pending:
        chk.violation(finding_key(cells, idx), what + f"; ld.lld: {third.get((o, idx), '?')}",
                      dict(rp, cell=cells[idx], out=o, mode="run",
                           wild_selected=packed[(o, "wild")]["selected"], ld_selected=packed[(o, "ld")]["selected"]))
    return cells, packed



# ============================================================================================ AArch64
A64_M = ["-m", "aarch64linux"]


def a64_prepare(base):
    cells = R.a64_cells()
    os.makedirs(base, exist_ok=True)

    def put(name, src):
        shutil.copyfile(vlib.assemble(src, arch="aarch64"), os.path.join(base, name))

    put("probes.o", R.a64_probe_obj_src(cells))
    put("defs.o", R.a64_obj_src("defs"))
    put("so.o", R.a64_obj_src("so"))
    put("ar.o", R.a64_obj_src("ar"))
    put("helper.o", R.A64_HELPER)
    subprocess.run(["ar", "rcD", "libar.a", "ar.o"], cwd=base, check=True)
    for sub in ("so_wild", "so_lld"):
        os.makedirs(os.path.join(base, sub), exist_ok=True)
        shutil.copyfile(os.path.join(base, "so.o"), os.path.join(base, sub, "so.o"))
    rc, msg = wildrun.server_link(A64_M + R.A64_SO_ARGV, cwd=os.path.join(base, "so_wild"))
    if rc != 0:
        return cells, f"wild cannot link the AArch64 libdefs.so: {msg[-300:]}"
    r = subprocess.run(["ld.lld", *R.A64_SO_ARGV], cwd=os.path.join(base, "so_lld"), capture_output=True)
    if r.returncode != 0:
        return cells, f"ld.lld cannot link the AArch64 libdefs.so: {r.stderr.decode()[-300:]}"
    return cells, None


def a64_wild_accept_job(job):
    base, out, idx = job
    o = os.path.join(base, f"acc.{os.getpid()}")
    rc, msg = wildrun.server_link(A64_M + R.a64_link_argv(out, o, "so_wild", roots=[idx]), cwd=base)
    return out, idx, rc, (msg or "")[-600:]


def lld_link(base, argv):
    r = subprocess.run(["ld.lld", "--error-limit=0", *argv], cwd=base, capture_output=True)
    return r.returncode, r.stderr.decode("utf-8", "replace")


def a64_lld_single_job(job):
    base, out, idx = job
    rc, err = lld_link(base, R.a64_link_argv(out, os.path.join(base, f"lacc.{os.getpid()}"), "so_lld", roots=[idx]))
    return out, idx, rc, err[-400:]


def a64_lld_batch_job(job):
    """ld.lld names the section of every failing relocation, so a few runs settle a whole batch."""
    base, out, idxs = job
    live, suspects, runs = list(idxs), [], 0
    o = os.path.join(base, f"lbatch.{out}")
    while live:
        runs += 1
        rc, err = lld_link(base, R.a64_link_argv(out, o, "so_lld", roots=live))
        if rc == 0:
            break
        named = {int(m) for m in _SEC_RE.findall(err)} & set(live)
        if not named:
            return out, None, runs, err[-400:]
        suspects += sorted(named)
        live = [i for i in live if i not in named]
    return out, suspects, runs, ""


def a64_eval_job(job):
    """Link all accepted probes of one (output kind, linker) into one image and evaluate every probe
    with imgsim. -> dict(out, linker, verdicts {idx: (status, detail)}, error)"""
    import imgsim
    base, out, linker, sel, cells = job[:5]
    tag = job[5] if len(job) > 5 else ""
    res = dict(out=out, linker=linker, verdicts={}, error=None, spawns=0, argv=None)
    if not sel:
        return res
    roots = f"roots_{linker}_{out}{tag}.o"
    shutil.copyfile(vlib.assemble(R.a64_roots_src(sel), arch="aarch64"), os.path.join(base, roots))
    sodir = "so_wild" if linker == "wild" else "so_lld"
    output = os.path.join(base, f"img_{linker}_{out}{tag}")
    argv = R.a64_link_argv(out, output, sodir, roots_obj=roots)
    res["argv"] = argv
    if linker == "wild":
        rc, msg = wildrun.server_link(A64_M + argv, cwd=base)
    else:
        rc, msg = lld_link(base, argv)
        res["spawns"] += 1
    if rc != 0:
        res["error"] = f"packed link failed rc={rc}: {msg[-400:]}"
        return res
    try:
        res["verdicts"] = a64_evaluate(imgsim, output, os.path.join(base, sodir, "libdefs.so"), out, sel, cells)
    except imgsim.SimError as ex:
        res["error"] = f"imgsim: {type(ex).__name__}: {ex}"
    except elfread.ElfError as ex:
        res["error"] = f"elfread: {ex}"
    return res


def a64_evaluate(imgsim, output, sopath, out, sel, cells):
    bases = [0x5555_0000_0000, 0x7f00_0000_0000]
    images = [imgsim.Image(output, bases[0], "main")]
    if out not in ("static", "static-pie"):
        images.append(imgsim.Image(sopath, bases[1], "libdefs.so"))
    proc = imgsim.Process(images, hooks={"__tls_get_addr": None})
    proc.hooks[proc.hook_addr["__tls_get_addr"]] = proc.tls_get_addr_hook
    main = images[0]
    a = main.addr("__tls_get_addr")
    if a is not None:
        proc.hooks[a] = proc.tls_get_addr_hook
    verdicts = {}
    for idx in sel:
        dn, rid, ad = cells[idx]
        d, r = R.A64_DEF[dn], R.A64_REF[rid]
        pa = main.addr(f"p{idx}")
        if pa is None:
            verdicts[idx] = ("missing", "probe symbol not in the output's .symtab")
            continue
        try:
            cpu = imgsim.Cpu(proc)
            x = cpu.call(pa)
            if r.obs == "ea":
                x = cpu.last_load if cpu.last_load is not None else 0
            exp = []
            if r.obs == "ret":
                exp.append(("x0", x, d.marker))
            elif d.cls in ("abs", "undefweak"):
                lit = (d.value + ad) & R.M64
                exp.append(("x0", x, lit & 0xffffffff if rid.startswith("ABS32") else lit))
            elif d.cls == "func":
                if d.module_local:
                    tag = "_A" if d.where == "local" else ""
                    wa = main.addr(f"whereis_{dn}{tag}")
                    if wa is None:
                        verdicts[idx] = ("unverifiable", "whereis not in the output")
                        continue
                    exp.append(("x0=whereis+A", x, (imgsim.Cpu(proc).call(wa) + ad) & R.M64))
                exp.append(("call(x0-A)", imgsim.Cpu(proc).call((x - ad) & R.M64), d.marker))
            else:
                exp.append(("*(x0-A)", proc.mem.r64((x - ad) & R.M64), d.marker))
            bad = [f"{n}: observed {o:#x} expected {e:#x}" for n, o, e in exp if o != e]
            verdicts[idx] = ("bad", "; ".join(bad)) if bad else ("ok", f"{x:#x}")
        except imgsim.Unsupported as ex:
            verdicts[idx] = ("unsupported-insn", str(ex))
        except imgsim.Fault as ex:
            verdicts[idx] = ("crash", str(ex))
    return verdicts


def a64_key(cells, idx):
    dn, rid, a = cells[idx]
    kind, form = rid.split(":")
    return f"aarch64:{kind}:{form}:{R.A64_DEF[dn].vclass}"


def a64_part(chk, base, stats, samples):
    cells, err = a64_prepare(base)
    if err:
        chk.machinery(err)
    outs = R.OUTS
    app = {o: [i for i, (dn, rid, a) in enumerate(cells) if R.applicable(R.A64_DEF[dn], R.A64_REF[rid], o, a)]
           for o in outs}
    st = dict(cells_defined=len(cells), members=sum(len(v) for v in app.values()), rejected_by_all=0,
              wild_documents_unsupported=0, wild_rejects=0, wild_rejects_lld_output_wrong=0, wild_accepted=0,
              lld_rejects_wild_accepts=0, wild_wrong_lld_right=0, wild_wrong_lld_rejects=0, both_wrong=0,
              verdicts={}, unsupported_messages=set(), both_wrong_cells=set(), wild_wrong_lld_rejects_cells=set(),
              emulator_unsupported=0, distinct=0, lld_runs=0)
    rp = {"arch": "aarch64"}
    wacc = {o: {} for o in outs}
    for out, idx, rc, msg in wildrun.pmap(a64_wild_accept_job, [(base, o, i) for o in outs for i in app[o]]):
        wacc[out][idx] = (rc, msg)
        if rc not in (0, 1):
            dn, rid, a = cells[idx]
            chk.violation(f"link-crash:aarch64:{dn}:{rid}:{out}", f"wild rc={rc} linking {cells[idx]} as {out}: {msg[-300:]}",
                          dict(rp, cell=cells[idx], out=out))
    lrej = {}
    for out, suspects, runs, err in vlib.pmap(a64_lld_batch_job, [(base, o, app[o]) for o in outs], procs=len(outs), chunksize=1):
        st["lld_runs"] += runs
        if suspects is None:
            chk.machinery(f"ld.lld {out}: error without a section name: {err}")
        lrej[out] = set(suspects)
    for out, idx, rc, err in vlib.pmap(a64_lld_single_job, [(base, o, i) for o in outs for i in sorted(lrej[o])]):
        st["lld_runs"] += 1
        if rc == 0:
            lrej[out].discard(idx)
    jobs = []
    for o in outs:
        jobs.append((base, o, "wild", [i for i in app[o] if wacc[o][i][0] == 0], cells))
        jobs.append((base, o, "lld", [i for i in app[o] if i not in lrej[o]], cells))
    ev = {}
    for res in wildrun.pmap(a64_eval_job, jobs, procs=len(jobs), chunksize=1):
        ev[(res["out"], res["linker"])] = res
        st["lld_runs"] += res["spawns"]
    for o in outs:
        ew, el = ev[(o, "wild")], ev[(o, "lld")]
        if el["error"]:
            chk.machinery(f"AArch64 reference image {o}: {el['error']}")
        if ew["error"]:
            chk.violation(f"aarch64:image:{o}", f"wild's packed AArch64 image cannot be evaluated: {ew['error']}",
                          dict(rp, out=o, mode="image"))
            continue
        for idx in app[o]:
            dn, rid, a = cells[idx]
            stats["evaluations"] += 1
            w_ok, l_ok = wacc[o][idx][0] == 0, idx not in lrej[o]
            lstat = el["verdicts"].get(idx, ("missing", ""))[0] if l_ok else "rejected"
            if not w_ok and not l_ok:
                st["rejected_by_all"] += 1
                continue
            if not w_ok:
                msg = wacc[o][idx][1]
                if UNSUPPORTED_RE.search(msg):
                    st["wild_documents_unsupported"] += 1
                    st["unsupported_messages"].add(msg_class(msg))
                elif lstat != "ok":
                    st["wild_rejects_lld_output_wrong"] += 1
                else:
                    alone = a64_eval_job((base, o, "lld", [idx], cells, f"_s{idx}"))
                    st["lld_runs"] += alone["spawns"]
                    if alone["verdicts"].get(idx, ("dead",))[0] != "ok":
                        st["wild_rejects_lld_output_wrong"] += 1
                        continue
                    st["wild_rejects"] += 1
                    stats["_deferred"].append((f"rejects:aarch64:{dn}:{rid}:{o}",
                                  f"wild rejects AArch64 cell {cells[idx]} for output {o}; ld.lld links it and its image "
                                  f"evaluates to the correct value. wild: {re.sub(chr(10), ' ', msg)[-300:]}",
                                  dict(rp, cell=cells[idx], out=o)))
                continue
            st["wild_accepted"] += 1
            wst, detail = ew["verdicts"].get(idx, ("missing", ""))
            st["verdicts"][wst] = st["verdicts"].get(wst, 0) + 1
            if wst == "ok":
                st["distinct"] += 1
                continue
            if wst == "unsupported-insn":
                st["emulator_unsupported"] += 1
                stats.setdefault("emulator_unsupported_samples", set()).add(detail[:80])
                continue
            if lstat == "ok":
                st["wild_wrong_lld_right"] += 1
                chk.violation(a64_key(cells, idx),
                              f"AArch64 {rid} against {dn}{a:+d} in output kind {o}: {wst}: {detail}; ld.lld's image of the "
                              f"same cell evaluates correctly", dict(rp, cell=cells[idx], out=o))
            elif lstat == "rejected":
                st["wild_wrong_lld_rejects"] += 1
                st["wild_wrong_lld_rejects_cells"].add(f"{dn}:{rid}:{a}:{o}:{wst}")
            else:
                st["both_wrong"] += 1
                st["both_wrong_cells"].add(f"{dn}:{rid}:{a}:{o}:wild={wst},lld={lstat}")
        for idx in list(ew["verdicts"])[5:300:97]:
            samples.append({"arch": "aarch64", "out": o, "cell": cells[idx], "verdict": ew["verdicts"][idx]})
    stats["subprocesses"] += st["lld_runs"] + 12
    return {k: (sorted(v) if isinstance(v, set) else v) for k, v in st.items()}


def a64_replay(chk, spec, base):
    cells, err = a64_prepare(base)
    if err:
        chk.machinery(err)
    out = spec["out"]
    if "cell" not in spec:
        chk.machinery("replay of a whole AArch64 image is the thorough tier itself")
    idx = cells.index(tuple(spec["cell"]))
    _, _, rc, msg = a64_wild_accept_job((base, out, idx))
    _, _, lrc, lerr = a64_lld_single_job((base, out, idx))
    print(f"cell {cells[idx]} out={out}: wild rc={rc} {msg[-200:]!r}; ld.lld rc={lrc} {lerr[-200:]!r}")
    v = {}
    for linker, ok in (("wild", rc == 0), ("lld", lrc == 0)):
        if ok:
            res = a64_eval_job((base, out, linker, [idx], cells))
            v[linker] = res["verdicts"].get(idx, ("error", res["error"]))
            print(f"  {linker}: {' '.join(res['argv'])}\n    -> {v[linker]}")
    if lrc == 0 and v.get("lld", ("?",))[0] == "ok" and (rc != 0 or v.get("wild", ("?",))[0] != "ok"):
        chk.violation(spec.get("key", "replay"), "reproduced", spec)


def replay(chk, spec):
    with vlib.scratch("c01r") as base:
        if spec.get("arch") == "aarch64":
            return a64_replay(chk, spec, base)
        addends = spec["addends"]
        cells, err = prepare(base, addends)
        if err:
            chk.machinery(err)
        out = spec["out"]
        idx = cells.index(tuple(spec["cell"]))
        _, _, rc, msg = wild_accept_job((base, out, idx))
        _, _, lrc, lerr = ld_single_job((base, out, idx))
        print(f"cell {cells[idx]} out={out}: wild rc={rc} {msg[-200:]!r}; ld rc={lrc} {lerr[-200:]!r}")
        bad = False
        if rc != 0 and lrc == 0:
            bad = True
        verd = {}
        for linker, ok in (("wild", rc == 0), ("ld", lrc == 0)):
            if not ok:
                continue
            # the recorded case is the packed program; without a recorded context the cell alone
            sel = spec.get(f"{linker}_selected") or [idx]
            res = link_and_run_job((base, out, linker, sel, cells))
            print(f"  {linker} link line: {' '.join(res['argv'] or [])}")
            if res["dead"]:
                verd[(linker, "-")] = ("dead", res["dead"][idx])
                print(f"  {linker}: {res['dead'][idx]}")
            for sv, run in res["runs"].items():
                verd[(linker, sv)] = judge_run(cells, res, run).get(idx)
                print(f"  {linker}/{sv}: printed {[hex(v) for v in run['results'].get(idx, [])]} -> {verd[(linker, sv)]}")
        if any(v and v[0] != "ok" for (l, sv), v in verd.items() if l == "wild") and \
                all(v and v[0] == "ok" for (l, sv), v in verd.items() if l == "ld") and lrc == 0:
            bad = True
        if bad:
            chk.violation(spec.get("key", "replay"), "reproduced", spec)


def main():
    chk = vlib.Check("C01", "exploration")
    if not chk.args.no_build:
        vlib.build("wild")
    if chk.args.replay:
        with open(chk.args.replay) as f:
            rp = json.load(f)
        spec = rp["replay"]
        spec["key"] = rp["key"]
        replay(chk, spec)
        chk.coverage = {"evaluations": 1, "distinct_nontrivial": 2, "rule": "replay of one recorded cell",
                        "samples": [spec], "exhaustive": False}
        chk.finish()
    outs = R.OUTS if chk.thorough else QUICK_OUTS
    addends = R.ADDENDS if chk.thorough else [0]
    stats = dict(evaluations=0, rejected_by_all=0, wild_documents_unsupported=0, wild_rejects=0,
                 wild_rejects_ld_output_wrong=0, wild_accepted=0, ld_rejects_wild_accepts=0,
                 wild_wrong_ld_right=0, wild_wrong_ld_rejects=0, both_wrong=0, verdicts={},
                 distinct=set(), unsupported_messages=set(), wild_wrong_ld_rejects_cells=set(),
                 both_wrong_cells=set(), programs_linked=0, subprocesses=0,
                 reported_reject_messages=set(), _deferred=[])
    samples = []
    with vlib.scratch("c01") as base:
        if chk.seed:
            import random
            random.Random(chk.seed).shuffle(outs)
        only = os.environ.get("C01_ONLY")          # development switch; a run with it is never exhaustive
        if only != "a64":
            x86_part(chk, base, outs, addends, stats, samples)
        a64 = {}
        if chk.thorough and only != "x86":
            a64 = a64_part(chk, os.path.join(base, "a64"), stats, samples)
    for key, what, rpl in stats.pop("_deferred"):      # rejected-by-wild cells after the wrong-value cells
        chk.violation(key, what, rpl)
    cov = {k: (sorted(v) if isinstance(v, set) else v) for k, v in stats.items() if k != "distinct"}
    cov.update({
        "distinct_nontrivial": len(stats["distinct"]) + a64.get("distinct", 0),
        "evaluations": stats["evaluations"],
        "rule": "x86-64: every (definition kind, reference kind, addend, output kind) with the reference form "
                "meaningful for the definition class (relmatrix.applicable) is linked alone by wild; GNU ld "
                "acceptance by gc-root batches with per-cell confirmation; accepted cells packed into one "
                "program per output kind and linker; violation = wild's observation differs from the "
                "relocation-free ground truth while GNU ld's program of the same cell matches it. "
                "quick: addend 0, outputs static/pie/shared; thorough: addends 0,8,-4, five outputs, plus "
                "the AArch64 matrix evaluated with imgsim against ld.lld",
        "defs": [d.name for d in R.X86_DEFS], "refs": [r.id for r in R.X86_REFS], "outs": outs,
        "addends": addends, "samples": samples, "exhaustive": not os.environ.get("C01_ONLY"), "aarch64": a64,
        "violation_keys": sorted({k for k, _, _ in chk.violations}),
    })
    chk.coverage = cov
    if os.environ.get("C01_DUMP"):
        with open(os.environ["C01_DUMP"], "w") as f:
            for k, what, _ in chk.violations:
                f.write(f"{k}\t{what}\n")
    chk.assumptions = [
        "ground truth: function addresses from whereis (assembler-resolved lea/adr on a local label in the "
        "definition's own section, no relocation record); data/TLS: unique 64-bit marker read at the observed "
        "address; callee-returned markers; literals for absolute symbols, undefined weak (0) and st_size; "
        "common symbols only: output .symtab value + load base",
        "32-bit observations (no-REX GOTPCRELX forms) of data and of shared-object functions are compared with "
        "the address a sibling probe of the same program observed and verified by dereference / call",
        "static and static-pie outputs run under the check's freestanding runtime (applies RELATIVE / IRELATIVE "
        "/ RELR / GLOB_DAT / TPOFF64 / DTPMOD64 like glibc's static start-up, sets up TLS variant II); dynamic "
        "outputs run under the system ld.so with libc.so.6 as an uncalled dependency (ld.so needs malloc); "
        "__tls_get_addr comes from ld.so",
        "a cell is reported only when the reference linker (GNU ld; ld.lld for AArch64) links it and its output "
        "passes the same ground truth; cells the reference rejects or gets wrong itself are counted "
        "(wild_wrong_ld_rejects, both_wrong); rejections wild explains as unsupported relocation or as its "
        "direct-reference / recompile-with-fPIC policy are counted (wild_documents_unsupported)",
        "a cell whose output carries a dynamic relocation type ld.so refuses is taken out of the packed program "
        "(status dead) instead of poisoning it",
        "AArch64: imgsim loader model (static TLS variant I as glibc lays it out, eager binding, symbol lookup "
        "through the outputs' own hash tables) and emulator; R_AARCH64_TLSGD_* not generated (assembler lacks it)",
        "not enumerated: R_X86_64_DTPOFF64 in executables (GNU ld and ld.lld disagree), writable+executable data "
        "sections (wild rejects SHF_WRITE|SHF_EXECINSTR .data)",
    ]
    chk.finish()


if __name__ == "__main__":
    main()
