#!/usr/bin/env python3
"""C02 - Symbol references bind to the definition the ELF rules select.

Family (bounded-exhaustive): every ordered sequence of 0..3 providers (quick: 0..2) of one name,
drawn from 12 provider kinds
    S strong  W weak  C4 common(4)  C16 common(16)  U gnu-unique  H hidden strong  P protected strong
    G strong in a COMDAT group (signature = the symbol; G twice = legal duplicate)
    AL strong in a lazily loaded archive member   AW strong in a --whole-archive member
    DS strong in a shared object                  DW weak in a shared object
x one referencing object (defines _start, holds `slot: .quad name`) at every position of the line
x reference kind {strong, weak, hidden undefined} x output {exe, -pie, -shared}
x --allow-multiple-definition {off, on}.  The static exe excludes DS/DW (cannot be linked in).
Every provider initialises the name with a marker that encodes (position, kind); commons are told
apart by st_size.  Observable: what the reference slot denotes in the output (symfam.observe_slots)
and link success / failure.

Oracles, both required: (1) the rule of the statement as a small Python model, evaluated under
every reading of the points the statement leaves open (a member whose readings differ is "model
unsure" and excluded); (2) a reference linker on the same member: GNU ld, or ld.lld when the member
contains a lazily loaded archive (the property for archives names lld's behaviour).  Members where
model and reference disagree are counted and excluded.  wild links every agreed member on its own
(in-process server); the reference linker is run on *packs*: one link that carries all members of
the same (container shape, reference position, output, amd) under distinct names, split by the
model's prediction into an ok-pack and an error-pack (names a linker error message mentions are
"error", they are removed and the pack is linked again).  The packing is validated by running the
reference linker unpacked on a sub-family (all members with <= 1 provider in the quick tier, <= 2
in the thorough tier) and comparing verdicts.

Second axis, "multiref" (see the section of that name below): SEVERAL referencing objects (2;
thorough: up to 3) of the same name, each with its own reference kind, its own position among the
providers and the other referencing objects, its own slot, and (exe / -pie) its referencing section
live or discarded by --gc-sections; crossed with the provider sequences (quick: none or one
provider of each kind; thorough: also two) and the outputs.  Same two oracles (the model applies
"undefined non-weak = error, undefined weak = zero" to every live reference), same packing; every
slot is judged separately; violation keys start with `multiref:`."""
import itertools
import json
import os
import random
import re
import sys
import time

sys.path.insert(0, os.path.join(os.path.dirname(os.path.abspath(__file__)), "..", "lib"))
import vlib
import symfam
from elfgen import (ElfObject, SHF_ALLOC, SHF_WRITE, SHF_EXECINSTR, STB_GLOBAL, STB_WEAK, STT_OBJECT,
                    STT_FUNC, STV_DEFAULT, STV_HIDDEN)

KINDS = ["S", "W", "C4", "C16", "U", "H", "P", "G", "AL", "AW", "DS", "DW"]
CONT = {k: "O" for k in KINDS[:8]}
CONT.update(AL="L", AW="A", DS="D", DW="D")
REFS = ["strong", "weak", "hidden"]
OUTS = ["exe", "pie", "shared"]
OUTFLAGS = {"exe": [], "pie": ["-pie"], "shared": ["-shared"]}
AMDFLAG = "--allow-multiple-definition"


def marker(i, k):
    return 0x5A5A000000000000 | (i + 1) << 8 | KINDS.index(k)


def marker_name(v):
    if v >> 48 == 0x5A5A and (v & 0xff) < len(KINDS) and 1 <= (v >> 8 & 0xff) <= 3:
        return "%s#%d" % (KINDS[v & 0xff], (v >> 8 & 0xff) - 1)
    return hex(v)


# ------------------------------------------------------------------------------------- the model
# The rule exactly as the statement gives it. Points it leaves open are parameters ("readings"):
#   al:     when is a lazily loaded member a provider?  "literal": when the name is referenced
#           non-weakly (statement of C03 read literally); "firstdef": and it holds the first
#           definition among objects/archives; "firstdef_all": ... among all files incl. shared.
#   comdat: "two strong definitions outside COMDAT groups": an error when at least one ("either")
#           / at least two ("both") of the strong definitions are outside a group.
#   uniq:   STB_GNU_UNIQUE is not mentioned: it ranks as "weak" or as "strong".
#   hidden: a hidden undefined reference that could only bind outside the output: "bind" / "err".
READINGS = list(itertools.product(("literal", "firstdef", "firstdef_all"), ("either", "both"),
                                  ("weak", "strong"), ("bind", "err")))


def resolve_defs(seq, nonweak, amd, al, comdat, uniq):
    """The definition among objects / archive members the name resolves to: ("def", position),
    ("err",) for a duplicate-definition error, None when no object or member defines it."""
    defs = []                                    # (position, class, in_comdat) of object definitions
    for i, k in enumerate(seq):
        if k in ("DS", "DW"):
            continue
        if k == "AL":
            if not nonweak:
                continue
            earlier = [j for j in range(i) if al == "firstdef_all" or seq[j] not in ("DS", "DW")]
            if al != "literal" and earlier:
                continue
        cls = {"W": "weak", "C4": "common", "C16": "common", "U": uniq}.get(k, "strong")
        defs.append((i, cls, k == "G"))
    strong = [d for d in defs if d[1] == "strong"]
    if len(strong) >= 2 and not amd:
        outside = [d for d in strong if not d[2]]
        if (comdat == "either" and outside) or (comdat == "both" and len(outside) >= 2):
            return ("err",)
    if strong:
        return ("def", strong[0][0])
    common = [d for d in defs if d[1] == "common"]
    if common:
        big = max(int(seq[d[0]][1:]) for d in common)
        return ("def", [d[0] for d in common if int(seq[d[0]][1:]) == big][0])
    weak = [d for d in defs if d[1] == "weak"]
    if weak:
        return ("def", weak[0][0])
    return None


def model_one(seq, ref, out, amd, al, comdat, uniq, hidden):
    r = resolve_defs(seq, ref != "weak", amd, al, comdat, uniq)
    if r:
        return r
    if any(k in ("DS", "DW") for k in seq):
        return ("err",) if ref == "hidden" and hidden == "err" else ("dyn",)
    if ref == "weak":
        return ("zero",)
    if out in ("exe", "pie"):
        return ("err",)
    return ("err",) if ref == "hidden" and hidden == "err" else ("undef",)


def expected_of(seq, outcome):
    if outcome[0] != "def":
        return outcome if outcome == ("err",) else ("ok", outcome)
    k = seq[outcome[1]]
    if k in ("C4", "C16"):
        return ("ok", ("c", int(k[1:])))
    return ("ok", ("m", marker(outcome[1], k)))


def model(seq, ref, out, amd):
    """Set of expected verdicts over all readings; one element = the model is sure."""
    return {expected_of(seq, model_one(seq, ref, out, amd, *r)) for r in READINGS}


def normalise(obs, seq, ref):
    """Observation of a slot -> outcome class of the member."""
    if obs[0] == "dynundef":
        if any(k in ("DS", "DW") for k in seq):
            return ("dyn",)
        return ("zero",) if ref == "weak" else ("undef",)
    return tuple(obs)


# ------------------------------------------------------------------------------------ the family
def members(maxlen):
    for n in range(maxlen + 1):
        for seq in itertools.product(KINDS, repeat=n):
            for pos in range(n + 1):
                for ref in REFS:
                    for out in OUTS:
                        if out == "exe" and any(CONT[k] == "D" for k in seq):
                            continue
                        for amd in (0, 1):
                            yield (seq, pos, ref, out, amd)


def pack_name(seq, ref):
    return "x_" + "".join(k + "_" for k in seq) + ref[0]


# -------------------------------------------------------------------------- files of single members
def build_singles(d):
    os.makedirs(d, exist_ok=True)

    def w(name, data):
        with open(os.path.join(d, name), "wb") as f:
            f.write(data)
    for r in REFS:
        w("ref_%s.o" % r, symfam.reference_object([("x", r)]))
    for i in range(3):
        for k in KINDS[:8]:
            w("o%d_%s.o" % (i, k), symfam.provider_object([("x", k, marker(i, k))]))
        symfam.write_archive(os.path.join(d, "l%d.a" % i),
                             [("lm%d.o" % i, symfam.provider_object([("x", "S", marker(i, "AL"))]))])
        symfam.write_archive(os.path.join(d, "a%d.a" % i),
                             [("am%d.o" % i, symfam.provider_object([("x", "S", marker(i, "AW"))]))])
        for k in ("DS", "DW"):
            w("d%d_%s.o" % (i, k), symfam.provider_object([("x", "S" if k == "DS" else "W",
                                                            marker(i, k))]))
            rc, err = symfam.run_tool(["ld", "-shared", "-o", "d%d_%s.so" % (i, k),
                                       "d%d_%s.o" % (i, k)], d)
            if rc:
                raise RuntimeError("ld -shared failed: " + err)


def single_provider_files(seq):
    files = []
    for i, k in enumerate(seq):
        c = CONT[k]
        files.append(["o%d_%s.o" % (i, k)] if c == "O" else ["l%d.a" % i] if c == "L" else
                     ["--whole-archive", "a%d.a" % i, "--no-whole-archive"] if c == "A" else
                     ["d%d_%s.so" % (i, k)])
    return files


def single_files(seq, pos, ref):
    files = single_provider_files(seq)
    files.insert(pos, ["ref_%s.o" % ref])
    return [a for f in files for a in f]


def link_flags(out, amd, linker):
    fl = ["--no-gc-sections", *OUTFLAGS[out]]
    if amd:
        fl.append(AMDFLAG)
    if linker == "ld.lld":
        fl.append("--error-limit=0")
    return fl


def ref_linker(seq):
    return "ld.lld" if "AL" in seq else "ld"


def run_linker(linker, argv, cwd):
    return symfam.run_tool([linker, *argv], cwd)


def single_reference(sdir, outp, m):
    seq, pos, ref, out, amd = m
    linker = ref_linker(seq)
    try:
        os.unlink(outp)
    except OSError:
        pass
    rc, err = run_linker(linker, [*link_flags(out, amd, linker), *single_files(seq, pos, ref),
                                  "-o", outp], sdir)
    if rc < 0:
        return ("none", "reference linker killed by signal %d" % -rc), err
    if rc != 0:
        return ("err",), err
    return ("ok", normalise(symfam.observe_slots(outp, ["x"])["x"], seq, ref)), err


def single_wild(sdir, outp, m):
    seq, pos, ref, out, amd = m
    try:
        os.unlink(outp)
    except OSError:
        pass
    rc, msg = symfam.server_link([*link_flags(out, amd, "wild"), *single_files(seq, pos, ref),
                                  "-o", outp], cwd=sdir)
    if rc == 0:
        try:
            return ("ok", normalise(symfam.observe_slots(outp, ["x"])["x"], seq, ref)), msg
        except Exception as ex:      # an unreadable output is an observation, not a harness error
            return ("ok", ("odd", "unreadable output: %s" % ex)), msg
    if rc == 1:
        return ("err",), msg
    return ("crash", str(rc)), msg


# ------------------------------------------------------------------------- packs (reference side)
def build_pack_sos(d, maxlen):
    """One shared object per (sequence length, position) defining every pack name whose kind at
    that position is DS / DW (names of other shapes are never referenced in a pack: inert)."""
    os.makedirs(d, exist_ok=True)
    for n in range(1, maxlen + 1):
        for i in range(n):
            defs = [(pack_name(seq, r), "S" if seq[i] == "DS" else "W", marker(i, seq[i]))
                    for seq in itertools.product(KINDS, repeat=n) if seq[i] in ("DS", "DW")
                    for r in REFS]
            with open(os.path.join(d, "so%d_%d.o" % (n, i)), "wb") as f:
                f.write(symfam.provider_object(defs))
            rc, err = symfam.run_tool(["ld", "-shared", "-o", "so%d_%d.so" % (n, i),
                                       "so%d_%d.o" % (n, i)], d)
            if rc:
                raise RuntimeError("ld -shared failed: " + err)


def write_pack_providers(d, so_path, shape, names):
    """names: [(name, seq, ...)]. Writes the provider files of a pack into d; returns one list of
    file arguments per provider position. so_path(i) = the prebuilt shared object of position i."""
    files = []
    for i, c in enumerate(shape):
        if c == "O":
            with open(os.path.join(d, "p%d.o" % i), "wb") as f:
                f.write(symfam.provider_object([(x[0], x[1][i], marker(i, x[1][i]))
                                                for x in names]))
            files.append(["p%d.o" % i])
        elif c == "L":      # one member per name: loading is decided per name
            mem = [("l%d_%d.o" % (i, j), symfam.provider_object([(x[0], "S", marker(i, "AL"))]),
                    [x[0]]) for j, x in enumerate(names)]
            with open(os.path.join(d, "p%d.a" % i), "wb") as f:
                f.write(symfam.ar_bytes(mem))
            files.append(["p%d.a" % i])
        elif c == "A":
            data = symfam.provider_object([(x[0], "S", marker(i, "AW")) for x in names])
            symfam.write_archive(os.path.join(d, "p%d.a" % i), [("aw%d.o" % i, data)])
            files.append(["--whole-archive", "p%d.a" % i, "--no-whole-archive"])
        else:
            files.append([so_path(i)])
    return files


def write_pack(d, sodir, shape, pos, names):
    """names: [(name, seq, ref)]. Writes the pack's input files into d, returns the file arguments."""
    n = len(shape)
    files = write_pack_providers(d, lambda i: os.path.join(sodir, "so%d_%d.so" % (n, i)), shape,
                                 names)
    with open(os.path.join(d, "ref.o"), "wb") as f:
        f.write(symfam.reference_object([(nm, r) for nm, _s, r in names]))
    files.insert(pos, ["ref.o"])
    return [a for f in files for a in f]


NAME_RE = re.compile(r"(?<![A-Za-z0-9_])(?:x_(?:[A-Z0-9]+_)*[swh]|y_(?:[A-Z0-9]+_)*[swhg]+)"
                     r"(?![A-Za-z0-9_])")


def error_names(err):
    names = set()
    for line in err.splitlines():
        if "warning" in line:
            continue
        names.update(NAME_RE.findall(line))
    return names


KCLASS = {"S": "s", "H": "s", "P": "s", "G": "s", "AW": "s", "AL": "l", "W": "w", "U": "w",
          "C4": "c", "C16": "c", "DS": "d", "DW": "d"}


def pack_links(d, linker, flags, names, write, observe):
    """Links one pack (names: [(name, seq, ...)]) with the reference linker. A failing link says
    "error" for the names its messages mention; the others are linked again. Some GNU ld errors
    abort at the first name (e.g. `unresolvable R_X86_64_64 relocation`): then the names whose
    sequence has the same class pattern (strong/weak/common/dynamic) as the named one are set
    aside into a small pack of their own, so that the rest gets its verdict in a few links.
    write(part) -> file arguments; observe(output path, part) -> {name: verdict}."""
    verdict, nlinks = {}, 0
    queue = [(list(names), True)]
    while queue:
        part, generalise = queue.pop(0)
        if nlinks >= 40:
            for x in part:
                verdict[x[0]] = ("none", "retries exhausted")
            continue
        files = write(part)
        outp = os.path.join(d, "out")
        try:
            os.unlink(outp)
        except OSError:
            pass
        rc, err = run_linker(linker, [*flags, *files, "-o", outp], d)
        nlinks += 1
        if rc == 0:
            verdict.update(observe(outp, part))
            continue
        named = error_names(err) & {x[0] for x in part}
        if not named:
            for x in part:
                verdict[x[0]] = ("none", "linker failed without naming a member: " + err[-120:])
            continue
        for nm in named:
            verdict[nm] = ("err",)
        rest = [x for x in part if x[0] not in named]
        if generalise and len(named) <= 2:
            sigs = {tuple(KCLASS[k] for k in x[1]) for x in part if x[0] in named}
            suspects = [x for x in rest if tuple(KCLASS[k] for k in x[1]) in sigs]
            if suspects:
                rest = [x for x in rest if tuple(KCLASS[k] for k in x[1]) not in sigs]
                queue.append((suspects, False))
        if rest:
            queue.insert(0, (rest, generalise))
    return verdict, nlinks


def ref_pack_task(item):
    root, sodir, pid, shape, pos, out, amd, cls, names = item
    d = os.path.join(root, "pk%d" % os.getpid())
    os.makedirs(d, exist_ok=True)
    linker = "ld.lld" if "L" in shape else "ld"

    def observe(outp, part):
        obs = symfam.observe_slots(outp, [nm for nm, _s, _r in part])
        return {nm: ("ok", normalise(obs[nm], seq, ref)) for nm, seq, ref in part}
    verdict, nlinks = pack_links(d, linker, link_flags(out, amd, linker), names,
                                 lambda part: write_pack(d, sodir, shape, pos, part), observe)
    return pid, cls, verdict, nlinks, linker


def single_ref_task(item):
    sdir, root, batch = item
    outp = os.path.join(root, "sr%d.out" % os.getpid())
    return [(mid, single_reference(sdir, outp, m)[0]) for mid, m in batch]


def wild_task(item):
    sdir, root, batch = item
    outp = os.path.join(root, "w%d.out" % os.getpid())
    res = []
    for mid, m, exp in batch:
        got, msg = single_wild(sdir, outp, m)
        res.append((mid, got, "" if got == exp else msg[-300:]))
    kills, symfam.EXTERNAL_KILLS[0] = symfam.EXTERNAL_KILLS[0], 0
    return res, kills


def cls_name(v):
    if v[0] == "err":
        return "error"
    if v[0] == "crash":
        return "crash" + v[1]
    o = v[1]
    if o[0] == "m":
        return marker_name(o[1])
    if o[0] == "c":
        return "common%s" % (o[1],)
    return o[0]


def key_class(v):
    """Coarse class of a verdict for violation keys: one root cause = a handful of keys."""
    n = cls_name(v).split("#")[0]
    if n in ("S", "W", "U", "H", "P", "G", "AW", "common4", "common16"):
        return "def"
    return "lazy-member" if n == "AL" else "odd" if n.startswith("0x") else n


def violation_key(m, exp, got):
    """<output>:<reference kind>[:lazy][:so]:expect=<class>:got=<class>; when both are ordinary
    definitions the two kinds (and positions, if the kinds are equal) are spelled out."""
    seq, pos, ref, out, amd = m
    e, g = key_class(exp), key_class(got)
    if e == g == "def":
        e, g = cls_name(exp), cls_name(got)
        if e.split("#")[0] != g.split("#")[0]:
            e, g = e.split("#")[0], g.split("#")[0]
        e, g = "def(%s)" % e, "def(%s)" % g
    feats = (":lazy" if "AL" in seq else "") + (":so" if any(CONT[k] == "D" for k in seq) else "")
    return "%s:%s%s:expect=%s:got=%s" % (out, ref, feats, e, g)


# ================================================================================ the multiref axis
# SEVERAL referencing objects for the same name.  A member is (providers, refs, arrangement, output):
#   refs         one (kind, live) per referencing object, kind in {strong, weak, hidden undefined};
#                live = 0: the section holding the reference is referenced by nothing and the link
#                runs with --gc-sections (all three linkers), so the reference is not in the output;
#   arrangement  for each referencing object the number of providers that precede it on the
#                command line (non-decreasing: object j precedes object j+1), i.e. every way of
#                interleaving the referencing objects with the providers.
# Each referencing object j holds its own slot `slot_<name>_r<j>` in a section of its own; a main
# object (first on the line; it never mentions the name) defines _start and keeps the live slots
# alive through a table in its .data.  The verdict of a member is "link error" or one outcome per
# slot; every slot is judged separately.  --allow-multiple-definition is off on this axis.
MR_CODE = {"strong": "s", "weak": "w", "hidden": "h"}
MR_REP_KINDS = ["S", "W", "C16", "AL", "AW", "DS"]       # one kind per class, for the thinned part
R_X86_64_PC32 = 2


def mr_refcode(refs):
    return "".join(MR_CODE[k] + ("" if live else "g") for k, live in refs)


def mr_refs_text(refs):
    return "+".join(k + ("" if live else "/gc") for k, live in refs)


def mr_pack_name(seq, refs):
    return "y_" + "".join(k + "_" for k in seq) + mr_refcode(refs)


def mr_slot(name, j):
    return "slot_%s_r%d" % (name, j)


def mr_arrangements(n, k):
    return list(itertools.combinations_with_replacement(range(n + 1), k))


def mr_members(thorough):
    def gen(k, lengths, kinds, gc):
        for n in lengths:
            for seq in itertools.product(kinds, repeat=n):
                for arr in mr_arrangements(n, k):
                    for rk in itertools.product(REFS, repeat=k):
                        for out in OUTS:
                            if out == "exe" and any(CONT[x] == "D" for x in seq):
                                continue
                            lives = [(1,) * k]
                            if gc and out != "shared":
                                lives = [lv for lv in itertools.product((1, 0), repeat=k) if any(lv)]
                            for lv in lives:
                                yield (seq, tuple(zip(rk, lv)), arr, out)
    yield from gen(2, range(3 if thorough else 2), KINDS, True)
    if thorough:
        yield from gen(3, (0, 1), KINDS, True)
        yield from gen(3, (2,), MR_REP_KINDS, False)


# One more open point on this axis: does a non-weak reference in a DISCARDED section make the name
# non-weak for the references that remain ("any": GNU ld and lld merge the binding of all
# references of a name), or is each remaining reference judged by its own binding ("live")?
MR_READINGS = [r + (g,) for r in READINGS for g in ("live", "any")]


def mr_model_one(seq, refs, out, al, comdat, uniq, hidden, gcref):
    """The statement's rule with several references: the name resolves once (a lazily loaded
    member is a provider when ANY referencing object, discarded section or not, references the
    name non-weakly: loading precedes garbage collection); "an undefined non-weak reference in an
    executable is an error, an undefined weak reference resolves to zero" is applied to each
    reference that is in the output (live)."""
    def per(f):
        return ("ok", tuple(f(k) if live else ("gc",) for k, live in refs))
    r = resolve_defs(seq, any(k != "weak" for k, _l in refs), 0, al, comdat, uniq)
    if r == ("err",):
        return r
    if r:
        bound = expected_of(seq, r)[1]
        return per(lambda k: bound)
    anyhidden = any(k == "hidden" for k, _l in refs)
    if any(k in ("DS", "DW") for k in seq):
        if anyhidden and hidden == "err":
            return ("err",)
        return per(lambda k: ("dyn",))
    if any(k != "weak" and (live or gcref == "any") for k, live in refs):
        if out in ("exe", "pie"):
            return ("err",)
        if anyhidden and hidden == "err":
            return ("err",)
    return per(lambda k: ("zero",) if k == "weak" else ("undef",))


def mr_model(seq, refs, out):
    return {mr_model_one(seq, refs, out, *r) for r in MR_READINGS}


def mr_normalise(obs, seq, refs):
    """obs: {j: observation of slot j} -> tuple of per-slot outcomes; a discarded slot reads
    ("gc",) when it is absent from the output and ("kept",) when it is there."""
    res = []
    for j, (k, live) in enumerate(refs):
        if live:
            res.append(normalise(obs[j], seq, k))
        else:
            res.append(("gc",) if tuple(obs[j]) == symfam.SLOT_ABSENT else ("kept",))
    return tuple(res)


def mr_main_object(slots):
    """_start (`lea table(%rip),%rax; ret`) and a .data table with one word per live slot."""
    o = ElfObject()
    t = o.section(".text", flags=SHF_ALLOC | SHF_EXECINSTR, align=16,
                  data=b"\x48\x8d\x05\0\0\0\0\xc3")
    o.symbol("_start", section=t, type=STT_FUNC, size=8)
    d = o.section(".data", flags=SHF_ALLOC | SHF_WRITE, align=8, data=bytes(8 * max(1, len(slots))))
    o.reloc(t, 3, R_X86_64_PC32, o.section_symbol(d), -4)
    for i, sname in enumerate(slots):
        o.reloc(d, 8 * i, symfam.R_X86_64_64, o.symbol(sname), 0)
    o.note_gnu_stack()
    return o.to_bytes()


def mr_ref_object(j, refs):
    """Referencing object j. refs: [(name, kind)]; per name a section `.data.slot_<name>_r<j>` of
    its own holding the slot (R_X86_64_64 against the undefined name)."""
    o = ElfObject()
    for n, rk in refs:
        sec = o.section(".data." + mr_slot(n, j), flags=SHF_ALLOC | SHF_WRITE, align=8,
                        data=bytes(8))
        o.symbol(mr_slot(n, j), section=sec, size=8, type=STT_OBJECT)
        u = o.symbol(n, bind=STB_WEAK if rk == "weak" else STB_GLOBAL,
                     vis=STV_HIDDEN if rk == "hidden" else STV_DEFAULT)
        o.reloc(sec, 0, symfam.R_X86_64_64, u, 0)
    o.note_gnu_stack()
    return o.to_bytes()


def mr_line(prov_files, ref_files, arr):
    line, j = [], 0
    for i in range(len(prov_files) + 1):
        while j < len(arr) and arr[j] == i:
            line.append(ref_files[j])
            j += 1
        if i < len(prov_files):
            line += prov_files[i]
    return line


def mr_flags(out, linker):
    fl = ["--gc-sections", *OUTFLAGS[out]]
    if linker == "ld.lld":
        fl.append("--error-limit=0")
    return fl


def build_mr_singles(d, maxrefs):
    os.makedirs(d, exist_ok=True)
    for k in range(2, maxrefs + 1):
        for lv in itertools.product((1, 0), repeat=k):
            with open(os.path.join(d, "mm_%s.o" % "".join(map(str, lv))), "wb") as f:
                f.write(mr_main_object([mr_slot("x", j) for j in range(k) if lv[j]]))
    for j in range(maxrefs):
        for r in REFS:
            with open(os.path.join(d, "mr%d_%s.o" % (j, r)), "wb") as f:
                f.write(mr_ref_object(j, [("x", r)]))


def mr_single_files(m):
    seq, refs, arr, out = m
    prov = single_provider_files(seq)
    return ["mm_%s.o" % "".join(str(l) for _k, l in refs),
            *mr_line(prov, ["mr%d_%s.o" % (j, k) for j, (k, _l) in enumerate(refs)], arr)]


def mr_observe(outp, name, seq, refs):
    obs = symfam.observe_named_slots(outp, [(j, mr_slot(name, j), name) for j in range(len(refs))])
    return ("ok", mr_normalise(obs, seq, refs))


def mr_single_reference(sdir, outp, m):
    seq, refs, arr, out = m
    linker = ref_linker(seq)
    try:
        os.unlink(outp)
    except OSError:
        pass
    rc, err = run_linker(linker, [*mr_flags(out, linker), *mr_single_files(m), "-o", outp], sdir)
    if rc < 0:
        return ("none", "reference linker killed by signal %d" % -rc), err
    if rc != 0:
        return ("err",), err
    return mr_observe(outp, "x", seq, refs), err


def mr_single_wild(sdir, outp, m):
    seq, refs, arr, out = m
    try:
        os.unlink(outp)
    except OSError:
        pass
    rc, msg = symfam.server_link([*mr_flags(out, "wild"), *mr_single_files(m), "-o", outp], cwd=sdir)
    if rc == 0:
        try:
            return mr_observe(outp, "x", seq, refs), msg
        except Exception as ex:      # an unreadable output is an observation, not a harness error
            return ("ok", tuple(("odd", "unreadable output: %s" % ex) for _ in refs)), msg
    if rc == 1:
        return ("err",), msg
    return ("crash", str(rc)), msg


def build_mr_pack_sos(d, by_so):
    """by_so: {(sequence length, position): [(pack name, DS / DW)]}: one shared object each."""
    os.makedirs(d, exist_ok=True)
    for (n, i), lst in sorted(by_so.items()):
        defs = [(nm, "S" if k == "DS" else "W", marker(i, k)) for nm, k in sorted(set(lst))]
        with open(os.path.join(d, "mso%d_%d.o" % (n, i)), "wb") as f:
            f.write(symfam.provider_object(defs))
        rc, err = symfam.run_tool(["ld", "-shared", "-o", "mso%d_%d.so" % (n, i),
                                   "mso%d_%d.o" % (n, i)], d)
        if rc:
            raise RuntimeError("ld -shared failed: " + err)


def mr_write_pack(d, sodir, shape, arr, names):
    """names: [(name, seq, refs)]; all of one container shape, arrangement and number of refs."""
    n, k = len(shape), len(arr)
    prov = write_pack_providers(d, lambda i: os.path.join(sodir, "mso%d_%d.so" % (n, i)), shape,
                                names)
    with open(os.path.join(d, "m.o"), "wb") as f:
        f.write(mr_main_object([mr_slot(nm, j) for nm, _s, refs in names for j in range(k)
                                if refs[j][1]]))
    for j in range(k):
        with open(os.path.join(d, "r%d.o" % j), "wb") as f:
            f.write(mr_ref_object(j, [(nm, refs[j][0]) for nm, _s, refs in names]))
    return ["m.o", *mr_line(prov, ["r%d.o" % j for j in range(k)], arr)]


def mr_pack_task(item):
    root, sodir, pid, shape, arr, out, cls, names = item
    d = os.path.join(root, "mpk%d" % os.getpid())
    os.makedirs(d, exist_ok=True)
    linker = "ld.lld" if "L" in shape else "ld"

    def observe(outp, part):
        k = len(arr)
        obs = symfam.observe_named_slots(outp, [((nm, j), mr_slot(nm, j), nm)
                                                for nm, _s, _r in part for j in range(k)])
        return {nm: ("ok", mr_normalise({j: obs[(nm, j)] for j in range(k)}, seq, refs))
                for nm, seq, refs in part}
    verdict, nlinks = pack_links(d, linker, mr_flags(out, linker), names,
                                 lambda part: mr_write_pack(d, sodir, shape, arr, part), observe)
    return pid, verdict, nlinks, linker


def mr_single_ref_task(item):
    sdir, root, batch = item
    outp = os.path.join(root, "msr%d.out" % os.getpid())
    return [(mid, mr_single_reference(sdir, outp, m)[0]) for mid, m in batch]


def mr_wild_task(item):
    sdir, root, batch = item
    outp = os.path.join(root, "mw%d.out" % os.getpid())
    res = []
    for mid, m, exp in batch:
        got, msg = mr_single_wild(sdir, outp, m)
        res.append((mid, got, "" if got == exp else msg[-300:]))
    kills, symfam.EXTERNAL_KILLS[0] = symfam.EXTERNAL_KILLS[0], 0
    return res, kills


def mr_cls_name(v):
    if v[0] != "ok":
        return cls_name(v)
    return "+".join(s[0] if s[0] in ("gc", "kept") else cls_name(("ok", s)) for s in v[1])


def mr_key_class(v):
    if v[0] != "ok":
        return key_class(v)
    return "+".join(s[0] if s[0] in ("gc", "kept") else key_class(("ok", s)) for s in v[1])


def mr_key(m, exp, got, j=None):
    """j = None, the link as a whole (error / crash on one side):
         multiref:<output>:<kind[/gc]>+...[:lazy][:so]:expect=<class>:got=<class>
       the referencing objects in command-line order, classes of all slots joined by +, in both
       lists equal neighbours written once.
       j given, the slot of referencing object j:
         multiref:<output>:<kind of j>:others=<kind[/gc]>,...[:lazy][:so]:expect=<class>:got=<class>
       others = the distinct kinds of the other referencing objects, sorted; classes as in
       violation_key."""
    seq, refs, arr, out = m
    feats = (":lazy" if "AL" in seq else "") + (":so" if any(CONT[k] == "D" for k in seq) else "")
    if j is None:
        runs = [r for i, r in enumerate(refs) if i == 0 or r != refs[i - 1]]
        def runs_of(v):
            parts = mr_key_class(v).split("+")
            return "+".join(c for i, c in enumerate(parts) if i == 0 or c != parts[i - 1])
        return "multiref:%s:%s%s:expect=%s:got=%s" % (out, mr_refs_text(runs), feats,
                                                      runs_of(exp), runs_of(got))
    others = sorted({mr_refs_text([r]) for i, r in enumerate(refs) if i != j})
    ev, gv = ("ok", exp[1][j]), ("ok", got[1][j])
    e, g = key_class(ev), key_class(gv)
    if e == g == "def":
        e, g = cls_name(ev), cls_name(gv)
        if e.split("#")[0] != g.split("#")[0]:
            e, g = e.split("#")[0], g.split("#")[0]
        e, g = "def(%s)" % e, "def(%s)" % g
    return "multiref:%s:%s:others=%s%s:expect=%s:got=%s" % (out, refs[j][0], ",".join(others),
                                                           feats, e, g)


def mr_member_json(m):
    seq, refs, arr, out = m
    return {"providers": list(seq), "refs": [[k, bool(l)] for k, l in refs],
            "providers_before_each_ref": list(arr), "output": out}


def mr_command_line(m, linker="wild"):
    return " ".join([linker, *mr_flags(m[3], linker), *mr_single_files(m), "-o out"])


def mr_what(m):
    seq, refs, arr, out = m
    return "providers=%s refs=%s (providers before each: %s) out=%s" % (
        ",".join(seq) or "-", mr_refs_text(refs), ",".join(map(str, arr)), out)


def member_json(m):
    seq, pos, ref, out, amd = m
    return {"providers": list(seq), "ref_position": pos, "ref": ref, "output": out,
            "allow_multiple_definition": bool(amd)}


def command_line(m, linker="wild"):
    seq, pos, ref, out, amd = m
    return " ".join([linker, *link_flags(out, amd, linker), *single_files(seq, pos, ref), "-o out"])


def mr_replay(rp):
    mj = rp["member"]
    m = (tuple(mj["providers"]), tuple((k, int(l)) for k, l in mj["refs"]),
         tuple(mj["providers_before_each_ref"]), mj["output"])
    with vlib.scratch("c02r") as base:
        sdir = os.path.join(base, "singles")
        build_singles(sdir)
        build_mr_singles(sdir, 3)
        mod = mr_model(m[0], m[1], m[3])
        refv, referr = mr_single_reference(sdir, os.path.join(base, "ref.out"), m)
        got, msg = mr_single_wild(sdir, os.path.join(base, "wild.out"), m)
    print("member   :", mj)
    print("command  :", mr_command_line(m))
    print("model    :", sorted(mod))
    print("reference:", ref_linker(m[0]), refv, referr.strip()[-200:])
    print("wild     :", got, msg.strip()[-200:])
    if len(mod) == 1 and refv in mod and got != refv and not (
            got[0] == "ok" and ("kept",) in got[1]):
        print("REPRODUCED: expected %s, wild %s" % (mr_cls_name(refv), mr_cls_name(got)))
        sys.exit(vlib.EXIT_VIOLATION)
    print("not reproduced")
    sys.exit(vlib.EXIT_OK)


def replay(chk, path):
    with open(path) as f:
        rp = json.load(f)["replay"]
    if rp.get("family") == "multiref":
        mr_replay(rp)
    mj = rp["member"]
    m = (tuple(mj["providers"]), mj["ref_position"], mj["ref"], mj["output"],
         int(mj["allow_multiple_definition"]))
    with vlib.scratch("c02r") as base:
        sdir = os.path.join(base, "singles")
        build_singles(sdir)
        mod = model(*[m[0], m[2], m[3], m[4]])
        refv, referr = single_reference(sdir, os.path.join(base, "ref.out"), m)
        got, msg = single_wild(sdir, os.path.join(base, "wild.out"), m)
    print("member   :", mj)
    print("command  :", command_line(m))
    print("model    :", sorted(mod))
    print("reference:", ref_linker(m[0]), refv, referr.strip()[-200:])
    print("wild     :", got, msg.strip()[-200:])
    if len(mod) == 1 and refv in mod and got != refv:
        print("REPRODUCED: expected %s, wild %s" % (cls_name(refv), cls_name(got)))
        sys.exit(vlib.EXIT_VIOLATION)
    print("not reproduced")
    sys.exit(vlib.EXIT_OK)


def batches(items, n):
    return [items[i:i + n] for i in range(0, len(items), n)]


def multiref_phase(chk, base, sdir):
    """The whole multiref axis: model, reference packs, unpacked validation, wild. Records
    violations on chk; returns the coverage dictionary of the axis."""
    t0 = time.time()
    allm = list(mr_members(chk.thorough))
    if chk.seed:
        random.Random(chk.seed + 1).shuffle(allm)
    expect, unsure, mcache = {}, 0, {}
    for mid, (seq, refs, arr, out) in enumerate(allm):
        key = (seq, refs, out)
        if key not in mcache:
            mcache[key] = mr_model(seq, refs, out)
        if len(mcache[key]) == 1:
            expect[mid] = next(iter(mcache[key]))
        else:
            unsure += 1
    build_mr_singles(sdir, 3 if chk.thorough else 2)
    sodir = os.path.join(base, "mso")
    by_so = {}
    for mid in expect:
        seq, refs, arr, out = allm[mid]
        for i, k in enumerate(seq):
            if CONT[k] == "D":
                by_so.setdefault((len(seq), i), []).append((mr_pack_name(seq, refs), k))
    build_mr_pack_sos(sodir, by_so)
    # ---- reference linker on packs: one pack per (container shape, arrangement, output, ok/err)
    packs = {}
    for mid, exp in expect.items():
        seq, refs, arr, out = allm[mid]
        shape = tuple(CONT[k] for k in seq)
        packs.setdefault((shape, arr, len(refs), out, "err" if exp == ("err",) else "ok"),
                         []).append((mid, seq, refs))
    items, pack_members = [], {}
    for pid, ((shape, arr, _k, out, cls), lst) in enumerate(sorted(packs.items())):
        pack_members[pid] = {mr_pack_name(seq, refs): mid for mid, seq, refs in lst}
        items.append((base, sodir, pid, shape, arr, out, cls,
                      [(mr_pack_name(seq, refs), seq, refs) for _mid, seq, refs in lst]))
    items.sort(key=lambda it: -len(it[7]))
    refverdict, ref_links = {}, {"ld": 0, "ld.lld": 0}
    for pid, verdict, nlinks, linker in vlib.pmap(mr_pack_task, items, chunksize=1):
        ref_links[linker] += nlinks
        for nm, v in verdict.items():
            refverdict[pack_members[pid][nm]] = v
    t_ref = time.time() - t0
    # ---- the packing validated unpacked on a sub-family
    def in_sub(m):
        seq, refs, arr, out = m
        if not seq:
            return True
        if len(seq) > 1:
            return False
        if not chk.thorough:     # one provider: two live refs of different kinds straddling it
            return arr == (0, 1) and refs[0][0] != refs[1][0] and all(l for _k, l in refs)
        return len(refs) == 2 or (all(l for _k, l in refs) and 0 in arr and 1 in arr)
    sub = [(mid, allm[mid]) for mid in expect if in_sub(allm[mid])]
    pack_checked = pack_mismatch = 0
    mismatch_samples = []
    for res in vlib.pmap(mr_single_ref_task, [(sdir, base, b) for b in batches(sub, 24)],
                         chunksize=1):
        for mid, v in res:
            pack_checked += 1
            ref_links[ref_linker(allm[mid][0])] += 1
            if v != refverdict.get(mid):
                pack_mismatch += 1
                if len(mismatch_samples) < 5:
                    mismatch_samples.append({"member": mr_member_json(allm[mid]),
                                             "packed": refverdict.get(mid), "unpacked": v})
                refverdict[mid] = ("none", "packed and unpacked reference verdicts differ")
    t_unpacked = time.time() - t0 - t_ref
    # ---- agreement
    agreed, disagree, disagree_samples, noverdict, noverdict_reasons = [], {}, {}, 0, {}
    for mid, exp in expect.items():
        v = refverdict.get(mid, ("none", "missing"))
        if v[0] == "ok" and any(s == ("kept",) for s in v[1]):
            v = ("none", "the reference linker kept an unreferenced section")
        if v[0] == "none":
            noverdict += 1
            noverdict_reasons[v[1][:60]] = noverdict_reasons.get(v[1][:60], 0) + 1
        elif v == exp:
            agreed.append(mid)
        else:
            cat = "model=%s ref=%s" % (mr_key_class(exp), mr_key_class(v))
            disagree[cat] = disagree.get(cat, 0) + 1
            disagree_samples.setdefault(cat, {"member": mr_member_json(allm[mid]),
                                              "model": mr_cls_name(exp), "reference": mr_cls_name(v),
                                              "linker": ref_linker(allm[mid][0])})
    # ---- wild, every agreed member on its own; every slot judged separately
    work = [(mid, allm[mid], expect[mid]) for mid in agreed]
    outcomes, n_eval, nontrivial, crashes_as_error, wild_kept, slots_judged = {}, 0, 0, 0, 0, 0
    cap = 300 if chk.thorough else 30
    capped, tw, ext_kills = None, time.time(), 0
    for res, kills in vlib.pmap_unordered(mr_wild_task,
                                          [(sdir, base, b) for b in batches(work, 64)]):
        ext_kills += kills
        for mid, got, msg in res:
            m, exp = allm[mid], expect[mid]
            if got[0] == "ok" and any(s == ("kept",) for s in got[1]):
                wild_kept += 1       # section garbage collection is not this property's matter
                continue
            n_eval += 1
            oc = mr_key_class(exp)
            outcomes[oc] = outcomes.get(oc, 0) + 1
            if len(set(m[1])) >= 2:
                nontrivial += 1
            if exp[0] == "ok":
                slots_judged += sum(1 for _k, l in m[1] if l)
            if got == exp:
                continue
            if exp == ("err",) and got[0] == "crash":
                crashes_as_error += 1
                continue
            rp = {"family": "multiref", "member": mr_member_json(m), "expected": mr_cls_name(exp),
                  "wild": mr_cls_name(got), "command": mr_command_line(m),
                  "reference_command": mr_command_line(m, ref_linker(m[0]))}
            if exp[0] != "ok" or got[0] != "ok":
                chk.violation(mr_key(m, exp, got),
                              "%s: model and %s say %s, wild: %s %s"
                              % (mr_what(m), ref_linker(m[0]), mr_cls_name(exp), mr_cls_name(got),
                                 msg.replace("\n", " ")[:200]), rp)
                continue
            for j in range(len(m[1])):
                if got[1][j] != exp[1][j]:
                    chk.violation(mr_key(m, exp, got, j),
                                  "%s: slot of referencing object %d: model and %s say %s, wild: %s "
                                  "(all slots: expected %s, wild %s)"
                                  % (mr_what(m), j, ref_linker(m[0]),
                                     cls_name(("ok", exp[1][j])), cls_name(("ok", got[1][j])),
                                     mr_cls_name(exp), mr_cls_name(got)), dict(rp, slot=j))
        if time.time() - tw > cap:
            capped = "time_cap=%ds after %d of %d agreed members" % (cap, n_eval, len(work))
            break
    t_wild = time.time() - t0 - t_ref - t_unpacked
    by_shape = {}
    for m in allm:
        k = "%d refs x %d providers" % (len(m[1]), len(m[0]))
        by_shape[k] = by_shape.get(k, 0) + 1
    samples = [{"member": mr_member_json(allm[mid]), "expected": mr_cls_name(expect[mid]),
                "command": mr_command_line(allm[mid])}
               for mid in agreed[:: max(1, len(agreed) // 6)][:6]]
    if chk.thorough:
        rule = ("2 referencing objects x all provider sequences of length 0..2 over 12 kinds; 3 "
                "referencing objects x all provider sequences of length 0..1; 3 referencing objects "
                "x 2 providers THINNED to one provider kind per class (%s) and to live references"
                % ",".join(MR_REP_KINDS))
    else:
        rule = ("2 referencing objects x all provider sequences of length 0..1 over 12 kinds (two "
                "providers and a third referencing object: thorough tier only)")
    rule += ("; x every interleaving of the referencing objects with the providers x each object's "
             "reference kind {strong, weak, hidden} x outputs {exe, -pie, -shared} (exe without "
             "shared-object providers) x for exe / -pie each object's referencing section live or "
             "discarded by --gc-sections (at least one live); --allow-multiple-definition off")
    return {
        "evaluations": n_eval, "distinct_nontrivial": nontrivial, "rule": rule,
        "members_total": len(allm), "members_by_shape": by_shape, "slots_judged": slots_judged,
        "model_unsure_excluded": unsure,
        "model_vs_reference_disagree_excluded": sum(disagree.values()),
        "disagreements_by_class": dict(sorted(disagree.items(), key=lambda kv: -kv[1])),
        "disagreement_samples": list(disagree_samples.values())[:40],
        "reference_no_verdict_excluded": noverdict, "no_verdict_reasons": noverdict_reasons,
        "agreed_members": len(agreed), "wild_kept_an_unreferenced_section_not_judged": wild_kept,
        "expected_outcome_histogram": outcomes, "reference_packs": len(items),
        "reference_links": ref_links, "pack_validation_unpacked_members": pack_checked,
        "pack_validation_mismatches": pack_mismatch, "pack_mismatch_samples": mismatch_samples,
        "wild_crash_where_error_expected": crashes_as_error,
        "links_repeated_after_external_kill_of_the_server": ext_kills,
        "phase_wall_s": {"reference_packs": round(t_ref, 1), "unpacked": round(t_unpacked, 1),
                         "wild": round(t_wild, 1)},
        "samples": samples, "exhaustive": capped is None, "capped": capped,
    }


def main():
    chk = vlib.Check("C02", "exploration")
    if not chk.args.no_build:
        vlib.build("wild")
    if chk.args.replay:
        replay(chk, chk.args.replay)
    maxlen = 3 if chk.thorough else 2
    unpacked_maxlen = 2 if chk.thorough else 1
    allm = list(members(maxlen))
    if chk.seed:
        random.Random(chk.seed).shuffle(allm)
    t0 = time.time()
    # ---- model ----------------------------------------------------------------------------------
    expect, unsure = {}, 0
    mcache = {}
    for mid, (seq, pos, ref, out, amd) in enumerate(allm):
        key = (seq, ref, out, amd)
        if key not in mcache:
            mcache[key] = model(seq, ref, out, amd)
        mod = mcache[key]
        if len(mod) == 1:
            expect[mid] = next(iter(mod))
        else:
            unsure += 1
    with vlib.scratch("c02") as base:
        err = symfam.selftest_ar(os.path.join(base, "arself"))
        if err:
            chk.machinery(err)
        sdir, sodir = os.path.join(base, "singles"), os.path.join(base, "so")
        build_singles(sdir)
        build_pack_sos(sodir, maxlen)
        # ---- reference linker on packs ----------------------------------------------------------
        packs = {}
        for mid, exp in expect.items():
            seq, pos, ref, out, amd = allm[mid]
            shape = tuple(CONT[k] for k in seq)
            cls = "err" if exp == ("err",) else "ok"
            packs.setdefault((shape, pos, out, amd, cls), []).append((mid, seq, ref))
        items, pack_members = [], {}
        for pid, ((shape, pos, out, amd, cls), lst) in enumerate(sorted(packs.items())):
            pack_members[pid] = {pack_name(seq, ref): mid for mid, seq, ref in lst}
            items.append((base, sodir, pid, shape, pos, out, amd, cls,
                          [(pack_name(seq, ref), seq, ref) for _mid, seq, ref in lst]))
        # Biggest packs first so the pool drains evenly.
        items.sort(key=lambda it: -len(it[8]))
        refverdict, ref_links = {}, {"ld": 0, "ld.lld": 0}
        for pid, cls, verdict, nlinks, linker in vlib.pmap(ref_pack_task, items, chunksize=1):
            ref_links[linker] += nlinks
            for nm, v in verdict.items():
                refverdict[pack_members[pid][nm]] = v
        t_ref = time.time() - t0
        # ---- the packing itself, validated unpacked on a sub-family -----------------------------
        sub = [(mid, allm[mid]) for mid in expect if len(allm[mid][0]) <= unpacked_maxlen]
        # lld members last in each batch list does not matter; keep batches small for balance.
        pack_checked = pack_mismatch = 0
        mismatch_samples = []
        for res in vlib.pmap(single_ref_task, [(sdir, base, b) for b in batches(sub, 24)],
                             chunksize=1):
            for mid, v in res:
                pack_checked += 1
                ref_links[ref_linker(allm[mid][0])] += 1
                if v != refverdict.get(mid):
                    pack_mismatch += 1
                    if len(mismatch_samples) < 5:
                        mismatch_samples.append({"member": member_json(allm[mid]),
                                                 "packed": refverdict.get(mid), "unpacked": v})
                    refverdict[mid] = ("none", "packed and unpacked reference verdicts differ")
        t_unpacked = time.time() - t0 - t_ref
        # ---- agreement ---------------------------------------------------------------------------
        agreed, disagree, noverdict, noverdict_reasons = [], {}, 0, {}
        disagree_samples = {}
        for mid, exp in expect.items():
            v = refverdict.get(mid, ("none", "missing"))
            if v[0] == "none":
                noverdict += 1
                noverdict_reasons[v[1][:60]] = noverdict_reasons.get(v[1][:60], 0) + 1
            elif v == exp:
                agreed.append(mid)
            else:
                seq, pos, ref, out, amd = allm[mid]
                cat = "model=%s ref=%s" % (cls_name(exp).split("#")[0], cls_name(v).split("#")[0])
                disagree[cat] = disagree.get(cat, 0) + 1
                disagree_samples.setdefault(cat, {"member": member_json(allm[mid]),
                                                  "model": cls_name(exp), "reference": cls_name(v),
                                                  "linker": ref_linker(seq)})
        # ---- wild, every agreed member on its own ----------------------------------------------
        work = [(mid, allm[mid], expect[mid]) for mid in agreed]
        outcomes, n_eval, nontrivial, crashes_as_error = {}, 0, 0, 0
        cap = 600 if chk.thorough else 60         # wall cap of the wild phase
        capped, tw = None, time.time()
        ext_kills = 0
        for res, kills in vlib.pmap_unordered(wild_task,
                                              [(sdir, base, b) for b in batches(work, 64)]):
            ext_kills += kills
            for mid, got, msg in res:
                n_eval += 1
                m, exp = allm[mid], expect[mid]
                outcomes[cls_name(exp).split("#")[0]] = outcomes.get(cls_name(exp).split("#")[0], 0) + 1
                if len(m[0]) >= 2:
                    nontrivial += 1
                if got == exp:
                    continue
                if exp == ("err",) and got[0] == "crash":
                    crashes_as_error += 1     # the link did fail; how is not this property's matter
                    continue
                chk.violation(violation_key(m, exp, got),
                              "providers=%s ref=%s@%d out=%s amd=%d: model and %s say %s, wild: %s %s"
                              % (",".join(m[0]), m[2], m[1], m[3], m[4], ref_linker(m[0]),
                                 cls_name(exp), cls_name(got), msg.replace("\n", " ")[:200]),
                              {"member": member_json(m), "expected": cls_name(exp),
                               "wild": cls_name(got), "command": command_line(m),
                               "reference_command": command_line(m, ref_linker(m[0]))})
            if time.time() - tw > cap:
                capped = "time_cap=%ds after %d of %d agreed members" % (cap, n_eval, len(work))
                break      # leaving the generator terminates the pool
        t_wild = time.time() - t0 - t_ref - t_unpacked
        # ---- the multiref axis (several referencing objects of the same name) --------------------
        mr = multiref_phase(chk, base, sdir)
    samples = [{"member": member_json(allm[mid]), "expected": cls_name(expect[mid]),
                "command": command_line(allm[mid])} for mid in agreed[:: max(1, len(agreed) // 6)][:6]]
    chk.coverage = {
        "evaluations": n_eval + mr["evaluations"],
        "distinct_nontrivial": nontrivial + mr["distinct_nontrivial"],
        "single_reference_evaluations": n_eval, "multiref_evaluations": mr["evaluations"],
        "multiref": mr,
        "rule": "(A) single referencing object: all provider sequences of length 0..%d over 12 kinds x every reference position x "
                "3 reference kinds x 3 outputs (exe without shared-object providers) x "
                "--allow-multiple-definition off/on; evaluations = members on which model and "
                "reference linker agree, each linked by wild on its own; non-trivial = such members "
                "with >= 2 providers (a choice or a conflict exists); members are pairwise distinct "
                "by construction; (B) multiref axis: %s; non-trivial = members whose referencing "
                "objects differ in kind or liveness" % (maxlen, mr["rule"]),
        "members_total": len(allm), "model_unsure_excluded": unsure,
        "model_vs_reference_disagree_excluded": sum(disagree.values()),
        "disagreements_by_class": dict(sorted(disagree.items(), key=lambda kv: -kv[1])),
        "disagreement_samples": list(disagree_samples.values())[:40],
        "reference_no_verdict_excluded": noverdict, "no_verdict_reasons": noverdict_reasons, "agreed_members": len(agreed),
        "expected_outcome_histogram": outcomes, "reference_packs": len(items),
        "reference_links": ref_links, "pack_validation_unpacked_members": pack_checked,
        "pack_validation_mismatches": pack_mismatch, "pack_mismatch_samples": mismatch_samples,
        "wild_crash_where_error_expected": crashes_as_error,
        "links_repeated_after_external_kill_of_the_server": ext_kills,
        "phase_wall_s": {"reference_packs": round(t_ref, 1), "unpacked": round(t_unpacked, 1),
                         "wild": round(t_wild, 1)},
        "samples": samples + mr["samples"][:3],
        "exhaustive": capped is None and mr["capped"] is None,
        "capped": capped or mr["capped"],
        "explanation": "reference = GNU ld 2.40, or ld.lld 14 for members containing a lazily "
                       "loaded archive; wild links run unpacked through the in-process server",
    }
    chk.assumptions = [
        "GNU ld / ld.lld resolve distinct names independently (reference packs); validated unpacked "
        "on the sub-family with <= %d provider(s): %d members, %d mismatches (mismatching members "
        "are excluded)" % (unpacked_maxlen, pack_checked, pack_mismatch),
        "which of several shared objects a dynamic reference binds to is not observable at link "
        "time and is not checked; a symbolic dynamic relocation against an undefined dynamic "
        "symbol counts as bound to the shared definition when one is on the line, else as zero "
        "(weak) / left to the loader (-shared)",
        "the model deliberately has no opinion where the statement is silent (GNU-unique rank, "
        "strong vs COMDAT-strong, lazy member behind another definition, hidden reference to a "
        "shared definition; on the multiref axis also: whether a non-weak reference in a discarded "
        "section makes the name non-weak for the remaining weak references): those members are "
        "excluded",
        "multiref axis: a reference whose section nothing references is not in the output under "
        "--gc-sections (checked on every reference-linker output: the slot symbol must be gone; "
        "else no verdict); when wild keeps such a section the member is not judged here (%d "
        "members): the precision of garbage collection is not this property's matter"
        % mr["wild_kept_an_unreferenced_section_not_judged"],
        "multiref packs validated unpacked on: all members without provider, and of the members "
        "with one provider %s: %d members, %d mismatches" % (
            "those with 2 referencing objects and those with 3 live ones straddling it" if chk.thorough else
            "those whose two referencing objects are live, differ in kind and straddle it", mr["pack_validation_unpacked_members"],
            mr["pack_validation_mismatches"]),
    ]
    chk.finish()


if __name__ == "__main__":
    main()
