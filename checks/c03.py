#!/usr/bin/env python3
"""C03 - Archive members are loaded exactly when needed.

P part (bounded-exhaustive programs).  One plain object main.o (defines _start) and archive members
m1..mN (member i = function f_mi + data symbol marker_mi + one call per outgoing edge).  Every
ordered pair (main->mi, mi->mj) carries {n: no reference, s: call, w: call of a `.weak` symbol}.
  thorough: N=2 (81 graphs); N=3, all 3^3 x 3^6 = 19,683 graphs for the lazy containers, the
            canonical representatives (below) under --whole-archive, where the expectation is
            trivially "all members"
  quick:    N=2 all graphs; N=3 only the canonical representative of each class of graphs under
            relabelling of the members (lexicographically smallest edge vector; ~3.4k graphs), with
            the --start-lib container only
x archive position {before, after main.o}
x container {regular archive `ar rcD`, thin archive `ar rcTD`, --start-lib objs --end-lib}
x {lazy, --whole-archive}   (--whole-archive around --start-lib is left out: the statement does
                             not say whether such objects are "archive members in a whole-archive
                             region"; lld keeps them lazy, wild loads them all).
Oracle: least fixpoint of the statement: loaded = {main.o} + all members under --whole-archive +
{member defining a symbol that a loaded file references non-weakly}.  Observable: the set of
marker_mi defined in the output .symtab (--no-gc-sections), which must equal the fixpoint, and exit
status 0.  ld.lld on a sub-family as second oracle; a graph on which lld and the fixpoint differ
is excluded.

Duplicate providers: `dup` defined strongly in two members, or in a member and in a plain object
p.o that comes last on the line; main references dup {strongly, weakly} and f_mi {n, s}^3; no
other edges; x position x container, lazy only.  Oracle: fixpoint where a non-weak reference loads
the file of the FIRST definition in command-line order (the statement alone would not settle
this; lld decides: only members on which ld.lld agrees with that fixpoint are judged), and the
link is an error exactly when two loaded files define dup.

Chunk boundaries (both tiers).  wild walks some tables in fixed-size pieces; one member on each side
of every piece size:
  * symbol table: an object's symbols are resolved in work items of MAX_SYMBOLS_PER_WORK_ITEM (B,
    read from resolution.rs at run time, else 5000).  The referencing object is built with elfgen
    with ~2B+5 symbols (locals, defined globals, weak undefined globals as filler) so that the one
    non-weak undefined global naming member m_i (i = 1..3) sits at symbol index
    k in {1, 2, B-1, B, B+1, 2B-1, 2B, 2B+1}; plus all three members referenced from indexes
    (B-1, B, B+1) and (2B-1, 2B, 2B+1)
  * files per group: MAX_FILES_PER_GROUP (F = 1 << FILE_INDEX_BITS from input_data.rs, else 256):
    an archive of 260 members (fillers that nothing references) with m1 at member index
    F-2 .. F+1, and the chain main -> m1 -> m2 -> m3 on members (F-2, F-1, F) and (F-1, F, F+1)
  each x container {regular, thin, --start-lib} x position x --threads {1, 4} x {plain,
  --strip-all}.  Oracle: the same fixpoint.  Observable: the members whose 8 marker bytes occur in
  the PT_LOAD contents of the output (works without a symbol table) and, when not stripped, also
  the marker symbols.

S part (schedules): main.o, a.o, b.o (a and b both call f_m1) + libm.a (m1 -> m2 -> m3) under the
controlled scheduler, region `resolve`: every schedule within the deviation bound; per execution:
exit 0, output identical to the default schedule, every file `won` at most once."""
import itertools
import json
import os
import random
import sys
import time

sys.path.insert(0, os.path.join(os.path.dirname(os.path.abspath(__file__)), "..", "lib"))
import vlib
import wsched
import symfam
from progs import func_obj, graph_program

E = "nsw"
CONTAINERS = [("regular", 0), ("regular", 1), ("thin", 0), ("thin", 1), ("startlib", 0)]
POSITIONS = ["before", "after"]


# ------------------------------------------------------------------------------------- sources
def calls(targets):
    """targets: [(symbol, edge)] -> asm lines."""
    s = ""
    for sym, e in targets:
        if e == "w":
            s += "  .weak %s\n" % sym
        if e in "sw":
            s += "  call %s\n" % sym
    return s


def markval(i):
    """8 distinctive bytes ("\\0" + i, "30C_KRM" little-endian) so that a member can also be
    recognised in a stripped image."""
    return 0x4d524b5f43303300 + i


def member_src(i, targets, dup=False):
    s = ('.section .text.f_m%d,"ax",@progbits\n.globl f_m%d\n.type f_m%d,@function\nf_m%d:\n%s  ret\n'
         '.data\n.globl marker_m%d\nmarker_m%d: .quad %d\n' % (i, i, i, i, calls(targets), i, i,
                                                              markval(i)))
    if dup:
        s += ".globl dup\ndup: .quad %d\n" % (0xd000 + i)
    return s + '.section .note.GNU-stack,"",@progbits\n'


def main_src(targets, dupref=None):
    s = '.text\n.globl _start\n_start:\n%s  ret\n' % calls(targets)
    if dupref:
        s += ".data\n.globl dupslot\n%sdupslot: .quad dup\n" % (".weak dup\n" if dupref == "w" else "")
    return s + '.section .note.GNU-stack,"",@progbits\n'


P_SRC = ('.data\n.globl dup\ndup: .quad 0xd0ff\n.globl marker_p\nmarker_p: .quad 0x33ff\n'
         '.section .note.GNU-stack,"",@progbits\n')


def others(i, n):
    return [j for j in range(1, n + 1) if j != i]


def put(d, name, src):
    dst = os.path.join(d, name)
    if not os.path.exists(dst):
        cached = vlib.assemble(src)
        try:
            os.link(cached, dst)
        except OSError:
            import shutil
            shutil.copyfile(cached, dst)
    return name


def build_objects(d, n):
    """All main / member variants of the N-member family into d."""
    for code in itertools.product(E, repeat=n):
        put(d, "g%d_main_%s.o" % (n, "".join(code)),
            main_src([("f_m%d" % j, e) for j, e in zip(range(1, n + 1), code)]))
    for i in range(1, n + 1):
        for code in itertools.product(E, repeat=n - 1):
            put(d, "g%d_m%d_%s.o" % (n, i, "".join(code)),
                member_src(i, [("f_m%d" % j, e) for j, e in zip(others(i, n), code)]))


def member_files(n, mem):
    return ["g%d_m%d_%s.o" % (n, i, mem[i - 1]) for i in range(1, n + 1)]


def ar_task(item):
    d, kind, name, files = item
    if os.path.exists(os.path.join(d, name)):
        return 0
    tmp = "%s.%d.tmp" % (name, os.getpid())      # a killed ar must not leave a partial archive
    rc, _err = symfam.run_tool(["ar", "rcD" if kind == "regular" else "rcTD", tmp, *files], d)
    if rc == 0:
        os.replace(os.path.join(d, tmp), os.path.join(d, name))
    return rc


def archive_name(n, kind, mem):
    return "g%d_%s_%s.a" % (n, kind[0], "_".join(mem))


def container_args(n, kind, whole, mem):
    if kind == "startlib":
        return ["--start-lib", *member_files(n, mem), "--end-lib"]
    a = [archive_name(n, kind, mem)]
    return ["--whole-archive", *a, "--no-whole-archive"] if whole else a


def link_args(n, main, mem, pos, kind, whole):
    m = ["g%d_main_%s.o" % (n, main)]
    c = container_args(n, kind, whole, mem)
    return ["--no-gc-sections", *(c + m if pos == "before" else m + c)]


# ------------------------------------------------------------------------------------- the oracle
def fixpoint(n, main, mem, whole):
    """main: string of n edges; mem: tuple of n strings of n-1 edges. -> frozenset of loaded members."""
    loaded = set(range(1, n + 1)) if whole else set()
    work = [j for j, e in zip(range(1, n + 1), main) if e == "s"] + sorted(loaded)
    while work:
        i = work.pop()
        loaded.add(i)
        for j, e in zip(others(i, n), mem[i - 1]):
            if e == "s" and j not in loaded:
                work.append(j)
    return frozenset(loaded)


def is_nontrivial(n, main, mem, idx):
    """Proper non-empty loaded subset, or a weak edge from a loaded file to a member left out."""
    if 0 < len(idx) < n:
        return True
    if any(e == "w" and j not in idx for j, e in zip(range(1, n + 1), main)):
        return True
    return any(e == "w" and j not in idx for i in idx for j, e in zip(others(i, n), mem[i - 1]))


def graphs(n):
    for main in itertools.product(E, repeat=n):
        for mem in itertools.product(itertools.product(E, repeat=n - 1), repeat=n):
            yield "".join(main), tuple("".join(c) for c in mem)


def relabel(n, main, mem, perm):
    """perm[i-1] = new label of member i."""
    edge = {}
    for i in range(1, n + 1):
        edge[(0, perm[i - 1])] = main[i - 1]
        for j, e in zip(others(i, n), mem[i - 1]):
            edge[(perm[i - 1], perm[j - 1])] = e
    nm = "".join(edge[(0, i)] for i in range(1, n + 1))
    nmem = tuple("".join(edge[(i, j)] for j in others(i, n)) for i in range(1, n + 1))
    return nm, nmem


def canonical(n, main, mem):
    return min(relabel(n, main, mem, p) for p in itertools.permutations(range(1, n + 1)))


def markers_of(path, prefix="marker_"):
    return frozenset(symfam.defined_symbol_names(path, prefix))


# --------------------------------------------------------------------------------------- workers
def wild_task(item):
    d, root, batch = item
    outp = os.path.join(root, "w%d.out" % os.getpid())
    res = []
    for cid, argv in batch:
        try:
            os.unlink(outp)
        except OSError:
            pass
        rc, msg = symfam.server_link([*argv, "-o", outp], cwd=d)
        got = None
        if rc == 0:
            try:
                got = markers_of(outp)
            except Exception as ex:
                rc, msg = "unreadable", str(ex)
        res.append((cid, rc, got, msg[-200:] if rc != 0 else ""))
    kills, symfam.EXTERNAL_KILLS[0] = symfam.EXTERNAL_KILLS[0], 0
    return res, kills


def lld_task(item):
    d, root, batch = item
    outp = os.path.join(root, "l%d.out" % os.getpid())
    res = []
    for cid, argv in batch:
        try:
            os.unlink(outp)
        except OSError:
            pass
        rc, err = symfam.run_tool(["ld.lld", *argv, "-o", outp], d)
        res.append((cid, rc, markers_of(outp) if rc == 0 else None, err[-200:]))
    return res


def batches(items, n):
    return [items[i:i + n] for i in range(0, len(items), n)]


def mset(s):
    return "{" + ",".join(sorted(x.replace("marker_", "") for x in s)) + "}"


# ------------------------------------------------------------------------- chunk boundaries
def source_constants():
    """(MAX_SYMBOLS_PER_WORK_ITEM, MAX_FILES_PER_GROUP, where they came from)."""
    import re
    b, f, src = 5000, 256, []
    try:
        with open(os.path.join(vlib.REPO, "libwild/src/resolution.rs")) as fh:
            m = re.search(r"const MAX_SYMBOLS_PER_WORK_ITEM: usize = ([0-9_]+);", fh.read())
        if m:
            b = int(m.group(1).replace("_", ""))
            src.append("resolution.rs")
    except OSError:
        pass
    try:
        with open(os.path.join(vlib.REPO, "libwild/src/input_data.rs")) as fh:
            m = re.search(r"const FILE_INDEX_BITS: u32 = ([0-9]+);", fh.read())
        if m:
            f = 1 << int(m.group(1))
            src.append("input_data.rs")
    except OSError:
        pass
    return b, f, src


def big_main(targets, total):
    """Object defining _start whose symbol table has `total` entries and, at the symbol indexes
    given by targets {index: name}, non-weak undefined globals (each also called from .text).
    Filler: up to 1000 locals, then defined globals / weak undefined globals alternating."""
    import elfgen as eg
    import elfread
    o = eg.ElfObject()
    order = sorted(targets)
    code = b"\xe8\0\0\0\0" * len(order) + b"\xc3"
    text = o.section(".text", flags=eg.SHF_ALLOC | eg.SHF_EXECINSTR, align=16, data=code)
    bss = o.section(".bss", type=eg.SHT_NOBITS, flags=eg.SHF_ALLOC | eg.SHF_WRITE, align=8, size=8)
    nloc = max(0, min(1000, order[0] - 2))
    for j in range(nloc):
        o.symbol("loc_%d" % j, section=bss, bind=eg.STB_LOCAL, type=eg.STT_OBJECT)
    syms, have_start = {}, False
    for idx in range(nloc + 1, total):
        if idx in targets:
            syms[idx] = o.symbol(targets[idx])
        elif not have_start:
            o.symbol("_start", section=text, type=eg.STT_FUNC, size=len(code))
            have_start = True
        elif idx % 2:
            o.symbol("fill_d_%d" % idx, section=bss, type=eg.STT_OBJECT)
        else:
            o.symbol("fill_u_%d" % idx, bind=eg.STB_WEAK)
    for n, idx in enumerate(order):
        o.reloc(text, 5 * n + 1, 4, syms[idx], -4)          # R_X86_64_PLT32
    o.note_gnu_stack()
    data = o.to_bytes()
    table = elfread.Elf(data=data).symbols(".symtab")
    if len(table) != total:
        raise RuntimeError("big_main: %d symbols, wanted %d" % (len(table), total))
    for idx, name in targets.items():
        sym = table[idx]
        if (sym.name, sym.shndx, sym.bind) != (name, 0, elfread.STB_GLOBAL):
            raise RuntimeError("big_main: symbol %d is %r" % (idx, sym))
    return data


def big_cache_path(targets, total):
    return os.path.join(vlib.OBJCACHE, "c03big_%s.o" % vlib.sha(repr((sorted(targets.items()),
                                                                      total, 1)))[:20])


def chunk_build_job(job):
    """("big", dir, name, targets, total): the object, cached by content key in the object cache."""
    _tag, d, name, targets, total = job
    os.makedirs(vlib.OBJCACHE, exist_ok=True)
    cached = big_cache_path(targets, total)
    if not os.path.exists(cached):
        tmp = "%s.%d" % (cached, os.getpid())
        with open(tmp, "wb") as f:
            f.write(big_main(targets, total))
        os.replace(tmp, cached)
    dst = os.path.join(d, name)
    if not os.path.exists(dst):
        try:
            os.link(cached, dst)
        except OSError:
            import shutil
            shutil.copyfile(cached, dst)
    return 0


def rel_name(k, unit, letter):
    """Index k written relative to the piece size: 'B-1', '2B', '2B+1', or the number."""
    q, r = divmod(k + 1, unit)
    if q >= 1 and r <= 2:
        return "%s%s%s" % ("" if q == 1 else q, letter, ("-1", "", "+1")[r])
    return str(k)


def chunk_family(d, B, F):
    """Builds the inputs; returns [(case dict, argv)]."""
    cases = []
    total = 2 * B + 5
    mem = ("nn", "nn", "nn")
    for kind in ("regular", "thin"):
        ar_task((d, kind, archive_name(3, kind, mem), member_files(3, mem)))
    mains = []
    for k in (1, 2, B - 1, B, B + 1, 2 * B - 1, 2 * B, 2 * B + 1):
        for i in (1, 2, 3):
            mains.append(("big_k%d_m%d.o" % (k, i), {k: "f_m%d" % i}, rel_name(k, B, "B"), {i}))
    for b in (B, 2 * B):
        mains.append(("big_s%d.o" % b, {b - 1: "f_m1", b: "f_m2", b + 1: "f_m3"},
                      "straddle-" + rel_name(b, B, "B"), {1, 2, 3}))
    jobs = [("big", d, name, targets, total) for name, targets, _rel, _want in mains]
    for name, targets, rel, want in mains:
        for kind in ("regular", "thin", "startlib"):
            for pos in POSITIONS:
                c = container_args(3, kind, 0, mem)
                files = c + [name] if pos == "before" else [name] + c
                cases.append(({"family": "symchunk", "rel": rel, "main": name,
                               "targets": {str(k): v for k, v in targets.items()},
                               "symbols": total, "container": kind, "position": pos,
                               "want": sorted(want)}, files))
    # files per group
    nmem = F + 4
    for j in range(nmem):
        with open(os.path.join(d, "fz_%03d.o" % j), "wb") as f:
            f.write(symfam.provider_object([("fz_sym_%d" % j, "S", 0x7a7a0000 + j)]))
    layouts = [("m1@%s" % rel_name(j, F, "F"), {j: "g3_m1_nn.o"}, "g3_main_snn.o", {1})
               for j in (F - 2, F - 1, F, F + 1)]
    for j in (F - 2, F - 1):
        layouts.append(("chain@%s" % rel_name(j, F, "F"),
                        {j: "g3_m1_sn.o", j + 1: "g3_m2_ns.o", j + 2: "g3_m3_nn.o"},
                        "g3_main_snn.o", {1, 2, 3}))
    for n, (rel, at, main, want) in enumerate(layouts):
        members = [at.get(j, "fz_%03d.o" % j) for j in range(nmem)]
        for kind in ("regular", "thin", "startlib"):
            if kind == "startlib":
                c = ["--start-lib", *members, "--end-lib"]
            else:
                aname = "fg_%s_%d.a" % (kind[0], n)
                # 260-member archives: `ar` needs seconds of CPU for each (thin: ~8 s), so these
                # come from symfam's writer, which selftest_ar shows byte-identical to `ar rcD/rcTD`.
                blobs = []
                for m in members:
                    with open(os.path.join(d, m), "rb") as f:
                        blobs.append((m, f.read()))
                symfam.write_archive(os.path.join(d, aname), blobs, thin=(kind == "thin"))
                c = [aname]
            for pos in POSITIONS:
                files = c + [main] if pos == "before" else [main] + c
                cases.append(({"family": "filegroup", "rel": rel, "main": main,
                               "members_at": {str(k): v for k, v in at.items()},
                               "archive_members": nmem, "container": kind, "position": pos,
                               "want": sorted(want)}, files))
    fresh = [j for j in jobs if not os.path.exists(big_cache_path(j[3], j[4]))]
    if fresh and any(vlib.pmap(chunk_build_job, fresh, chunksize=1)):
        raise RuntimeError("building the chunk-boundary inputs failed")
    for j in jobs:
        chunk_build_job(j)
    out = []
    for case, files in cases:
        for threads in (1, 4):
            for strip in (0, 1):
                c = dict(case, threads=threads, strip=strip)
                out.append((c, ["--no-gc-sections", "--threads=%d" % threads,
                                *(["--strip-all"] if strip else []), *files]))
    return out


def image_members(path):
    """Members whose marker bytes occur in the file-backed part of a PT_LOAD segment."""
    import struct
    import elfread
    e = elfread.Elf(path)
    blob = b"\0".join(p.data for p in e.segments if p.p_type == elfread.PT_LOAD)
    return sorted(i for i in (1, 2, 3) if struct.pack("<Q", markval(i)) in blob)


def chunk_task(item):
    d, root, batch = item
    outp = os.path.join(root, "c%d.out" % os.getpid())
    res = []
    for cid, case, argv in batch:
        try:
            os.unlink(outp)
        except OSError:
            pass
        rc, msg = symfam.server_link([*argv, "-o", outp], cwd=d)
        img = syms = None
        if rc == 0:
            try:
                img = image_members(outp)
                if not case["strip"]:
                    syms = sorted(int(m[len("marker_m"):]) for m in markers_of(outp, "marker_m"))
            except Exception as ex:
                rc, msg = "unreadable", str(ex)
        res.append((cid, rc, img, syms, msg[-200:] if rc != 0 else ""))
    kills, symfam.EXTERNAL_KILLS[0] = symfam.EXTERNAL_KILLS[0], 0
    return res, kills


def chunk_part(chk, d, base):
    B, F, src = source_constants()
    fam = chunk_family(d, B, F)
    n = ext_kills = 0
    distinct = set()
    work = [(cid, case, argv) for cid, (case, argv) in enumerate(fam)]
    for res, kills in vlib.pmap(chunk_task, [(d, base, b) for b in batches(work, 12)], chunksize=1):
        ext_kills += kills
        for cid, rc, img, syms, msg in res:
            case, argv = fam[cid]
            n += 1
            distinct.add((case["family"], case["rel"], tuple(case["want"])))
            want = case["want"]
            if rc == 0 and img == want and (case["strip"] or syms == want):
                continue
            if rc != 0:
                cls = "failed"
            else:
                got = img if img != want else syms
                cls = "+".join(x for x, c_ in (("missing", set(want) - set(got)),
                                               ("extra", set(got) - set(want))) if c_)
            chk.violation("%s:%s:%s" % (case["family"], case["rel"], cls),
                          "%s %s container=%s position=%s threads=%d strip=%d: fixpoint %s, wild "
                          "rc=%s image=%s symtab=%s %s"
                          % (case["family"], case["rel"], case["container"], case["position"],
                             case["threads"], case["strip"], want, rc, img, syms,
                             msg.replace("\n", " ")),
                          {"kind": "chunk", "case": case,
                           "command": "wild " + " ".join(argv) + " -o out"})
    return {"links": n, "distinct_cases": len(distinct), "symbols_per_work_item": B,
            "files_per_group": F, "constants_read_from": src or ["defaults"],
            "external_kill_repeats": ext_kills,
            "sample": {"case": fam[len(fam) // 3][0],
                       "command": "wild " + " ".join(fam[len(fam) // 3][1]) + " -o out"}}


# -------------------------------------------------------------------------------- duplicate family
DUP_PAIRS = [("m1", "m2"), ("m1", "m3"), ("m2", "m3"), ("m1", "p"), ("m2", "p"), ("m3", "p")]


def dup_family(containers):
    for pair in DUP_PAIRS:
        for fedges in itertools.product("ns", repeat=3):
            for dupref in "sw":
                for pos in POSITIONS:
                    for kind in containers:
                        yield (pair, "".join(fedges), dupref, pos, kind)


def dup_build(d):
    for fe in itertools.product("ns", repeat=3):
        for dr in "sw":
            put(d, "dup_main_%s_%s.o" % ("".join(fe), dr),
                main_src([("f_m%d" % j, e) for j, e in zip((1, 2, 3), fe)], dupref=dr))
    for i in (1, 2, 3):
        put(d, "dup_m%d_d.o" % i, member_src(i, [], dup=True))
        put(d, "dup_m%d_n.o" % i, member_src(i, [], dup=False))
    put(d, "dup_p.o", P_SRC)


def dup_member_files(pair):
    return ["dup_m%d_%s.o" % (i, "d" if "m%d" % i in pair else "n") for i in (1, 2, 3)]


def dup_archive(kind, pair):
    return "dup_%s_%s.a" % (kind[0], "".join(pair))


def dup_args(member):
    pair, fe, dr, pos, kind = member
    m = ["dup_main_%s_%s.o" % (fe, dr)]
    c = (["--start-lib", *dup_member_files(pair), "--end-lib"] if kind == "startlib"
         else [dup_archive(kind, pair)])
    tail = ["dup_p.o"] if "p" in pair else []
    return ["--no-gc-sections", *(c + m if pos == "before" else m + c), *tail]


def dup_model(member):
    """-> ("ok", markers) or ("err",). First-definition rule (see module docstring)."""
    pair, fe, dr, pos, kind = member
    order = ["m1", "m2", "m3", "main"] if pos == "before" else ["main", "m1", "m2", "m3"]
    if "p" in pair:
        order.append("p")
    defines = {"f_m%d" % i: ["m%d" % i] for i in (1, 2, 3)}
    defines["dup"] = [f for f in order if f in pair]          # in command-line order
    refs = {"main": [("f_m%d" % i) for i, e in zip((1, 2, 3), fe) if e == "s"]
            + (["dup"] if dr == "s" else []), "m1": [], "m2": [], "m3": [], "p": []}
    loaded = {"main"} | ({"p"} if "p" in pair else set())
    work = list(loaded)
    while work:
        f = work.pop()
        for s in refs[f]:
            first = defines[s][0]
            if first not in loaded:
                loaded.add(first)
                work.append(first)
    if len([f for f in defines["dup"] if f in loaded]) >= 2:
        return ("err",)
    return ("ok", frozenset("marker_" + f for f in loaded if f != "main"))


def verdict(rc, markers):
    return ("ok", markers) if rc == 0 else ("err",) if rc == 1 else ("crash", str(rc))


def vtext(v):
    return v[0] if v[0] != "ok" else "ok" + mset(v[1])


# ---------------------------------------------------------------------------------- schedule part
def sched_oracle_factory(expect_sha, stats_path=None):
    def oracle(x):
        if stats_path:      # one line per execution: requests that won / lost the take race
            ev = [e for e in x.events if e[0] == "file_requested"]
            fd = os.open(stats_path, os.O_WRONLY | os.O_APPEND | os.O_CREAT, 0o644)
            os.write(fd, b"%d %d\n" % (sum(1 for e in ev if e[2] == 1),
                                       sum(1 for e in ev if e[2] == 0)))
            os.close(fd)
        if x.rc in (wsched.EXIT_DEADLOCK, wsched.EXIT_HORIZON):
            return [("nontermination", "exit=%s" % x.rc)]
        if x.rc != 0:
            return [("link-failed", "exit=%s %s" % (x.rc, x.stderr[-300:]))]
        v = []
        if x.out_sha != expect_sha:
            v.append(("output-differs", "sha=%s expected %s" % (x.out_sha, expect_sha)))
        won = {}
        for kind, a, b, _c, _t in x.events:
            if kind == "file_requested" and b == 1:
                won[a] = won.get(a, 0) + 1
        for f, k in won.items():
            if k > 1:
                v.append(("file-won-twice", "file id %d won %d times" % (f, k)))
        if not won:
            v.append(("no-file-requested-events", "trace has no file_requested event with won=1"))
        return v
    return oracle


SCHED_OBJS = [("main.o", func_obj("_start", ["fa", "fb"])),
              ("a.o", func_obj("fa", ["f_m1"])),
              ("b.o", func_obj("fb", ["f_m1"]))]
SCHED_MEMBERS = [("m1.o", func_obj("f_m1", ["f_m2"])), ("m2.o", func_obj("f_m2", ["f_m3"])),
                 ("m3.o", func_obj("f_m3", []))]


def sched_cfg(base):
    d = os.path.join(base, "sched_in")
    objs = graph_program(SCHED_OBJS, d)
    mpaths = graph_program(SCHED_MEMBERS, d)
    if not os.path.exists(os.path.join(d, "libm.a")):
        if symfam.run_tool(["ar", "rcD", "libm.a", *mpaths], d)[0] != 0:
            raise RuntimeError("ar failed")
    return dict(wild=vlib.WILD, cwd=d, regions="resolve", timeout=120,
                argv=["--no-fork", "--threads=16", "--no-gc-sections", *objs, "libm.a", "-o", "{out}"],
                env={"WILD_FILES_PER_GROUP": "1"})


def schedule_part(chk, base):
    cfg = sched_cfg(base)
    b0 = wsched.run_execution(cfg, [], os.path.join(base, "b0"))
    if b0.rc != 0 or not b0.decisions:
        chk.machinery("schedule baseline: rc=%s decisions=%d %s" % (b0.rc, len(b0.decisions),
                                                                    b0.stderr[-300:]))
    if not any(e[0] == "file_requested" for e in b0.events):
        chk.machinery("schedule baseline emits no file_requested events")
    _, same = wsched.replay_twice(cfg, [], os.path.join(base, "rt"))
    if not same:
        chk.machinery("default schedule does not replay identically")
    bound = 3 if chk.thorough else 2
    stats_path = os.path.join(base, "sched_stats")
    retries = 0
    while True:
        if os.path.exists(stats_path):
            os.unlink(stats_path)
        st = wsched.explore(cfg, bound, "deviation", sched_oracle_factory(b0.out_sha, stats_path),
                            time_cap=300 if chk.thorough else 35,
                            base=os.path.join(base, "x_sched"))
        # Seen once in ~8k executions on a machine with load average > 250: one replayed prefix
        # produced a different decision record. The exploration is repeated from scratch (twice at
        # most); a persistent divergence is a machinery error.
        if st["machinery"] and "divergence" in st["machinery"] and retries < 2:
            retries += 1
            continue
        break
    lost_execs = 0
    if os.path.exists(stats_path):
        with open(stats_path) as f:
            lost_execs = sum(1 for line in f if line.split()[1:] and int(line.split()[1]) > 0)
    if st["machinery"]:
        chk.machinery("schedule exploration: " + st["machinery"])
    if (st["n_event_sequences"] < 2 or lost_execs == 0) and not st["capped"]:
        chk.machinery("schedule exploration is vacuous (no execution in which a request loses "
                      "the take race)")
    seen = set()
    for vkey, what, prefix in st["violations"]:
        if vkey in seen:
            continue
        seen.add(vkey)
        _, same = wsched.replay_twice(cfg, prefix, os.path.join(base, "rt"))
        if not same:
            chk.machinery("violating schedule %s is not deterministic on replay" % prefix)
        chk.violation("schedule:%s" % vkey, what,
                      {"kind": "schedule", "schedule": prefix, "argv": cfg["argv"],
                       "env": cfg["env"], "objects": SCHED_OBJS, "members": SCHED_MEMBERS})
    return {"bound": bound, "model": "deviation", "capped": st["capped"],
            "executions": st["executions"], "states": st["n_states"],
            "transitions": st["n_transitions"], "distinct_outputs": len(st["outcomes"]),
            "distinct_event_sequences": st["n_event_sequences"],
            "max_decisions": st["max_decisions"], "wall_s": round(st["wall"], 1),
            "executions_with_a_lost_take_race": lost_execs,
            "explorations_repeated_after_replay_divergence": retries,
            "samples": st["samples"][:3],
            "baseline_events": [list(e[:3]) for e in b0.events if e[0] == "file_requested"]}


# ----------------------------------------------------------------------------------------- replay
def replay(chk, path):
    with open(path) as f:
        rp = json.load(f)["replay"]
    with vlib.scratch("c03r") as base:
        if rp["kind"] == "schedule":
            cfg = sched_cfg(base)
            b0 = wsched.run_execution(cfg, [], os.path.join(base, "b0"))
            x = wsched.run_execution(cfg, rp["schedule"], os.path.join(base, "r"))
            v = sched_oracle_factory(b0.out_sha)(x)
            print("schedule", rp["schedule"], "->", v or "no violation")
            sys.exit(vlib.EXIT_VIOLATION if v else vlib.EXIT_OK)
        d = os.path.join(base, "in")
        os.makedirs(d)
        outp = os.path.join(base, "out")
        if rp["kind"] == "chunk":
            build_objects(d, 3)
            B, F, _src = source_constants()
            hit = [(c, a) for c, a in chunk_family(d, B, F) if c == rp["case"]]
            if not hit:
                chk.machinery("replay: case not in the family (constants changed?)")
            case, argv = hit[0]
            (res, _k) = chunk_task((d, base, [(0, case, argv)]))
            _cid, rc, img, syms, msg = res[0]
            print("command :", "wild", " ".join(argv), "-o out")
            print("fixpoint:", case["want"])
            print("wild    : rc=%s image=%s symtab=%s %s" % (rc, img, syms, msg))
            bad = not (rc == 0 and img == case["want"] and (case["strip"] or syms == case["want"]))
            print("REPRODUCED" if bad else "not reproduced")
            sys.exit(vlib.EXIT_VIOLATION if bad else vlib.EXIT_OK)
        if rp["kind"] == "graph":
            n, main, mem = rp["n"], rp["main"], tuple(rp["members"])
            build_objects(d, n)
            kind, whole, pos = rp["container"], rp["whole_archive"], rp["position"]
            if kind != "startlib":
                ar_task((d, kind, archive_name(n, kind, mem), member_files(n, mem)))
            argv = link_args(n, main, mem, pos, kind, whole)
            want = ("ok", frozenset("marker_m%d" % i for i in fixpoint(n, main, mem, whole)))
        else:
            member = (tuple(rp["pair"]), rp["main_edges"], rp["dupref"], rp["position"],
                      rp["container"])
            dup_build(d)
            if member[4] != "startlib":
                ar_task((d, member[4], dup_archive(member[4], member[0]),
                         dup_member_files(member[0])))
            argv = dup_args(member)
            want = dup_model(member)
        rc, msg = symfam.server_link([*argv, "-o", outp], cwd=d)
        got = verdict(rc, markers_of(outp) if rc == 0 else None)
        lrc, _err = symfam.run_tool(["ld.lld", *argv, "-o", outp + ".lld"], d)
        lv = verdict(lrc, markers_of(outp + ".lld") if lrc == 0 else None)
    print("command :", "wild", " ".join(argv), "-o out")
    print("fixpoint:", vtext(want))
    print("ld.lld  :", vtext(lv))
    print("wild    :", vtext(got), msg.strip()[-200:])
    if got != want and lv == want:
        print("REPRODUCED")
        sys.exit(vlib.EXIT_VIOLATION)
    print("not reproduced")
    sys.exit(vlib.EXIT_OK)


# ------------------------------------------------------------------------------------------- main
def main():
    chk = vlib.Check("C03", "exploration")
    if not chk.args.no_build:
        vlib.build("wild")
    if chk.args.replay:
        replay(chk, chk.args.replay)
    t0 = time.time()
    cap = 900 if chk.thorough else 60           # wall cap of the P enumeration
    cov = {}
    with vlib.scratch("c03") as base:
        err = symfam.selftest_ar(os.path.join(base, "arself"))   # (also proves `ar` works here)
        if err:
            chk.machinery(err)
        d = os.path.join(base, "in")
        os.makedirs(d)
        # ---- schedules (first: a machinery problem there should not cost the long P part) ------
        sched = schedule_part(chk, base)
        t0 = time.time()
        # ---- families ---------------------------------------------------------------------------
        fam = []            # (n, main, mem, pos, kind, whole)
        g2 = list(graphs(2))
        g3_all = list(graphs(3))
        g3_canon = sorted({canonical(3, m, mm) for m, mm in g3_all})
        build_objects(d, 2)
        build_objects(d, 3)
        for main, mem in g2:
            for pos in POSITIONS:
                for kind, whole in CONTAINERS:
                    fam.append((2, main, mem, pos, kind, whole))
        if chk.thorough:
            for main, mem in g3_all:
                for pos in POSITIONS:
                    for kind, whole in CONTAINERS:
                        if not whole:
                            fam.append((3, main, mem, pos, kind, whole))
            # Under --whole-archive the expectation is "all three": canonical representatives only.
            for main, mem in g3_canon:
                for pos in POSITIONS:
                    for kind, whole in CONTAINERS:
                        if whole:
                            fam.append((3, main, mem, pos, kind, whole))
        else:
            for main, mem in g3_canon:
                for pos in POSITIONS:
                    fam.append((3, main, mem, pos, "startlib", 0))
        ars = sorted({(d, kind, archive_name(n, kind, mem), tuple(member_files(n, mem)))
                      for n, _m, mem, _p, kind, _w in fam if kind != "startlib"})
        if any(vlib.pmap(ar_task, ars)):
            chk.machinery("ar failed")
        t_build = time.time() - t0
        # ---- ld.lld as second oracle on a sub-family -------------------------------------------
        lsub = [(2, m, mm, pos, "regular", 0) for m, mm in g2
                for pos in (POSITIONS if chk.thorough else ["before"])]
        if chk.thorough:
            lsub += [(3, m, mm, "before", "regular", 0) for m, mm in g3_canon]
        lres = vlib.pmap(lld_task, [(d, base, b) for b in
                                    batches([(c, link_args(*c)) for c in lsub], 16)], chunksize=1)
        lld_disagree = set()
        lld_samples = []
        for res in lres:
            for c, rc, got, msg in res:
                want = frozenset("marker_m%d" % i for i in fixpoint(c[0], c[1], c[2], c[5]))
                if rc != 0 or got != want:
                    lld_disagree.add((c[0],) + canonical(c[0], c[1], c[2]))
                    if len(lld_samples) < 5:
                        lld_samples.append({"case": list(c), "lld_rc": rc,
                                            "lld": mset(got) if got is not None else msg,
                                            "fixpoint": mset(want)})
        t_lld = time.time() - t0 - t_build
        # ---- wild on the whole family ----------------------------------------------------------
        if chk.seed:
            random.Random(chk.seed).shuffle(fam)
        n_eval = n_excl = ext_kills = 0
        loaded_sets, nontrivial, capped = set(), set(), None
        tw = time.time()
        work = batches([(c, link_args(*c)) for c in fam], 128 if chk.thorough else 32)
        for res, kills in vlib.pmap_unordered(wild_task, [(d, base, b) for b in work]):
            ext_kills += kills
            for c, rc, got, msg in res:
                n, main, mem, pos, kind, whole = c
                if (n,) + canonical(n, main, mem) in lld_disagree:
                    n_excl += 1
                    continue
                n_eval += 1
                idx = fixpoint(n, main, mem, whole)
                want = frozenset("marker_m%d" % i for i in idx)
                loaded_sets.add((n, want))
                if is_nontrivial(n, main, mem, idx):
                    nontrivial.add((n, main, mem, whole))
                if rc == 0 and got == want:
                    continue
                cls = ("failed" if rc != 0 else
                       "+".join(x for x, c_ in (("missing", want - got), ("extra", got - want)) if c_))
                chk.violation("%s:%s:%s:%s" % (kind, "whole" if whole else "lazy", pos, cls),
                              "N=%d main=%s members=%s: fixpoint %s, wild rc=%s %s %s"
                              % (n, main, mem, mset(want), rc, mset(got) if got is not None else "",
                                 msg.replace("\n", " ")),
                              {"kind": "graph", "n": n, "main": main, "members": list(mem),
                               "position": pos, "container": kind, "whole_archive": whole,
                               "command": "wild " + " ".join(link_args(*c)) + " -o out"})
            if time.time() - tw > cap:
                capped = "time_cap=%ds after %d of %d links" % (cap, n_eval + n_excl, len(fam))
                break      # leaving the generator terminates the pool
        t_wild = time.time() - tw
        # ---- duplicate providers ---------------------------------------------------------------
        dup_build(d)
        dkinds = ["regular", "thin", "startlib"] if chk.thorough else ["regular"]
        dfam = list(dup_family(dkinds))
        dars = sorted({(d, k, dup_archive(k, pair), tuple(dup_member_files(pair)))
                       for pair, _f, _r, _p, k in dfam if k != "startlib"})
        if any(vlib.pmap(ar_task, dars)):
            chk.machinery("ar failed (dup family)")
        dl = {}
        for res in vlib.pmap(lld_task, [(d, base, b) for b in
                                        batches([(m, dup_args(m)) for m in dfam], 16)], chunksize=1):
            for m, rc, got, _msg in res:
                dl[m] = verdict(rc, got)
        dw = {}
        for res, kills in vlib.pmap(wild_task, [(d, base, b) for b in
                                                batches([(m, dup_args(m)) for m in dfam], 32)],
                                    chunksize=1):
            ext_kills += kills
            for m, rc, got, msg in res:
                dw[m] = (verdict(rc, got), msg)
        dup_eval = dup_excl = 0
        dup_excl_samples, dup_outcomes = [], {}
        for m in dfam:
            want = dup_model(m)
            if dl[m] != want:
                dup_excl += 1
                if len(dup_excl_samples) < 5:
                    dup_excl_samples.append({"member": list(m), "fixpoint": vtext(want),
                                             "lld": vtext(dl[m])})
                continue
            dup_eval += 1
            dup_outcomes[vtext(want)] = dup_outcomes.get(vtext(want), 0) + 1
            got, msg = dw[m]
            if got == want:
                continue
            pair, fe, dr, pos, kind = m
            chk.violation("dup:%s:%s:%s:expect=%s:got=%s"
                          % (kind, pos, "member+object" if "p" in pair else "member+member",
                             want[0], got[0] if got[0] != "ok" or want[0] != "ok" else
                             "+".join(x for x, c_ in (("missing", want[1] - got[1]),
                                                      ("extra", got[1] - want[1])) if c_)),
                          "dup in %s, main f-edges %s, dup ref %s: first-definition fixpoint and "
                          "ld.lld say %s, wild %s %s" % (pair, fe, dr, vtext(want), vtext(got),
                                                        msg.replace("\n", " ")),
                          {"kind": "dup", "pair": list(pair), "main_edges": fe, "dupref": dr,
                           "position": pos, "container": kind,
                           "command": "wild " + " ".join(dup_args(m)) + " -o out"})
        t_dup = time.time() - tw - t_wild
        # ---- chunk boundaries ------------------------------------------------------------------
        tc = time.time()
        chunk = chunk_part(chk, d, base)
        t_chunk = time.time() - tc
    chk.coverage = {
        "evaluations": n_eval + dup_eval + chunk["links"] + sched["executions"],
        "distinct_nontrivial": len(nontrivial) + len(dup_outcomes) + chunk["distinct_cases"],
        "rule": "P: every reference graph (edges n/s/w) over main.o + N members x position x "
                "container x lazy/whole-archive as listed in family_rule; a graph is non-trivial "
                "when the expected loaded set is a proper non-empty subset of the members or a "
                "weak edge points at a member that stays out; counted as distinct (N, graph, "
                "whole) triples; plus distinct expected outcomes of the duplicate-provider family",
        "family_rule": ("thorough: N=2 (81 graphs) x 2 positions x ({regular, thin} x {lazy, whole} "
                        "+ start-lib lazy); N=3: all 19,683 graphs x 2 positions x {regular, thin, "
                        "start-lib} lazy, and the %d canonical representatives under member "
                        "relabelling x 2 positions x {regular, thin} --whole-archive"
                        % len(g3_canon)
                        if chk.thorough else
                        "quick: N=2 (81 graphs) x 2 positions x {regular, thin} x {lazy, whole} + "
                        "start-lib lazy; N=3 canonical representatives under member relabelling "
                        "(%d graphs) x 2 positions x start-lib lazy" % len(g3_canon)),
        "graph_links": n_eval, "graph_links_excluded_lld_disagrees": n_excl,
        "graphs_n3_total": len(g3_all), "graphs_n3_canonical": len(g3_canon),
        "distinct_expected_loaded_sets": len(loaded_sets),
        "archives_built_with_ar": len(ars) + len(dars),
        "links_repeated_after_external_kill_of_the_server": ext_kills,
        "lld_links": len(lsub) + len(dfam), "lld_second_oracle_graph_members": len(lsub),
        "lld_disagreeing_graphs": len(lld_disagree), "lld_disagreement_samples": lld_samples,
        "chunk_boundary_links": chunk["links"], "chunk_boundaries": chunk,
        "dup_members": len(dfam), "dup_evaluated": dup_eval,
        "dup_excluded_lld_differs_from_first_definition_fixpoint": dup_excl,
        "dup_exclusion_samples": dup_excl_samples, "dup_expected_outcomes": dup_outcomes,
        "schedule_executions": sched["executions"], "states": sched["states"],
        "transitions": sched["transitions"], "schedule": sched,
        "capped": capped or sched["capped"],
        "exhaustive": capped is None and sched["capped"] is None,
        "phase_wall_s": {"build": round(t_build, 1), "lld_graphs": round(t_lld, 1),
                         "wild_graphs": round(t_wild, 1), "dup": round(t_dup, 1), "chunk_boundaries": round(t_chunk, 1),
                         "schedules": sched["wall_s"]},
        "samples": [
            {"kind": "graph", "n": 3, "main": "swn", "members": ["ns", "wn", "nn"],
             "position": "before", "container": "thin", "whole_archive": 0,
             "expected_loaded": sorted(fixpoint(3, "swn", ("ns", "wn", "nn"), 0)),
             "command": "wild " + " ".join(link_args(3, "swn", ("ns", "wn", "nn"), "before",
                                                     "thin", 0)) + " -o out"},
            {"kind": "dup", "member": list(dfam[len(dfam) // 2]),
             "expected": vtext(dup_model(dfam[len(dfam) // 2])),
             "command": "wild " + " ".join(dup_args(dfam[len(dfam) // 2])) + " -o out"},
            {"kind": "schedule", **(sched["samples"][-1] if sched["samples"] else {})}],
    }
    chk.assumptions = [
        "every link uses --no-gc-sections, so a member is in the link iff its marker symbol is in "
        "the output .symtab",
        "--whole-archive around --start-lib/--end-lib is outside the family (statement silent; lld "
        "keeps such objects lazy, wild loads all of them)",
        "duplicate providers: a non-weak reference loads the file holding the first definition in "
        "command-line order; judged only where ld.lld 14 gives the same status and member set",
        "schedules: sequentially consistent interleavings of the `resolve` region tasks only",
    ]
    chk.finish()


if __name__ == "__main__":
    main()
