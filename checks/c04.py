#!/usr/bin/env python3
"""C04 - Output ELF files are structurally well-formed.

Family (bounded-exhaustive): section-shape programs. One relocatable object (written with elfgen, no
subprocess) per (subset, variant): every subset of 9 section kinds
    .text  .rodata  .data  .bss  .tdata  .tbss  .init_array  .data.rel.ro  custom
(custom = `foo` or `.bar` with flags a / aw / ax), each present kind with an alignment from
{1, 8, 4096, 65536} and a size from {0, 1, 4097} chosen by a fixed covering rule (below), linked by
the real wild (in-process server, --no-gc-sections so that every section is rooted) as every
output kind
    static non-PIE, static-PIE, PIE (dynamic), dynamic non-PIE, -shared, -r
under option rows over  -z max-page-size {4096, 65536}  x  --section-start on one section
x  -z relro / -z norelro  x  a minimal SECTIONS script.  The subset x output-kind axes are always
exhaustive; what is thinned is stated in `coverage.rule`:
  quick     x86-64; 4 variants per subset with no options + one row of the pairwise option array
            on variant 0 (row chosen by (subset + variant) mod 5)               ~15k links
  thorough  x86-64: 5 variants with no options + all 7 pairwise rows on variants 0 and 1;
            AArch64 (-m aarch64linux): 2 variants, pairwise rows on variant 0      ~60k links
`-r` takes only the script axis. TLS sections are never the --section-start target when both are
present (they must stay adjacent); the custom section is the target whenever it is present,
because wild honours --section-start only for sections that are not built in.

Covering rule for (alignment, size): the 12 combinations are numbered c = 3*ai + si; kind k of the
subset with bit mask m in variant v gets c = (H(m, k) + 5 v) mod 12 with H a fixed arithmetic
mixing function, the custom kind's (name, flags) flavour is (H(m, 9) + v) mod 6, and
--section-start goes to candidate number (H(m, 10) + v) mod |candidates| at 0x600000 for even v and
0x600008 for odd v. Coverage of (kind, combination) and of pairs of them is measured and reported.

Oracle: lib/wellformed.py (transcribed from the gABI; reads only the output file). In every run
  * the monitor is self-tested: 14 single-field corruptions of a GNU ld output must each draw the
    expected rule;
  * it is calibrated against GNU ld and ld.lld outputs of the same members (quick: every 4th
    subset; thorough: GNU ld on every subset of variant 0, lld on every 16th): a rule that a
    reference linker's own output violates is a machinery error, not a verdict. Two documented
    exceptions: lld 14's over-long PT_PHDR (TOLERATED), and `relro-exact` under the SECTIONS
    script, where the reference linkers leave separating RELRO from data to the script's author -
    that rule is then not judged for wild either (counted);
  * x86-64 static / static-PIE members whose .text holds the exit sequence are run natively;
  * thorough: binutils readelf must dump every default-row output of variant 0 without a warning
    and GNU ld / lld must accept wild's shared objects as link inputs (a complaint that the
    reference linker's output of the same member draws as well is discounted).
Violation keys: <monitor rule>:<exe|r>[+script].
"""
import itertools
import json
import os
import subprocess
import sys
import time

sys.path.insert(0, os.path.join(os.path.dirname(os.path.abspath(__file__)), "..", "lib"))
import vlib
import wildrun
import elfgen as g
import elfread
from wellformed import check_wellformed

W, A, X, T = g.SHF_WRITE, g.SHF_ALLOC, g.SHF_EXECINSTR, g.SHF_TLS
KINDS = [  # (name, sh_type, flags)
    (".text", g.SHT_PROGBITS, A | X),
    (".rodata", g.SHT_PROGBITS, A),
    (".data", g.SHT_PROGBITS, A | W),
    (".bss", g.SHT_NOBITS, A | W),
    (".tdata", g.SHT_PROGBITS, A | W | T),
    (".tbss", g.SHT_NOBITS, A | W | T),
    (".init_array", g.SHT_INIT_ARRAY, A | W),
    (".data.rel.ro", g.SHT_PROGBITS, A | W),
    ("custom", g.SHT_PROGBITS, None),
]
CUSTOM = [(n, f) for n in ("foo", ".bar") for f in (A, A | W, A | X)]
ALIGNS = [1, 8, 4096, 65536]
SIZES = [0, 1, 4097]
NK = len(KINDS)
# Far enough above every image of the family (non-PIE base 0x400000 + < 1 MiB), near enough that a
# linker which fills the gap in the file produces a few MiB, not gigabytes.
SECSTART_ADDR = 0x600000
OUTPUT_KINDS = ["static", "static-pie", "pie", "dyn", "shared", "r"]
INTERP = {"x86_64": "/lib64/ld-linux-x86-64.so.2", "aarch64": "/lib/ld-linux-aarch64.so.1"}
EXIT_CODE = {"x86_64": bytes.fromhex("b83c00000031ff0f05"),
             "aarch64": bytes.fromhex("a80b80d2000080d2010000d4")}
SCRIPT = """SECTIONS {
  .rodata : { *(.rodata) }
  .text : { *(.text) }
  . = ALIGN(65536);
  .tdata : { *(.tdata) }
  .tbss : { *(.tbss) }
  .init_array : { KEEP(*(.init_array)) }
  .data.rel.ro : { *(.data.rel.ro) }
  . = ALIGN(65536);
  .data : { *(.data) }
  .bss : { *(.bss) }
}
"""
# Option rows: (max-page-size, section-start?, relro, script?). Row 0 = no options at all. Rows
# 1..5 are a strength-2 covering array of the four binary axes (every pair of values of every two
# axes occurs); FULL is the complete product.
DEFAULT_ROW = (None, False, None, False)
PAIRWISE = [(4096, False, "relro", False), (4096, True, "norelro", True),
            (65536, False, "norelro", True), (65536, True, "relro", True),
            (65536, True, "norelro", False),
            # --section-start with a page size BELOW the largest section alignment of the family
            # (65536) and no script: sections that follow the located one in its segment then need
            # a file offset congruent to their address modulo more than the page size.
            (4096, True, "relro", False), (None, True, None, False)]
FULL = list(itertools.product((4096, 65536), (False, True), ("relro", "norelro"), (False, True)))


def H(m, k):
    """Fixed arithmetic mixing function (no randomness: the same member set on every run)."""
    x = (m * 2654435761 + k * 40503 + 12345) & 0xffffffff
    x ^= x >> 15
    x = (x * 2246822519) & 0xffffffff
    x ^= x >> 13
    return x


def shape(m, v):
    """-> list of (kind index, section name, sh_type, flags, align, size) for subset m, variant v."""
    out = []
    for k in range(NK):
        if not m >> k & 1:
            continue
        name, ty, fl = KINDS[k]
        if k == NK - 1:
            name, fl = CUSTOM[(H(m, 9) + v) % 6]
        c = (H(m, k) + 5 * v) % 12
        out.append((k, name, ty, fl, ALIGNS[c // 3], SIZES[c % 3]))
    return out


def section_start(m, v):
    sh = shape(m, v)
    if not sh:
        return None
    # TLS sections must stay adjacent (GNU ld rejects the link otherwise): when both are present
    # neither is a candidate. wild honours --section-start only for sections that are not built
    # in, so the custom section is the target whenever it is present.
    both_tls = m >> 4 & 3 == 3
    cand = [s for s in sh if not (both_tls and s[0] in (4, 5))]
    if not cand:
        return None
    if cand[-1][0] == NK - 1:
        cand = cand[-1:]
    _k, name, _ty, _fl, _al, _sz = cand[(H(m, 10) + v) % len(cand)]
    return name, SECSTART_ADDR + (8 if v & 1 else 0)


def make_object(arch, m, v):
    o = g.ElfObject(arch)
    for k, name, ty, fl, al, sz in shape(m, v):
        if k == 0:
            code = EXIT_CODE[arch]
            data = (code + b"\xcc" * sz)[:sz] if sz >= len(code) else (b"\xc3" * sz)
        else:
            data = bytes([0x11 * (k + 1) & 0xff]) * sz
        s = o.section(name, type=ty, flags=fl, align=al,
                      data=b"" if ty == g.SHT_NOBITS else data,
                      size=sz if ty == g.SHT_NOBITS else None,
                      entsize=8 if ty == g.SHT_INIT_ARRAY else 0)
        if k == 0:
            o.symbol("_start", section=s, type=g.STT_FUNC, size=sz)
        o.symbol("sym_%d" % k, section=s, size=sz,
                 type=g.STT_TLS if fl & T else (g.STT_FUNC if fl & X else g.STT_OBJECT))
    o.note_gnu_stack()
    return o.to_bytes()


def link_argv(arch, kind, row, m, v, obj, out, linker="wild"):
    """Command line (without the program name) for one member."""
    maxpage, secstart, relro, script = row
    a = []
    if arch == "x86_64":
        a += ["-m", "elf_x86_64"] if linker == "ld" else []
    else:
        a += ["-m", "aarch64linux"]
    if kind == "static-pie":
        a += ["-static", "-pie"] + (["--no-dynamic-linker"] if linker == "ld" else [])
    elif kind == "pie":
        a += ["-pie", "--dynamic-linker=" + INTERP[arch]]
    elif kind == "dyn":
        a += ["--dynamic-linker=" + INTERP[arch]]
    elif kind == "shared":
        a += ["-shared"]
    elif kind == "r":
        a += ["-r"]
    if kind != "r":
        a += ["--no-gc-sections"]
        if maxpage:
            a += ["-z", "max-page-size=%d" % maxpage]
        if relro:
            a += ["-z", relro]
        if secstart:
            ss = section_start(m, v)
            if ss:
                a += ["--section-start=%s=%#x" % ss]
    if script:
        a += ["-T", "s.ld"]
    a += [obj]
    if kind in ("pie", "dyn"):
        a += ["libdummy_%s.so" % arch]
    a += ["-o", out]
    return a


def rows_for(kind, rows):
    """-r takes no layout options: only the script axis applies to it."""
    if kind != "r":
        return rows
    seen, out = set(), []
    for r in rows:
        rr = (None, False, None, r[3])
        if rr not in seen:
            seen.add(rr)
            out.append(rr)
    return out


def make_dummy_so(base, arch):
    """A tiny shared object for the dynamically linked kinds, written with the reference linker
    (one subprocess per architecture per run)."""
    o = g.ElfObject(arch)
    s = o.section(".text", flags=A | X, align=4, data=b"\xc3\xc3\xc3\xc3" if arch == "x86_64"
                  else bytes.fromhex("c0035fd6"))
    o.symbol("dummy_fn", section=s, type=g.STT_FUNC, size=4)
    o.note_gnu_stack()
    p = os.path.join(base, "dummy_%s.o" % arch)
    o.write(p)
    so = os.path.join(base, "libdummy_%s.so" % arch)
    r = subprocess.run(["ld.lld", "-shared", "-soname", "libdummy_%s.so" % arch, p, "-o", so],
                       stdout=subprocess.PIPE, stderr=subprocess.PIPE)
    if r.returncode != 0:
        raise RuntimeError("cannot build dummy shared object: " + r.stderr.decode())


G = {}


def _wdir():
    d = os.path.join(G["base"], "w%d" % os.getpid())
    if not os.path.isdir(d):
        os.makedirs(d, exist_ok=True)
        for arch in G["arches"]:
            os.symlink(os.path.join(G["base"], "libdummy_%s.so" % arch),
                       os.path.join(d, "libdummy_%s.so" % arch))
        with open(os.path.join(d, "s.ld"), "w") as f:
            f.write(SCRIPT)
    return d


def classify(msgs):
    """Distinct violation keys of one output (monitor key, first ':'-suffix kept)."""
    return sorted({k for k, _ in msgs})


def job(item):
    """One (arch, m, v): build the object once, link every requested (kind, row) with wild and
    with the requested reference linkers. Returns a list of result tuples."""
    arch, m, v, plan = item
    d = _wdir()
    obj = "m.o"
    with open(os.path.join(d, obj), "wb") as f:
        f.write(make_object(arch, m, v))
    res = []
    for kind, row, refs, native in plan:
        out = os.path.join(d, "out")
        try:
            os.unlink(out)
        except OSError:
            pass
        argv = link_argv(arch, kind, row, m, v, obj, "out")
        rc, msg = wildrun.server_link(argv, cwd=d)
        if rc == "timeout":      # a loaded machine, or a hang: one retry with a long limit decides
            rc, msg = wildrun.server_link(argv, cwd=d, timeout=600)
        keys, nsec, nload, nat, cons, ncons = [], 0, 0, None, [], 0
        if rc == 0:
            try:
                e = elfread.Elf(out)
                nsec, nload = len(e.sections), sum(1 for p in e.segments if p.p_type == 1)
                keys = check_wellformed(e)
            except elfread.ElfError as ex:
                keys = [("ehdr-parse", str(ex))]
            if refs and row == DEFAULT_ROW and G.get("consumers"):
                cons = consumers(d, "out", arch, kind)
                ncons += 1 + (kind == "shared")
            if native and not any(k.startswith("ehdr") for k, _ in keys):
                os.chmod(out, 0o755)
                r = vlib.run([out], timeout=30)
                if r[0] == "timeout":           # loaded machine: one retry decides
                    r = vlib.run([out], timeout=300)
                nat = r[0]
        refres = []
        for ref in refs:
            rout = os.path.join(d, "ref")
            try:
                os.unlink(rout)
            except OSError:
                pass
            rargv = link_argv(arch, kind, row, m, v, obj, "ref", linker=ref)
            p = subprocess.run([{"ld": "ld", "lld": "ld.lld"}[ref], *rargv], cwd=d,
                               stdin=subprocess.DEVNULL, stdout=subprocess.PIPE,
                               stderr=subprocess.PIPE)
            rk = check_wellformed(rout) if p.returncode == 0 else []
            if p.returncode == 0 and cons:
                # only needed to discount a complaint that the reference output draws as well
                rk = rk + consumers(d, "ref", arch, kind)
                ncons += 1 + (kind == "shared")
            refres.append((ref, p.returncode, rk, p.stderr.decode("utf-8", "replace")[-300:]))
        if cons:
            # a consumer complaint that the reference linker's output of the same member also
            # draws says nothing about wild
            refkeys = {k for _r, _rc, rk, _e in refres for k, _ in rk}
            keys = keys + [c for c in cons if c[0] not in refkeys]
        res.append((arch, m, v, kind, row, rc, msg[-400:], keys, nsec, nload, nat, refres, ncons))
    return res


def consumers(d, path, arch, kind):
    """What two independent consumers say about an output: binutils readelf (warnings / errors on
    stderr while dumping headers, sections, segments, symbols, dynamic section) and, for a shared
    object, GNU ld / lld linking against it. -> list of (key, text)."""
    out = []
    p = subprocess.run(["readelf", "-hlSsdW", path], cwd=d, stdin=subprocess.DEVNULL,
                       stdout=subprocess.PIPE, stderr=subprocess.PIPE)
    err = [l for l in p.stderr.decode("utf-8", "replace").splitlines() if l.strip()]
    if p.returncode != 0 or err:
        out.append(("consumer:readelf", "readelf -hlSsdW rc=%d: %s" % (p.returncode,
                                                                      " | ".join(err)[:300])))
    if kind == "shared":
        user = "dummy_%s.o" % arch
        cmd = ["ld", "-m", "elf_x86_64"] if arch == "x86_64" else ["ld.lld", "-m", "aarch64linux"]
        p = subprocess.run(cmd + ["-shared", os.path.join(G["base"], user), path, "-o",
                                  "consumer.out"], cwd=d, stdin=subprocess.DEVNULL,
                           stdout=subprocess.PIPE, stderr=subprocess.PIPE)
        if p.returncode != 0:
            out.append(("consumer:link-against", "%s rc=%d: %s" % (
                cmd[0], p.returncode, p.stderr.decode("utf-8", "replace").strip()[-300:])))
    return out


def describe(arch, m, v, kind, row):
    return {"arch": arch, "subset_mask": m, "variant": v, "kind": kind,
            "options": {"max-page-size": row[0], "section-start": section_start(m, v)
                        if row[1] else None, "relro": row[2], "script": bool(row[3])},
            "sections": [{"name": n, "flags": fl, "align": al, "size": sz}
                         for _k, n, _ty, fl, al, sz in shape(m, v)]}


def replay(path):
    """Re-run exactly the recorded member (inputs regenerated from the recorded subset / variant),
    as a real wild subprocess; print the monitor's findings and what GNU ld / lld give for it."""
    with open(path) as fh:
        rec = json.load(fh)
    rep = rec["replay"]
    arch, m, v, kind, row = rep["arch"], rep["subset_mask"], rep["variant"], rep["kind"], \
        tuple(rep["row"])
    keep = os.path.join("/dev/shm", "c04-replay")
    os.makedirs(keep, exist_ok=True)
    G["base"], G["arches"] = keep, [arch]
    make_dummy_so(keep, arch)
    with open(os.path.join(keep, "m.o"), "wb") as f:
        f.write(make_object(arch, m, v))
    with open(os.path.join(keep, "s.ld"), "w") as f:
        f.write(SCRIPT)
    argv = link_argv(arch, kind, row, m, v, "m.o", "out")
    print("cd %s && %s %s" % (keep, vlib.WILD, " ".join(argv)))
    rc, _o, err = wildrun.link_subprocess(argv, cwd=keep)
    print("wild rc=%s %s" % (rc, err.decode("utf-8", "replace").strip()[:400]))
    bad = False
    want = rec["key"].rsplit(":", 1)[0]
    if rc == 0:
        for k, msg in check_wellformed(os.path.join(keep, "out")):
            print("  %s%s: %s" % ("* " if k == want else "  ", k, msg))
            bad = bad or k == want
        if want.startswith("consumer"):
            for k, msg in consumers(keep, "out", arch, kind):
                print("  * %s: %s" % (k, msg))
                bad = bad or k == want
        if want.startswith("native-run"):
            os.chmod(os.path.join(keep, "out"), 0o755)
            r = vlib.run([os.path.join(keep, "out")], timeout=10)
            print("  native run: exit %r" % (r[0],))
            bad = bad or r[0] != 0
    for ref in (["ld", "lld"] if arch == "x86_64" else ["lld"]):
        rargv = link_argv(arch, kind, row, m, v, "m.o", "ref." + ref, linker=ref)
        p = subprocess.run([{"ld": "ld", "lld": "ld.lld"}[ref], *rargv], cwd=keep,
                           stdout=subprocess.PIPE, stderr=subprocess.PIPE)
        print("%s rc=%d monitor=%s" % (ref, p.returncode, classify(
            check_wellformed(os.path.join(keep, "ref." + ref))) if p.returncode == 0 else "-"))
    crashed = rc not in (0, 1, 255)        # 101 = panic, negative = signal
    print("REPRODUCED" if bad or crashed else "not reproduced")
    return 1 if bad or crashed else 0


def monitor_selftest(base):
    """Sensitivity of the monitor: one GNU ld output (PIE with interpreter, TLS, RELRO) is corrupted
    in 14 ways, one header field each; every corruption must draw the expected rule. -> (n,
    missed list)."""
    o = g.ElfObject("x86_64")
    for name, ty, fl, al, sz in ((".text", g.SHT_PROGBITS, A | X, 16, 32),
                                 (".rodata", g.SHT_PROGBITS, A, 8, 24),
                                 (".data", g.SHT_PROGBITS, A | W, 8, 40),
                                 (".bss", g.SHT_NOBITS, A | W, 8, 64),
                                 (".tdata", g.SHT_PROGBITS, A | W | T, 8, 16),
                                 (".tbss", g.SHT_NOBITS, A | W | T, 8, 16),
                                 (".init_array", g.SHT_INIT_ARRAY, A | W, 8, 8),
                                 (".data.rel.ro", g.SHT_PROGBITS, A | W, 8, 24)):
        sec = o.section(name, type=ty, flags=fl, align=al,
                        data=b"" if ty == g.SHT_NOBITS else b"\x5a" * sz,
                        size=sz if ty == g.SHT_NOBITS else None)
        if name == ".text":
            o.symbol("_start", section=sec, type=g.STT_FUNC)
    o.note_gnu_stack()
    o.write(os.path.join(base, "self.o"))
    p = subprocess.run(["ld", "-m", "elf_x86_64", "-pie", "--dynamic-linker=" + INTERP["x86_64"],
                        "-z", "relro", "--no-gc-sections", "self.o", "libdummy_x86_64.so", "-o",
                        "self.out"], cwd=base, stdout=subprocess.PIPE, stderr=subprocess.PIPE)
    if p.returncode != 0:
        return 0, ["GNU ld failed: " + p.stderr.decode()[-200:]]
    good = open(os.path.join(base, "self.out"), "rb").read()
    if check_wellformed(elfread.Elf(data=good)):
        return 0, ["pristine output flagged: %r" % check_wellformed(elfread.Elf(data=good))]
    e = elfread.Elf(data=good)

    def ph(i, field):
        return e.e_phoff + 56 * i + {"p_type": 0, "p_flags": 4, "p_offset": 8, "p_vaddr": 16,
                                      "p_filesz": 32, "p_memsz": 40, "p_align": 48}[field]

    def sh(name, field):
        return e.e_shoff + 64 * e.section(name).index + {"sh_flags": 8, "sh_addr": 16,
                                                         "sh_offset": 24, "sh_size": 32}[field]

    def seg(ptype, pred=lambda p: True):
        return next(p for p in e.segments if p.p_type == ptype and pred(p))

    def add(buf, off, delta, size=8):
        v = int.from_bytes(buf[off:off + size], "little") + delta
        buf[off:off + size] = (v % (1 << 8 * size)).to_bytes(size, "little")

    text = seg(1, lambda p: p.p_flags & 1)
    data = seg(1, lambda p: p.p_flags & 2)
    loads = [p for p in e.segments if p.p_type == 1]
    cases = []

    def case(rule, fn):
        buf = bytearray(good)
        fn(buf)
        cases.append((rule, bytes(buf)))

    case("load-congruent", lambda b: add(b, ph(text.index, "p_offset"), 8))
    case("load-wx", lambda b: add(b, ph(text.index, "p_flags"), 2, 4))
    case("sec-perm", lambda b: add(b, ph(text.index, "p_flags"), -1, 4))

    def swap(b):
        i, j = loads[0].index, loads[1].index
        x, y = bytes(b[ph(i, "p_type"):ph(i, "p_type") + 56]), bytes(b[ph(j, "p_type"):ph(j, "p_type") + 56])
        b[ph(i, "p_type"):ph(i, "p_type") + 56], b[ph(j, "p_type"):ph(j, "p_type") + 56] = y, x
    case("load-order", swap)
    case("sec-align", lambda b: add(b, sh(".data", "sh_addr"), 4))
    case("addr-overlap", lambda b: add(b, sh(".bss", "sh_addr"), -8))
    case("file-overlap", lambda b: add(b, sh(".data", "sh_offset"), -8))
    case("sec-in-load", lambda b: add(b, ph(data.index, "p_memsz"), -32))
    case("tls-memsz", lambda b: add(b, ph(seg(7).index, "p_memsz"), -1))
    case("relro-exact", lambda b: add(b, ph(seg(0x6474e552).index, "p_memsz"), 0x1000))
    case("relro-cover", lambda b: add(b, ph(seg(0x6474e552).index, "p_vaddr"), 0x1000))
    case("dynamic", lambda b: add(b, ph(seg(2).index, "p_filesz"), -16))
    case("interp", lambda b: add(b, ph(seg(3).index, "p_offset"), 1))
    case("phdr-extent", lambda b: add(b, ph(seg(6).index, "p_filesz"), 56))
    missed = []
    for rule, blob in cases:
        got = {k.split(":")[0] for k, _ in check_wellformed(elfread.Elf(data=blob))}
        if rule not in got:
            missed.append("%s (monitor said %s)" % (rule, sorted(got)))
    return len(cases), missed


def main():
    chk = vlib.Check("C04", "exploration")
    if chk.args.replay:
        sys.exit(replay(chk.args.replay))
    if not chk.args.no_build:
        vlib.build("wild")
    thorough = chk.thorough
    arches = ["x86_64", "aarch64"] if thorough else ["x86_64"]
    nvar = {"x86_64": 5 if thorough else 4, "aarch64": 2}
    G["arches"] = arches
    G["consumers"] = thorough
    t0 = time.time()
    items = []
    n_ref_planned = 0
    step = int(os.environ.get("VERIF_C04_DEBUG_STEP", "1"))   # debugging aid; never exhaustive
    for arch in arches:
        for m in range(0, 1 << NK, step):
            for v in range(nvar[arch]):
                plan = []
                for kind in OUTPUT_KINDS:
                    if thorough:
                        # default row for every variant; the pairwise option rows on two variants
                        rows = [DEFAULT_ROW] + (PAIRWISE if v < (2 if arch == "x86_64" else 1)
                                                else [])
                    else:
                        rows = [DEFAULT_ROW] + ([PAIRWISE[(m + v) % len(PAIRWISE)]] if v == 0 else [])
                    for row in rows_for(kind, rows):
                        refs = []
                        if thorough:
                            # calibration: GNU ld on variant 0 (x86-64), lld on every 16th subset
                            # (option rows: every 4th subset)
                            if v == 0 and arch == "x86_64" and (row == DEFAULT_ROW or m % 4 == 1):
                                refs.append("ld")
                            if v == 0 and m % 16 == (3 if arch == "x86_64" else 5):
                                refs.append("lld")
                        elif v == 0 and row == DEFAULT_ROW and m % 4 == 1:
                            refs.append("ld")
                            if m % 32 == 1:
                                refs.append("lld")
                        native = arch == "x86_64" and kind in ("static", "static-pie") and \
                            not row[3] and (thorough or (v == 1 and row == DEFAULT_ROW)) and \
                            any(k == 0 and sz >= 9 for k, _n, _t, _f, _a, sz in shape(m, v))
                        n_ref_planned += len(refs)
                        plan.append((kind, row, refs, bool(native)))
                items.append((arch, m, v, plan))
    # variant-major order: should the wall cap ever cut the run short, every subset x output kind
    # has been linked in its first variants
    items.sort(key=lambda it: (it[2], it[0] != "x86_64", it[1]))
    if chk.seed:
        import random
        random.Random(chk.seed).shuffle(items)
    cap_s = int(os.environ.get("VERIF_WALL_CAP", 840 if thorough else 50))
    capped = False
    members_done = 0
    stats = dict(links=0, accepted=0, rejected=0, native_runs=0, native_ok=0, consumer_runs=0,
                 script_induced_reference=0, script_induced_excluded=0)
    refstats = {"ld": dict(links=0, accepted=0, flagged=0), "lld": dict(links=0, accepted=0, flagged=0)}
    ref_flag_keys = {}
    rejected = {}
    nontrivial = set()
    combo_cov = set()
    pair_cov = set()
    per_kind = {k: dict(links=0, accepted=0) for k in OUTPUT_KINDS}
    samples = []
    with vlib.scratch("c04") as base:
        G["base"] = base
        for arch in arches:
            make_dummy_so(base, arch)
        n_self, missed = monitor_selftest(base)
        if missed:
            chk.machinery("monitor self-test: corruption not detected / setup failed: %s" % missed)
        all_res = []
        for res in vlib.pmap_unordered(job, items, chunksize=4):
            members_done += 1
            all_res.append(res)
            if time.time() - t0 > cap_s:
                capped = True
                break
        all_res.sort(key=lambda res: (res[0][2], res[0][0] != "x86_64", res[0][1]) if res else ())
        for res in all_res:
            for arch, m, v, kind, row, rc, msg, keys, nsec, nload, nat, refres, ncons in res:
                stats["links"] += 1
                stats["consumer_runs"] += ncons
                per_kind[kind]["links"] += 1
                sh = shape(m, v)
                rep = {"arch": arch, "subset_mask": m, "variant": v, "kind": kind, "row": row,
                       "describe": describe(arch, m, v, kind, row)}
                tag = ("r" if kind == "r" else "exe") + ("+script" if row[3] else "")
                if rc == 0:
                    stats["accepted"] += 1
                    per_kind[kind]["accepted"] += 1

                    # distinct non-trivial = distinct (arch, kind, options, section shape) whose
                    # output has >= 2 sections from the member's own kinds laid out
                    if len([1 for s in sh if s[5]]) >= 2:
                        nontrivial.add((arch, kind, row, tuple(sh)))
                    for s in sh:
                        combo_cov.add((s[0], s[4], s[5]))
                    for s1, s2 in itertools.combinations(sh, 2):
                        pair_cov.add((s1[0], s1[4], s1[5], s2[0], s2[4], s2[5]))
                    for k in classify(keys):
                        if row[3] and k.startswith("relro-exact"):
                            stats["script_induced_excluded"] += 1     # see the calibration note
                            continue
                        what = next(msg_ for kk, msg_ in keys if kk == k)
                        chk.violation("%s:%s" % (k, tag), "[%s] %s; member %s"
                                      % (arch, what, json.dumps(rep["describe"])[:300]), rep)
                    if nat is not None:
                        stats["native_runs"] += 1
                        if nat == 0:
                            stats["native_ok"] += 1
                        else:
                            chk.violation("native-run:%s" % tag, "well-formed by the monitor but "
                                          "the program exits %r instead of 0" % (nat,), rep)
                    if len(samples) < 3 and len(sh) >= 5 and row != DEFAULT_ROW:
                        samples.append(rep["describe"])
                elif rc == 1:
                    stats["rejected"] += 1
                    first = msg.strip().split("\n")[0][:90]
                    rejected.setdefault("%s %s: %s" % (arch, tag, first), []).append((m, v, row))
                else:
                    chk.violation("crash:rc=%s:%s" % (rc, tag), "wild died (rc=%s): %s"
                                  % (rc, msg[-200:]), rep)
                for ref, rrc, rkeys, rerr in refres:
                    st = refstats[ref]
                    st["links"] += 1
                    if rrc == 0:
                        st["accepted"] += 1
                        st["consumer_complaints"] = st.get("consumer_complaints", 0) + \
                            sum(1 for k, _ in rkeys if k.startswith("consumer:"))
                        rkeys = [t for t in rkeys if not t[0].startswith("consumer:")]
                        if row[3]:
                            # Under a SECTIONS script the reference linkers leave the separation
                            # of RELRO from ordinary data to the script's author (lld places the
                            # orphan .dynamic right behind .data): not binding, counted.
                            ind = [t for t in rkeys if t[0].startswith("relro-exact")]
                            stats["script_induced_reference"] += len(ind)
                            rkeys = [t for t in rkeys if t not in ind]
                        if rkeys:
                            st["flagged"] += 1
                            for k in classify(rkeys):
                                ref_flag_keys.setdefault("%s:%s:%s" % (ref, kind, k), []).append(
                                    (arch, m, v, row, next(t for kk, t in rkeys if kk == k)))
    # Calibration verdict: a monitor rule violated by a reference linker's own output is a wrong
    # rule unless it is one of the documented reference-linker behaviours below.
    tolerated = {k: v for k, v in ref_flag_keys.items() if _tolerated_reference_behaviour(k)}
    untolerated = {k: v for k, v in ref_flag_keys.items() if k not in tolerated}
    if untolerated:
        k, v = sorted(untolerated.items())[0]
        chk.machinery("monitor rule flags a reference linker's own output: %s on %d outputs, e.g. "
                      "%s" % (k, len(v), v[0]))
    chk.coverage = {
        "evaluations": stats["links"],
        "distinct_nontrivial": len(nontrivial),
        "rule": "every subset (2^9) of the 9 section kinds x every output kind %s x variants "
                "(x86_64: %d, aarch64: %d per subset; alignment/size/custom-flavour by the "
                "covering rule in the module docstring) x option rows (quick: the no-option row on "
                "every variant + one pairwise row on variant 0; thorough: the no-option row on "
                "every variant + the 5-row strength-2 covering array of max-page-size x "
                "section-start x relro x script on variants 0,1 (aarch64: variant 0); -r gets only "
                "the script axis). "
                "distinct_nontrivial = distinct accepted (arch, kind, options, shape) members with "
                ">= 2 non-empty sections of the family" % (OUTPUT_KINDS, nvar["x86_64"],
                                                           nvar.get("aarch64", 0)),
        "exhaustive": step == 1 and not capped,
        "capped": "wall cap of %d s hit after %d of %d (subset, variant) members" % (
            cap_s, members_done, len(items)) if capped else None,
        "members_planned": len(items), "members_run": members_done,
        "subsets": len(range(0, 1 << NK, step)), "arches": arches,
        "wild_links": stats["links"], "wild_accepted": stats["accepted"],
        "wild_rejected": stats["rejected"],
        "wild_rejections_by_message": {k: len(v) for k, v in sorted(rejected.items())},
        "per_output_kind": per_kind,
        "kind_combo_coverage": "%d of %d (kind, align, size) triples" % (len(combo_cov), NK * 12),
        "kind_pair_combo_coverage": "%d of %d ((kind, align, size), (kind, align, size)) pairs"
                                    % (len(pair_cov), NK * (NK - 1) // 2 * 144),
        "monitor_selftest": "%d single-field corruptions of a GNU ld output, all detected" % n_self,
        "calibration": {r: s for r, s in refstats.items()},
        "calibration_tolerated": {k: len(v) for k, v in sorted(tolerated.items())},
        "native_runs": stats["native_runs"], "native_ok": stats["native_ok"],
        "consumer_runs": stats["consumer_runs"],
        "relro_exact_under_script_not_judged": {"wild": stats["script_induced_excluded"],
                                                "reference": stats["script_induced_reference"]},
        "subprocesses": refstats["ld"]["links"] + refstats["lld"]["links"] + stats["native_runs"]
        + stats["consumer_runs"] + len(arches),
        "violation_keys": _key_counts(chk),
        "samples": samples or [describe("x86_64", 0x1ff, 0, "pie", DEFAULT_ROW)],
        "wall_links_s": round(time.time() - t0, 1),
    }
    chk.assumptions = [
        "members that wild rejects with a diagnostic are counted (wild_rejections_by_message), "
        "not judged: acceptance is the business of other properties",
        "RELRO membership is judged by section name (lib/wellformed.py MUST_RELRO / EITHER_RELRO)",
        "the monitor reads the file only; runtime page size 4096 is assumed for the glibc RELRO "
        "rounding rule and page sizes up to the largest PT_LOAD p_align for 'never protect "
        "ordinary data'",
    ]
    chk.finish()


def _key_counts(chk):
    out = {}
    for key, _what, _rep in chk.violations:
        out[key] = out.get(key, 0) + 1
    for key, n in chk.known_hits.items():
        out[key] = out.get(key, 0) + n
    return dict(sorted(out.items()))


def _tolerated_reference_behaviour(key):
    """Documented behaviours of the reference linkers on this family that the property statement
    itself forbids for wild (so the rule stays) - each verified by hand, see the report."""
    ref, kind, rule = key.split(":", 2)
    return (ref, rule) in TOLERATED or (ref, kind, rule) in TOLERATED


# lld 14 sizes PT_PHDR before it drops unused program headers, so PT_PHDR is longer than the table
# (harmless: loaders take the count from e_phnum / AT_PHNUM). The property statement forbids it.
TOLERATED = {("lld", "phdr-extent")}


if __name__ == "__main__":
    main()
