#!/usr/bin/env python3
"""C05 - Garbage collection keeps everything reachable.

Bounded-exhaustive family of reference graphs, every member linked by the real wild (server mode,
default --gc-sections):

  graph      every directed graph on the sections S0,S1 (object a.o) and S2[,S3] (object b.o):
             g3 = all 2^9 graphs on 3 sections including self-loops; g4 = all 2^12 loop-free graphs
             on 4 sections; g4loops = the same with a self-loop added on every section. Nothing is
             reduced by symmetry. Which products of graph set x edge kind x root kind are run is
             listed in SUBFAMILIES (quick: g3 x section x 12 roots + g3 x {global,local} x entry;
             thorough: g3 x 3 x 12, g4 x section x 12, g4 x {global,local} x 3 roots,
             g4loops x section x 3 roots); each listed product is enumerated in full.
  edge kind  how an edge i->j is written inside one object: relocation against a named (hidden)
             global symbol, against a local symbol, or against the section symbol + offset
             (edges that cross objects are always against the named global). Relocation type is
             R_X86_64_64 in writable sections and R_X86_64_PC32 elsewhere.
  reloc kind (REL_SUBFAMILIES, root kind entry, static non-PIE): the relocation TYPE of an edge is an
             axis of its own: every edge is one relocation of the chosen type against the named
             global or the section symbol: R_X86_64_{NONE,64,PC32,PLT32,GOTPCREL,GOTPCRELX,
             REX_GOTPCRELX,32S,32,GOTOFF64,TLSLD,DTPOFF32,GOTTPOFF,TPOFF32} and R_AARCH64_{NONE,ABS64,
             PREL32,ADR_PREL_PG_HI21,ADD_ABS_LO12_NC,LDST64_ABS_LO12_NC,CALL26,ADR_GOT_PAGE,
             LD64_GOT_LO12_NC,TLSLD_ADR_PAGE21,TLSIE_ADR_GOTTPREL_PAGE21,TLSLE_ADD_TPREL_HI12} (TLS kinds
             target .tdata sections). "Valueless" kinds - those for which wild's
             layout::resolution_flags() is empty (NONE, TLSLD, AArch64 *_ABS_LO12_NC) - are crossed
             with all graphs in both tiers. A (kind, symbol kind) pair is only judged when GNU ld and
             ld.lld --gc-sections both keep the target on a calibration graph (calibrate(); AArch64:
             ld.lld only); excluded pairs are listed in the evidence.
  root kind  what makes S0 a root: entry `_start`; `-e ent`; `-u usym`; default-visibility symbol in
             `-shared`; default-visibility symbol in `-pie --export-dynamic` (dynamically linked
             against a shared object); `KEEP(*(.keepme))` in a linker script; SHF_GNU_RETAIN;
             `.note.c05` (SHT_NOTE); `.init_array`; `.fini_array`; `__start_c05_set` / `__stop_c05_set`
             referenced from the entry section (S0 is named c05_set).
  Every section carries 8 marker bytes and a hidden marker symbol. All generated with elfgen.

Oracle 1 (no linker): the objects are read back with elfread, the root set is derived from the
command line and the objects (model_closure below), the closure over relocation records is taken;
every section in the closure must have its marker symbol defined in the output .symtab and its
marker bytes at that address in the image. Sections outside the closure are not judged (cycles
that no root reaches may be dropped or kept).
Oracle 2 (native x86-64 sub-family, 64 graphs packed into one program): nodes are data records
(marker, visited flag, out-degree, pointers); a fixed walker does a depth-first walk from every
graph's root and prints the markers it reaches. Output with --gc-sections must equal output with
--no-gc-sections (and the depth-first order computed in Python)."""
import fnmatch
import itertools
import json
import os
import re
import struct
import sys

sys.path.insert(0, os.path.join(os.path.dirname(os.path.abspath(__file__)), "..", "lib"))
import vlib
import wildrun
import elfread
import elfgen
from elfgen import (SHF_ALLOC, SHF_WRITE, SHF_EXECINSTR, SHF_GNU_RETAIN, SHT_PROGBITS, SHT_NOTE,
                    SHT_INIT_ARRAY, SHT_FINI_ARRAY, STB_LOCAL, STB_GLOBAL, STT_OBJECT, STT_FUNC,
                    STT_NOTYPE, STV_DEFAULT, STV_HIDDEN)

RELOCS = {"x86_64": (1, 2), "aarch64": (257, 261)}     # (absolute 64, pc-relative 32)
THREADS = "--threads=2"
EDGE_KINDS = ["global", "local", "section"]
ROOT_KINDS = ["entry", "entry-e", "undefined", "shared", "export-dynamic", "keep", "retain", "note",
              "init_array", "fini_array", "start", "stop"]
HEAD = 16           # bytes in front of the marker, so that section symbol + offset is not + 0
SCRIPT = "SECTIONS { .keepme : { KEEP(*(.keepme)) } }\n"


def marker(i, tag=""):
    return (f"C5{tag}S{i}".encode() + b"########")[:8]


# --------------------------------------------------------------------------------------------
# generator

def default_section(i):
    """(name, type, flags) of section Si when it is not the root."""
    return [(".text.s0", SHT_PROGBITS, SHF_ALLOC | SHF_EXECINSTR),
            (".data.s1", SHT_PROGBITS, SHF_ALLOC | SHF_WRITE),
            (".text.s2", SHT_PROGBITS, SHF_ALLOC | SHF_EXECINSTR),
            (".data.rel.ro.s3", SHT_PROGBITS, SHF_ALLOC | SHF_WRITE)][i]


def root_section(kind):
    return {
        "keep": (".keepme", SHT_PROGBITS, SHF_ALLOC),
        "retain": (".text.s0", SHT_PROGBITS, SHF_ALLOC | SHF_EXECINSTR | SHF_GNU_RETAIN),
        "note": (".note.c05", SHT_NOTE, SHF_ALLOC),
        "init_array": (".init_array", SHT_INIT_ARRAY, SHF_ALLOC | SHF_WRITE),
        "fini_array": (".fini_array", SHT_FINI_ARRAY, SHF_ALLOC | SHF_WRITE),
        "start": ("c05_set", SHT_PROGBITS, SHF_ALLOC),
        "stop": ("c05_set", SHT_PROGBITS, SHF_ALLOC),
    }.get(kind, default_section(0))


def build(m, d):
    """m: dict(n=3|4, edges=[[i,j],...], ek=edge kind, rk=root kind). Writes a.o, b.o (+ script /
    libdummy.so) into d. -> argv (without -o)."""
    if "rel" in m:
        return build_rel(m, d)
    os.makedirs(d, exist_ok=True)
    n, edges, ek, rk = m["n"], [tuple(e) for e in m["edges"]], m["ek"], m["rk"]
    arch = m.get("arch", "x86_64")
    R_64, R_PC32 = RELOCS[arch]
    owner = {0: 0, 1: 0, 2: 1, 3: 1}
    # gas marks an object that uses SHF_GNU_RETAIN with ELFOSABI_GNU (GNU ld honours the flag only then)
    objs = [elfgen.ElfObject(arch, osabi=3 if rk == "retain" else 0), elfgen.ElfObject(arch)]
    secs, named, local, secsym = {}, {}, {}, {}
    # the entry section of the kinds in which S0 is not the entry
    if rk not in ("entry", "entry-e"):
        o = objs[0]
        code = b"\xc3" + b"\x90" * 7 + bytes(8)
        t = o.section(".text.start", flags=SHF_ALLOC | SHF_EXECINSTR, align=16, data=code)
        o.symbol("_start", section=t, type=STT_FUNC, size=1)
        if rk in ("start", "stop"):
            o.reloc(t, 8, R_PC32, o.symbol(f"__{rk}_c05_set"), 0)
    for i in range(n):
        o = objs[owner[i]]
        name, typ, flags = root_section(rk) if i == 0 else default_section(i)
        outs = [j for (a, j) in edges if a == i]
        if typ == SHT_NOTE:
            head = struct.pack("<III", 4, 8 + 8 * len(outs), 1) + b"C05\0"      # HEAD == 16
        else:
            head = b"\xcc" * HEAD
        data = head + marker(i) + bytes(8 * len(outs))
        s = o.section(name, type=typ, flags=flags, align=8, data=data)
        secs[i] = s
        o.symbol(f"mark_{i}", section=s, value=HEAD, type=STT_OBJECT, size=8, vis=STV_HIDDEN)
        named[i] = o.symbol(f"n_{i}", section=s, value=HEAD, vis=STV_HIDDEN)
        local[i] = o.symbol(f".Ll_{i}", section=s, value=HEAD, bind=STB_LOCAL)
        secsym[i] = o.section_symbol(s)
    undef = {}
    for i in range(n):
        o = objs[owner[i]]
        writable = secs[i].flags & SHF_WRITE
        k = 0
        for (a, j) in edges:
            if a != i:
                continue
            off = HEAD + 8 + 8 * k
            k += 1
            rtype, fix = (R_64, 0) if writable else (R_PC32, 0)
            if owner[j] != owner[i]:
                key = (owner[i], j)
                if key not in undef:
                    undef[key] = o.symbol(f"n_{j}", vis=STV_HIDDEN)
                o.reloc(secs[i], off, rtype, undef[key], fix)
            elif ek == "global":
                o.reloc(secs[i], off, rtype, named[j], fix)
            elif ek == "local":
                o.reloc(secs[i], off, rtype, local[j], fix)
            else:
                o.reloc(secs[i], off, rtype, secsym[j], HEAD + fix)
    o = objs[0]
    argv = [THREADS] + (["-m", "aarch64linux"] if arch == "aarch64" else [])
    if rk == "entry":
        o.symbol("_start", section=secs[0], value=HEAD, type=STT_FUNC)
    elif rk == "entry-e":
        o.symbol("ent", section=secs[0], value=HEAD, type=STT_FUNC)
        argv += ["-e", "ent"]
    elif rk == "undefined":
        o.symbol("usym", section=secs[0], value=HEAD, type=STT_FUNC)
        argv += ["-u", "usym"]
    elif rk == "shared":
        o.symbol("exp", section=secs[0], value=HEAD, type=STT_FUNC, size=8)
        argv += ["-shared"]
    elif rk == "export-dynamic":
        o.symbol("exp", section=secs[0], value=HEAD, type=STT_FUNC, size=8)
        argv += ["-pie", "--export-dynamic", "-dynamic-linker", "/lib64/ld-linux-x86-64.so.2"]
    elif rk == "keep":
        with open(os.path.join(d, "keep.ld"), "w") as f:
            f.write(SCRIPT)
        argv += ["-T", "keep.ld"]
    for ob in objs:
        ob.note_gnu_stack()
    objs[0].write(os.path.join(d, "a.o"))
    objs[1].write(os.path.join(d, "b.o"))
    argv += ["a.o", "b.o"] if m.get("order", "ab") == "ab" else ["b.o", "a.o"]
    if rk == "export-dynamic":
        argv += [dummy_so()]
    return argv


# --------------------------------------------------------------------------------------------
# relocation-kind axis: an edge i->j is one relocation of a chosen type in a 16-byte slot of Si.
# name: (arch, r_type, slot bytes, offset of the relocated field in the slot, addend,
#        addend is added to S (so a section-symbol edge adds HEAD), target must be a TLS section,
#        needs nothing from the symbol's value = wild's layout::resolution_flags(kind) is empty)
def _w(*words):
    return b"".join(struct.pack("<I", w) for w in words)


REL_KINDS = {
    # x86-64
    "NONE":          ("x86_64", 0, b"", 0, 0, True, False, True),
    "64":            ("x86_64", 1, b"", 0, 0, True, False, False),
    "PC32":          ("x86_64", 2, b"\x48\x8d\x05", 3, -4, True, False, False),        # lea s(%rip),%rax
    "PLT32":         ("x86_64", 4, b"\xe8", 1, -4, True, False, False),                # call s
    "GOTPCREL":      ("x86_64", 9, b"\x48\x8b\x05", 3, -4, False, False, False),       # mov s@GOTPCREL(%rip),%rax
    "GOTPCRELX":     ("x86_64", 41, b"\xff\x15", 2, -4, False, False, False),          # call *s@GOTPCREL(%rip)
    "REX_GOTPCRELX": ("x86_64", 42, b"\x48\x8b\x05", 3, -4, False, False, False),
    "32S":           ("x86_64", 11, b"\x48\xc7\xc0", 3, 0, True, False, False),        # mov $s,%rax
    "32":            ("x86_64", 10, b"\xb8", 1, 0, True, False, False),                # mov $s,%eax
    "GOTOFF64":      ("x86_64", 25, b"\x48\xb8", 2, 0, True, False, False),            # movabs $s@GOTOFF,%rax
    "TLSLD":         ("x86_64", 20, b"\x48\x8d\x3d\0\0\0\0\xe8", 3, -4, False, True, True),   # lea s@tlsld(%rip),%rdi; call __tls_get_addr
    "DTPOFF32":      ("x86_64", 21, b"\x48\x8d\x90", 3, 0, True, True, False),         # lea s@dtpoff(%rax),%rdx
    "GOTTPOFF":      ("x86_64", 22, b"\x48\x8b\x05", 3, -4, False, True, False),       # mov s@gottpoff(%rip),%rax
    "TPOFF32":       ("x86_64", 23, b"\x48\x8d\x80", 3, 0, True, True, False),         # lea s@tpoff(%rax),%rax
    # AArch64
    "A64_NONE":                 ("aarch64", 0, b"", 0, 0, True, False, True),
    "A64_ABS64":                ("aarch64", 257, b"", 0, 0, True, False, False),
    "A64_PREL32":               ("aarch64", 261, b"", 0, 0, True, False, False),
    "A64_ADR_PREL_PG_HI21":     ("aarch64", 275, _w(0x90000000), 0, 0, True, False, False),   # adrp x0, s
    "A64_ADD_ABS_LO12_NC":      ("aarch64", 277, _w(0x91000000), 0, 0, True, False, True),    # add x0,x0,:lo12:s
    "A64_LDST64_ABS_LO12_NC":   ("aarch64", 286, _w(0xf9400000), 0, 0, True, False, True),    # ldr x0,[x0,:lo12:s]
    "A64_CALL26":               ("aarch64", 283, _w(0x94000000), 0, 0, True, False, False),   # bl s
    "A64_ADR_GOT_PAGE":         ("aarch64", 311, _w(0x90000000), 0, 0, False, False, False),  # adrp x0, :got:s
    "A64_LD64_GOT_LO12_NC":     ("aarch64", 312, _w(0xf9400000), 0, 0, False, False, False),  # ldr x0,[x0,:got_lo12:s]
    "A64_TLSLD_ADR_PAGE21":     ("aarch64", 518, _w(0x90000000), 0, 0, False, True, True),
    "A64_TLSIE_ADR_GOTTPREL_PAGE21": ("aarch64", 541, _w(0x90000000), 0, 0, False, True, False),
    "A64_TLSLE_ADD_TPREL_HI12": ("aarch64", 549, _w(0x91400000), 0, 0, True, True, False),    # add x0,x0,:tprel_hi12:s
}
VALUELESS = [k for k, v in REL_KINDS.items() if v[7]]
ORDINARY = [k for k, v in REL_KINDS.items() if not v[7]]
# 64 / PC32 / ABS64 / PREL32 are what the root-kind families use already
QUICK_ORDINARY = ["PLT32", "GOTPCREL", "REX_GOTPCRELX", "32S", "TPOFF32", "A64_CALL26",
                  "A64_ADR_GOT_PAGE"]
SLOT = 16
SHF_TLS, STT_TLS = 0x400, 6


def build_rel(m, d):
    """Member with a "rel" key: root kind entry (static non-PIE), every edge i->j is one relocation
    of kind m["rel"] against the named hidden global n_j (ek global, and always across objects) or
    against the section symbol of Sj (ek section). For kinds that need a TLS symbol, S1.. are .tdata
    sections and edges into the (non-TLS) entry section S0 fall back to a plain pc-relative word."""
    os.makedirs(d, exist_ok=True)
    n, edges, ek = m["n"], [tuple(e) for e in m["edges"]], m["ek"]
    arch, rtype, ibytes, roff, addend, to_s, tls, _ = REL_KINDS[m["rel"]]
    plain = RELOCS[arch][1]
    owner = {0: 0, 1: 0, 2: 1, 3: 1}
    objs = [elfgen.ElfObject(arch), elfgen.ElfObject(arch)]
    secs, named, secsym = {}, {}, {}
    tga = None
    if m["rel"] == "TLSLD":          # the instruction pair names __tls_get_addr; define it
        o = objs[0]
        t = o.section(".text.tga", flags=SHF_ALLOC | SHF_EXECINSTR, align=16, data=b"\xc3")
        o.symbol("__tls_get_addr", section=t, type=STT_FUNC, size=1)
    for i in range(n):
        o = objs[owner[i]]
        if i and tls:
            name, typ, flags = f".tdata.s{i}", SHT_PROGBITS, SHF_ALLOC | SHF_WRITE | SHF_TLS
        else:
            name, typ, flags = default_section(i)
        nout = sum(1 for (a, _j) in edges if a == i)
        slot = ibytes + bytes(SLOT - len(ibytes))
        data = b"\xcc" * HEAD + marker(i) + slot * nout
        s = o.section(name, type=typ, flags=flags, align=8, data=data)
        secs[i] = s
        styp = STT_TLS if flags & SHF_TLS else STT_OBJECT
        o.symbol(f"mark_{i}", section=s, value=HEAD, type=styp, size=8, vis=STV_HIDDEN)
        named[i] = o.symbol(f"n_{i}", section=s, value=HEAD, type=styp if flags & SHF_TLS else STT_NOTYPE,
                            vis=STV_HIDDEN)
        secsym[i] = o.section_symbol(s)
    undef = {}
    for i in range(n):
        o = objs[owner[i]]
        for k, j in enumerate(j for (a, j) in edges if a == i):
            base = HEAD + 8 + SLOT * k
            if owner[j] != owner[i]:
                if (owner[i], j) not in undef:
                    undef[(owner[i], j)] = o.symbol(f"n_{j}", vis=STV_HIDDEN,
                                                    type=STT_TLS if (tls and j) else STT_NOTYPE)
                sym, extra = undef[(owner[i], j)], 0
            elif ek == "section":
                sym, extra = secsym[j], HEAD
            else:
                sym, extra = named[j], 0
            if tls and j == 0:
                o.reloc(secs[i], base + 8, plain, sym, extra)       # plain word in the slot's tail
                continue
            o.reloc(secs[i], base + roff, rtype, sym, addend + (extra if to_s else 0))
            if m["rel"] == "TLSLD":
                if (owner[i], "tga") not in undef:
                    undef[(owner[i], "tga")] = o.symbol("__tls_get_addr") if owner[i] else \
                        [x for x in o.symbols if x.name == "__tls_get_addr"][0]
                o.reloc(secs[i], base + 8, 4, undef[(owner[i], "tga")], -4)
    objs[0].symbol("_start", section=secs[0], value=HEAD, type=STT_FUNC)
    for ob in objs:
        ob.note_gnu_stack()
    objs[0].write(os.path.join(d, "a.o"))
    objs[1].write(os.path.join(d, "b.o"))
    return [THREADS] + (["-m", "aarch64linux"] if arch == "aarch64" else []) + ["a.o", "b.o"]


def calibrate(base):
    """For every relocation kind x symbol kind: do the reference linkers (GNU ld 2.40 -- x86-64
    only -- and ld.lld, both with --gc-sections) keep every section the model calls reachable on a
    small graph? Only combinations on which all available reference linkers agree with the model are
    judged. -> {(rel, ek): None (judged) | reason for exclusion}"""
    out = {}
    for rel, ek in itertools.product(REL_KINDS, ("global", "section")):
        m = {"n": 4, "edges": [[0, 1], [1, 2], [2, 1], [2, 0], [3, 3], [3, 1]], "ek": ek, "rk": "entry",
             "rel": rel}
        d = os.path.join(base, "cal")
        argv = [a for a in build_rel(m, d) if a != THREADS and a not in ("-m", "aarch64linux")]
        linkers = [["ld.lld", "--gc-sections"]]
        if REL_KINDS[rel][0] == "x86_64":
            linkers.append(["ld", "--gc-sections"])
        why = None
        for ln in linkers:
            ref = os.path.join(d, "out.ref")
            try:
                os.unlink(ref)
            except OSError:
                pass
            rc, _, err = vlib.run([*ln, *argv, "-o", "out.ref"], cwd=d)
            if rc != 0:
                why = f"{ln[0]} rejects the input: {err.decode(errors='replace').strip()[-160:]}"
                break
            viol, st = judge(argv, d, ref)
            if viol or st.get("live") != 3:
                why = f"{ln[0]} does not keep the target ({[v[0] for v in viol]}, {st})"
                break
            if not st.get("dropped"):
                why = f"{ln[0]} did not collect the unreachable section (calibration vacuous)"
                break
        out[(rel, ek)] = why
    return out


def dummy_so():
    """A shared object to link against (so that the PIE is dynamically linked). Built once by GNU ld."""
    path = os.path.join(vlib.OBJCACHE, "c05_libdummy.so")
    if not os.path.exists(path):
        obj = vlib.assemble('.globl c05_dummy\n.text\nc05_dummy: ret\n.section .note.GNU-stack,"",@progbits\n')
        tmp = f"{path}.{os.getpid()}"
        rc, _, err = vlib.run(["ld", "-shared", "-soname", "libdummy.so", "-o", tmp, obj])
        if rc != 0:
            raise RuntimeError(f"cannot build libdummy.so: {err.decode()}")
        os.replace(tmp, path)
    return path


# --------------------------------------------------------------------------------------------
# reference model (reads the input objects; knows nothing about the generator)

C_IDENT = re.compile(r"^[A-Za-z_][A-Za-z0-9_]*$")
ROOT_TYPES = (elfread.SHT_NOTE, elfread.SHT_INIT_ARRAY, elfread.SHT_FINI_ARRAY,
              elfread.SHT_PREINIT_ARRAY)


def parse_cmdline(argv, cwd):
    """The subset of the command line the model understands -> dict."""
    spec = dict(entry="_start", undefined=[], export_all=False, keep=[], objects=[])
    it = iter(argv)
    for a in it:
        if a == "-e":
            spec["entry"] = next(it)
        elif a == "-u":
            spec["undefined"].append(next(it))
        elif a in ("-shared", "--export-dynamic"):
            spec["export_all"] = True
        elif a == "-T":
            with open(os.path.join(cwd, next(it))) as f:
                spec["keep"] += re.findall(r"KEEP\s*\(\s*\*\s*\(\s*([^)\s]+)\s*\)\s*\)", f.read())
        elif a == "-dynamic-linker":
            next(it)
        elif a.endswith(".o"):
            spec["objects"].append(a)
    return spec


def model_closure(argv, cwd):
    """-> (live, info): live = set of (object name, section index) that must be kept;
    info[(object, index)] = Section. Roots: the section of the entry symbol, of every -u symbol, of
    every default-visibility global definition when symbols are exported (-shared,
    --export-dynamic), KEEP()ed sections, SHF_GNU_RETAIN, SHT_NOTE, init/fini/preinit arrays, and
    all sections named X once a live section refers to an otherwise undefined __start_X/__stop_X."""
    spec = parse_cmdline(argv, cwd)
    files = {o: elfread.Elf(os.path.join(cwd, o)) for o in spec["objects"]}
    gdef = {}
    for o, e in files.items():
        for s in e.symbols(".symtab"):
            if s.bind != elfread.STB_LOCAL and s.shndx not in (0,) and s.shndx < 0xff00:
                gdef.setdefault(s.name, (o, s.shndx, s))
    info, edges_from, undef_refs = {}, {}, {}
    for o, e in files.items():
        syms = e.symbols(".symtab")
        for sec in e.sections:
            if sec.sh_flags & elfread.SHF_ALLOC:
                info[(o, sec.index)] = sec
        for r in e.relocations():
            src = (o, r.target_section_index)
            s = syms[r.sym_index]
            if s.shndx != 0 and s.shndx < 0xff00:
                edges_from.setdefault(src, set()).add((o, s.shndx))
            elif s.name in gdef:
                edges_from.setdefault(src, set()).add(gdef[s.name][:2])
            else:
                undef_refs.setdefault(src, set()).add(s.name)
    roots = set()
    for name in [spec["entry"]] + spec["undefined"]:
        if name in gdef:
            roots.add(gdef[name][:2])
    if spec["export_all"]:
        for name, (o, idx, s) in gdef.items():
            if s.visibility == elfread.STV_DEFAULT:
                roots.add((o, idx))
    for key, sec in info.items():
        if sec.sh_flags & elfread.SHF_GNU_RETAIN or sec.sh_type in ROOT_TYPES:
            roots.add(key)
        if any(fnmatch.fnmatchcase(sec.name, pat) for pat in spec["keep"]):
            roots.add(key)
    live, todo = set(), list(roots)
    while todo:
        k = todo.pop()
        if k in live or k not in info:
            continue
        live.add(k)
        todo += list(edges_from.get(k, ()))
        for name in undef_refs.get(k, ()):
            for pre in ("__start_", "__stop_"):
                if name.startswith(pre) and C_IDENT.match(name[len(pre):]):
                    todo += [kk for kk, sec in info.items() if sec.name == name[len(pre):]]
    return live, info, files


def judge(argv, cwd, outpath):
    """-> (violations [(key-suffix, text)], stats dict)."""
    live, info, files = model_closure(argv, cwd)
    try:
        out = elfread.Elf(outpath)
        osyms = {}
        for s in out.symbols(".symtab"):
            if s.name.startswith("mark_"):
                osyms.setdefault(s.name, []).append(s)
    except (elfread.ElfError, struct.error) as ex:
        return [("", "output-unreadable", str(ex))], {}
    viol = []
    n_live = n_dropped = n_marked = 0
    for (o, idx), sec in sorted(info.items()):
        e = files[o]
        marks = [s for s in e.symbols(".symtab") if s.shndx == idx and s.name.startswith("mark_")]
        if not marks:
            continue
        n_marked += 1
        mk = marks[0]
        want = sec.data[mk.value:mk.value + 8]
        present = False
        cands = [s for s in osyms.get(mk.name, []) if s.shndx != 0]
        why = "marker symbol absent from .symtab"
        for s in cands:
            addr = s.value
            if s.type == elfread.STT_TLS:        # value is an offset into the TLS template
                tlsseg = [p for p in out.segments if p.p_type == elfread.PT_TLS]
                if not tlsseg:
                    why = "marker symbol is STT_TLS but the output has no PT_TLS"
                    continue
                addr += tlsseg[0].p_vaddr
            try:
                got = out.read_vaddr(addr, 8)
            except elfread.ElfError:
                why = f"marker symbol value {s.value:#x} is outside the image"
                continue
            if got == want:
                present = True
            else:
                why = f"bytes at marker symbol are {got!r}, expected {want!r}"
        if (o, idx) in live:
            n_live += 1
            if not present:
                viol.append((mk.name, sec.name, f"{o}:{sec.name} ({mk.name}) is reachable from the "
                             f"roots but {why}"))
        elif not present:
            n_dropped += 1
    return viol, dict(live=n_live, dropped=n_dropped, marked=n_marked)


# --------------------------------------------------------------------------------------------
# family

def graphs3():
    """All 2^9 edge sets on 3 sections, self-loops included."""
    pairs = [(i, j) for i in range(3) for j in range(3)]
    for mask in range(1 << 9):
        yield 3, [p for b, p in enumerate(pairs) if mask >> b & 1]


def graphs4():
    """All 2^12 loop-free edge sets on 4 sections, each also with a self-loop on every section."""
    pairs = [(i, j) for i in range(4) for j in range(4) if i != j]
    for mask in range(1 << 12):
        e = [p for b, p in enumerate(pairs) if mask >> b & 1]
        yield 4, e
        yield 4, e + [(i, i) for i in range(4)]


NO_DYN = [r for r in ROOT_KINDS if r not in ("shared", "export-dynamic")]
SUBFAMILIES = {
    # name: (graph set, edge kinds, root kinds, extra member keys); each is enumerated in full
    "quick": [
        ("g3 x section x all roots", "g3", ["section"], ROOT_KINDS, {}),
        ("g3 x {global,local} x entry", "g3", ["global", "local"], ["entry"], {}),
    ],
    "thorough": [
        ("g3 x all edge kinds x all roots", "g3", EDGE_KINDS, ROOT_KINDS, {}),
        ("g3 x section x all roots, objects in the order b.o a.o", "g3", ["section"], ROOT_KINDS,
         {"order": "ba"}),
        ("g3 x section x static roots, AArch64 objects", "g3", ["section"], NO_DYN, {"arch": "aarch64"}),
        ("g4 loop-free x section x all roots", "g4", ["section"], ROOT_KINDS, {}),
        ("g4 loop-free x {global,local} x {entry,retain,start}", "g4", ["global", "local"],
         ["entry", "retain", "start"], {}),
        ("g4 with every self-loop x section x {entry,keep,init_array}", "g4loops", ["section"],
         ["entry", "keep", "init_array"], {}),
    ],
}


REL_SUBFAMILIES = {
    # name: (graph set, relocation kinds, symbol kinds); root kind entry; each enumerated in full
    "quick": [
        ("g3 x valueless relocation kinds x {global,section} x entry", "g3", VALUELESS,
         ["global", "section"]),
        ("g3 x representative ordinary relocation kinds x global x entry", "g3", QUICK_ORDINARY,
         ["global"]),
    ],
    "thorough": [
        ("g3 x every relocation kind x {global,section} x entry", "g3", list(REL_KINDS),
         ["global", "section"]),
        ("g4 loop-free x valueless relocation kinds x {global,section} x entry", "g4", VALUELESS,
         ["global", "section"]),
    ],
}


def members(tier, cal=None):
    g4 = list(graphs4()) if tier == "thorough" else []
    sets = {"g3": list(graphs3()), "g4": g4[0::2], "g4loops": g4[1::2]}
    out = []
    for _name, gset, eks, rks, more in SUBFAMILIES[tier]:
        for (n, edges), ek, rk in itertools.product(sets[gset], eks, rks):
            out.append({"n": n, "edges": [list(e) for e in edges], "ek": ek, "rk": rk, **more})
    # relocation-kind axis (root kind entry): only (kind, symbol kind) pairs that passed calibration
    for name, gset, rels, eks in REL_SUBFAMILIES[tier]:
        for rel, ek in itertools.product(rels, eks):
            if cal is not None and cal.get((rel, ek)) is not None:
                continue
            for n, edges in sets[gset]:
                out.append({"n": n, "edges": [list(e) for e in edges], "ek": ek, "rk": "entry",
                            "rel": rel})
    return out


def label(m):
    more = "".join(f"/{k}={m[k]}" for k in ("order", "arch", "rel") if k in m)
    return f"{m['rk']}/{m['ek']}/n={m['n']}{more}/" + ",".join(f"{a}>{b}" for a, b in m["edges"])


def run_member(item):
    idx, m, base = item
    d = os.path.join(base, f"w{os.getpid()}")
    try:
        os.unlink(os.path.join(d, "out"))
    except OSError:
        pass
    argv = build(m, d)
    rc, msg = wildrun.server_link([*argv, "-o", "out"], cwd=d)
    if rc != 0:
        cls = f"rel={m['rel']}" if "rel" in m else m["rk"]
        return dict(idx=idx, viol=[(f"link-fails:{cls}:rc={rc}", f"link failed: {msg[-300:]}")],
                    stats={}, argv=argv)
    viol, stats = judge(argv, d, os.path.join(d, "out"))
    # One root cause = few keys: when the root section S0 itself is missing, everything behind it is
    # missing too and only the root is reported (keyed by root kind); otherwise the key names the
    # edge kind and the dropped section.
    if any(v[0] == "mark_0" for v in viol):
        viol = [(f"root-dropped:{m['rk']}", t) for mk, sn, t in viol if mk == "mark_0"]
    elif "rel" in m:
        viol = [(f"dropped:rel={m['rel']}:{m['ek']}", t) for mk, sn, t in viol]
    else:
        viol = [(f"dropped:{m['rk']}:{m['ek']}:{sn}", t) for mk, sn, t in viol]
    return dict(idx=idx, viol=viol, stats=stats, argv=argv)


# --------------------------------------------------------------------------------------------
# oracle 2: native walk, 64 graphs per program

WALKER = r"""
.section .text.walker,"ax",@progbits
.globl _start
_start:
    lea roots(%rip), %r12
    mov (%r12), %r13
    add $8, %r12
    lea outbuf(%rip), %r14
1:  test %r13, %r13
    jz 9f
    mov (%r12), %rdi
    call visit
    movabs $0x0a2d2d2d2d2d2d2d, %rax
    mov %rax, (%r14)
    add $8, %r14
    add $8, %r12
    dec %r13
    jmp 1b
9:  mov $1, %eax
    mov $1, %edi
    lea outbuf(%rip), %rsi
    mov %r14, %rdx
    sub %rsi, %rdx
    syscall
    mov $60, %eax
    xor %edi, %edi
    syscall
visit:
    cmpq $0, 8(%rdi)
    jne 3f
    movq $1, 8(%rdi)
    mov (%rdi), %rax
    mov %rax, (%r14)
    add $8, %r14
    push %rbx
    push %rbp
    mov %rdi, %rbx
    xor %ebp, %ebp
2:  cmp 16(%rbx), %rbp
    jae 4f
    mov 24(%rbx,%rbp,8), %rdi
    call visit
    inc %rbp
    jmp 2b
4:  pop %rbp
    pop %rbx
3:  ret
.section .bss.out,"aw",@nobits
outbuf: .skip 65536
.section .note.GNU-stack,"",@progbits
"""
PACK = 64


def build_native(graphs, ek, d):
    """graphs: list of (n, edges). Two objects holding every graph's sections (a.o: S0,S1 of each
    graph and the root table; b.o: S2,S3). -> (argv, expected stdout)."""
    os.makedirs(d, exist_ok=True)
    R_64 = RELOCS["x86_64"][0]
    owner = {0: 0, 1: 0, 2: 1, 3: 1}
    objs = [elfgen.ElfObject("x86_64"), elfgen.ElfObject("x86_64")]
    roots = []
    expected = b""
    for g, (n, edges) in enumerate(graphs):
        secs, named, local, secsym = {}, {}, {}, {}
        for i in range(n):
            o = objs[owner[i]]
            outs = [j for (a, j) in edges if a == i]
            data = b"\xcc" * HEAD + marker(i, f"{g:02d}") + bytes(8) + struct.pack("<Q", len(outs)) \
                + bytes(8 * len(outs))
            s = o.section(f".data.g{g}s{i}", flags=SHF_ALLOC | SHF_WRITE, align=8, data=data)
            secs[i] = s
            named[i] = o.symbol(f"n_{g}_{i}", section=s, value=HEAD, vis=STV_HIDDEN)
            local[i] = o.symbol(f".Ll_{g}_{i}", section=s, value=HEAD, bind=STB_LOCAL)
            secsym[i] = o.section_symbol(s)
        undef = {}
        for i in range(n):
            o = objs[owner[i]]
            for k, j in enumerate(j for (a, j) in edges if a == i):
                off = HEAD + 24 + 8 * k
                if owner[j] != owner[i]:
                    if (owner[i], j) not in undef:
                        undef[(owner[i], j)] = o.symbol(f"n_{g}_{j}", vis=STV_HIDDEN)
                    o.reloc(secs[i], off, R_64, undef[(owner[i], j)], 0)
                elif ek == "global":
                    o.reloc(secs[i], off, R_64, named[j], 0)
                elif ek == "local":
                    o.reloc(secs[i], off, R_64, local[j], 0)
                else:
                    o.reloc(secs[i], off, R_64, secsym[j], HEAD)
        roots.append(named[0])
        # depth-first order, successors in edge order
        seen, order = set(), []

        def visit(v):
            if v in seen:
                return
            seen.add(v)
            order.append(v)
            for (a, j) in edges:
                if a == v:
                    visit(j)
        visit(0)
        expected += b"".join(marker(v, f"{g:02d}") for v in order) + b"-------\n"
    o = objs[0]
    rt = o.section(".data.roots", flags=SHF_ALLOC | SHF_WRITE, align=8,
                   data=struct.pack("<Q", len(roots)) + bytes(8 * len(roots)))
    o.symbol("roots", section=rt, value=0, type=STT_OBJECT, size=8 + 8 * len(roots))
    for k, sym in enumerate(roots):
        o.reloc(rt, 8 + 8 * k, R_64, sym, 0)
    for ob in objs:
        ob.note_gnu_stack()
    objs[0].write(os.path.join(d, "a.o"))
    objs[1].write(os.path.join(d, "b.o"))
    walker = vlib.assemble(WALKER)
    return [THREADS, walker, "a.o", "b.o"], expected


def run_native(item):
    idx, graphs, ek, base = item
    d = os.path.join(base, f"n{os.getpid()}")
    argv, expected = build_native(graphs, ek, d)
    outs = {}
    viol = []
    for mode in ("--gc-sections", "--no-gc-sections"):
        exe = os.path.join(d, "prog" + mode)
        try:
            os.unlink(exe)
        except OSError:
            pass
        rc, msg = wildrun.server_link([mode, *argv, "-o", exe], cwd=d)
        if rc != 0:
            viol.append((f"native-link-fails:{mode}:rc={rc}", msg[-300:]))
            continue
        r, so, se = vlib.run([exe], timeout=20)
        outs[mode] = (r, so)
    if len(outs) == 2:
        gc, nogc = outs["--gc-sections"], outs["--no-gc-sections"]
        if nogc != (0, expected):
            return dict(idx=idx, viol=viol, machinery=f"--no-gc-sections program does not print the "
                        f"predicted walk: rc={nogc[0]} out={nogc[1][:80]!r}", runs=2)
        if gc != nogc:
            gl, nl = gc[1].split(b"-------\n"), nogc[1].split(b"-------\n")
            bad = [g for g in range(min(len(gl), len(nl))) if gl[g] != nl[g]]
            viol.append((f"native-differs:{ek}", f"rc={gc[0]}; graphs whose walk differs: {bad[:8]} "
                         f"e.g. gc={gl[bad[0]] if bad else gc[1][:40]!r} "
                         f"no-gc={nl[bad[0]] if bad else b''!r}"))
    return dict(idx=idx, viol=viol, runs=len(outs))


# --------------------------------------------------------------------------------------------

def replay(chk):
    """Re-run exactly the recorded member; prints the findings; exit 1 if the recorded key recurs."""
    with open(chk.args.replay) as f:
        doc = json.load(f)
    rp = doc["replay"]
    with vlib.scratch("c05r") as base:
        if "graphs" in rp:
            r = run_native((0, [(n, [tuple(e) for e in es]) for n, es in rp["graphs"]], rp["ek"], base))
            if r.get("machinery"):
                chk.machinery(r["machinery"])
        else:
            r = run_member((0, rp["member"], base))
            print("wild", " ".join(r["argv"]), "-o out   # model/observation:", r["stats"])
    for key, what in r["viol"]:
        print("FINDING", key, what)
    bad = any(key == doc["key"] for key, _ in r["viol"])
    print("REPRODUCED" if bad else "not reproduced")
    sys.exit(1 if bad else 0)


def main():
    chk = vlib.Check("C05", "exploration")
    if not chk.args.no_build:
        vlib.build("wild")
    if chk.args.replay:
        return replay(chk)
    dummy_so()
    vlib.assemble(WALKER)
    with vlib.scratch("c05cal") as cbase:
        cal = calibrate(cbase)
    if not any(v is None for (rel, _ek), v in cal.items() if rel in VALUELESS):
        chk.machinery(f"calibration left no valueless relocation kind to judge: {cal}")
    ms = members(chk.tier, cal)
    if chk.seed:
        import random
        random.Random(chk.seed).shuffle(ms)
    per_root = {rk: dict(members=0, reachable_sections_judged=0, members_where_gc_dropped_something=0)
                for rk in ROOT_KINDS}
    per_rel = {}
    nontrivial = 0
    judged = 0
    with vlib.scratch("c05") as base:
        results = wildrun.pmap(run_member, [(i, m, base) for i, m in enumerate(ms)])
        for r in results:
            m = ms[r["idx"]]
            st = r["stats"]
            pr = per_root[m["rk"]]
            if "rel" in m:
                pr = per_rel.setdefault(f"{m['rel']}/{m['ek']}", dict(
                    members=0, reachable_sections_judged=0, members_where_gc_dropped_something=0))
            pr["members"] += 1
            pr["reachable_sections_judged"] += st.get("live", 0)
            judged += st.get("live", 0)
            if st.get("dropped"):
                pr["members_where_gc_dropped_something"] += 1
            if st.get("live", 0) >= 2 and st.get("dropped"):
                nontrivial += 1
            seen = set()
            for key, what in r["viol"]:
                if key in seen:
                    continue
                seen.add(key)
                chk.violation(key, f"{label(m)}: {what}",
                              {"member": m, "argv": r["argv"] + ["-o", "out"],
                               "how": "python3 checks/c05.py --replay <this file> (objects are written "
                                      "by build() in checks/c05.py)"})
        # ---- native sub-family ---------------------------------------------------------------
        gs = list(graphs3()) + (list(graphs4())[0::2] if chk.thorough else [])
        items = []
        for ek in EDGE_KINDS:
            for k in range(0, len(gs), PACK):
                items.append((len(items), gs[k:k + PACK], ek, base))
        nres = wildrun.pmap(run_native, items)
        n_runs = 0
        for r in nres:
            it = items[r["idx"]]
            if r.get("machinery"):
                chk.machinery(r["machinery"])
            n_runs += r["runs"]
            for key, what in r["viol"]:
                chk.violation(key, what, {"graphs": [[n, [list(e) for e in es]] for n, es in it[1]],
                                          "ek": it[2]})
    for rk, pr in list(per_root.items()) + list(per_rel.items()):
        if pr["members"] and not pr["members_where_gc_dropped_something"]:
            chk.machinery(f"root/relocation kind {rk}: garbage collection never dropped a section "
                          f"(vacuous)")
    chk.coverage = {
        "evaluations": len(ms) + sum(len(i[1]) for i in items),
        "distinct_nontrivial": nontrivial,
        "rule": "members = union of the full products " +
                "; ".join(f"[{name}]" for name, *_ in SUBFAMILIES[chk.tier] + REL_SUBFAMILIES[chk.tier]) +
                " (relocation kinds: one relocation of that type per edge; valueless = kinds for which "
                "wild's layout::resolution_flags is empty: " + ", ".join(VALUELESS) + "; a (kind, symbol "
                "kind) pair is only a member when GNU ld (x86-64) and ld.lld with --gc-sections both "
                "keep the target on a calibration graph)" +
                " where g3 = all 512 edge sets on 3 sections incl. self-loops, g4 = all 4096 loop-free "
                "edge sets on 4 sections; edge kind = relocation against named global / local symbol / "
                "section symbol + offset; distinct_nontrivial = members whose closure has >= 2 sections and in which wild "
                "actually discarded at least one unreachable section; native sub-family: " +
                ("g3 and g4" if chk.thorough else "g3") + " x edge kind, 64 graphs per program, each program "
                "linked with --gc-sections and --no-gc-sections and run",
        "members": len(ms), "links": len(ms) + 2 * len(items),
        "reachable_sections_judged": judged,
        "per_root_kind": per_root,
        "per_relocation_kind": per_rel,
        "relocation_kinds_judged": sorted(f"{r}/{e}" for (r, e), v in cal.items() if v is None),
        "relocation_kinds_excluded_by_calibration": {f"{r}/{e}": v for (r, e), v in cal.items()
                                                     if v is not None},
        "calibration_subprocesses": sum(2 if REL_KINDS[r][0] == "x86_64" else 1 for r, _e in cal),
        "native_programs": len(items), "native_graphs": sum(len(i[1]) for i in items),
        "native_runs": n_runs,
        "subprocesses": n_runs + sum(2 if REL_KINDS[r][0] == "x86_64" else 1 for r, _e in cal),
        "samples": [ms[0], ms[len(ms) // 2], ms[-1], label(ms[len(ms) // 3])],
        "exhaustive": True,
    }
    chk.assumptions = [
        "edges are R_X86_64_64 (writable sections) / R_X86_64_PC32 relocations (AArch64 sub-family: "
        "R_AARCH64_ABS64 / R_AARCH64_PREL32); AArch64 outputs are only inspected statically",
        "sections outside the model's closure are not judged (they may be kept)",
        "the export-dynamic root kind is a PIE dynamically linked against a shared object",
        "relocation-kind members are static non-PIE links with the entry root; AArch64 kinds are "
        "calibrated against ld.lld only (GNU ld here is x86-64 only); instruction bytes around a "
        "relocated field are valid encodings but the programs are never run",
    ]
    chk.finish()


if __name__ == "__main__":
    main()
