#!/usr/bin/env python3
"""C06 - Output bytes are deterministic.

Three exhaustive enumerations over a small corpus of programs built so that every order-sensitive
mechanism has at least two elements to order:
  (configurations) threads x files-per-group x --wild-experiments x mmap/no-mmap output,
  (histories)      prior state of the output path x write mode x threads,
  (schedules)      every schedule within the deviation bound of the regions resolve / gc / merge
                   under the controlled scheduler.
Oracle: the output file is byte-identical to the single-thread baseline of the same program."""
import itertools
import os
import shutil
import subprocess
import sys

sys.path.insert(0, os.path.join(os.path.dirname(os.path.abspath(__file__)), "..", "lib"))
import vlib
import wsched
import wildrun
from progs import func_obj, multi_func_obj, graph_program
from c40 import str_obj


def corpus():
    c = {}
    # Cross references among 5 objects + an archive whose members are pulled in transitively.
    c["graph"] = dict(objs=[
        ("main.o", func_obj("_start", ["fa", "fb", "m1"])),
        ("a.o", func_obj("fa", ["fc1", "wk"]) + ".weak wk\n"),
        ("b.o", func_obj("fb", ["fc2", "fa"])),
        ("c.o", multi_func_obj([("fc1", []), ("fc2", ["fd"])])),
        ("d.o", func_obj("fd", ["fa"]))],
        archive=("libm.a", [("m1.o", func_obj("m1", ["m2"])), ("m2.o", func_obj("m2", ["fc1"])),
                            ("m3.o", func_obj("m3", []))]),
        extra=["--build-id=fast"])
    # Mergeable strings split over several groups, two output string sections.
    c["strings"] = dict(objs=[
        ("m.o", ".globl _start\n.text\n_start:\n call use_p\n call use_q\n call use_r\n ret\n"),
        ("s1.o", str_obj("s", 70, "p")),
        ("s2.o", str_obj("s", 50, "q")),
        ("s3.o", str_obj("u", 40, "r", section=".rodata.str1.8"))],
        extra=["--build-id=fast"])
    # A shared object with 40 dynamic symbols (hash tables, dynsym order), weak undefined refs.
    syms = [f"exp{i}" for i in range(40)]
    half = len(syms) // 2
    c["shared"] = dict(objs=[
        ("x.o", "".join(func_obj(s, [f"und{i % 5}"]) + f".weak und{i % 5}\n"
                        for i, s in enumerate(syms[:half]))),
        ("y.o", "".join(func_obj(s, [f"und{i % 3}"]) + f".weak und{i % 3}\n"
                        for i, s in enumerate(syms[half:])))],
        extra=["-shared", "--build-id=fast", "--hash-style=both"])
    # Exported symbols whose 32-bit GNU hashes collide pairwise ("..az.." / "..bY.." have equal
    # dl_new_hash), defined in different objects and made dynamic in different ways: any order
    # among equal (bucket, hash) keys that is left to arrival order shows in .dynsym / .gnu.hash.
    pairs = [(f"k{i}_az", f"k{i}_bY") for i in range(4)] + [("azq", "bYq")]
    xa = [p[i % 2] for i, p in enumerate(pairs)]
    xb = [p[(i + 1) % 2] for i, p in enumerate(pairs)]
    c["collide"] = dict(objs=[
        ("ca.o", "".join(func_obj(s, [xb[(i + 1) % len(xb)]]) for i, s in enumerate(xa))),
        ("cb.o", "".join(func_obj(s, []) for s in xb))],
        extra=["-shared", "--build-id=fast", "--hash-style=gnu"])
    # The same pairs in a PIE, exported only because a shared library refers to them.
    c["collide-pie"] = dict(objs=[
        ("cm.o", func_obj("_start", [xa[0], xb[1], "dep_fn"])),
        ("ca2.o", "".join(func_obj(s, []) for s in xa)),
        ("cb2.o", "".join(func_obj(s, [xa[(i + 2) % len(xa)]]) for i, s in enumerate(xb)))],
        dso=("libdep.so", func_obj("dep_fn", [n for p in pairs for n in reversed(p)])),
        extra=["-pie", "--build-id=fast", "--hash-style=gnu", "--no-gc-sections"])
    return c


def materialise(name, spec, base):
    d = os.path.join(base, "in_" + name)
    objs = graph_program(spec["objs"], d)
    if "archive" in spec:
        aname, members = spec["archive"]
        mpaths = graph_program(members, d)
        apath = os.path.join(d, aname)
        if not os.path.exists(apath):
            subprocess.run(["ar", "rcD", aname, *mpaths], cwd=d, check=True)
        objs = objs + [aname]
    if "dso" in spec:
        sname, src = spec["dso"]
        spath = os.path.join(d, sname)
        if not os.path.exists(spath):
            (sobj,) = graph_program([(sname + ".o", src)], d)
            subprocess.run(["ld", "-shared", "-o", sname, sobj, "--hash-style=gnu"], cwd=d,
                           check=True)
        objs = objs + [sname]
    return d, objs


EXPERIMENTS = [None, "1,256,_,_", "4,256,1,1", "_,_,50,1000"]
THREADS = [1, 2, 3, 4, 8, 16]
FPG = [None, "1", "2"]
MMAP = [None, "--no-mmap-output-file"]


def config_run(item):
    d, objs, extra, threads, fpg, exp, mmap, out = item
    argv = [f"--threads={threads}", *extra, *objs, "-o", out]
    if exp:
        argv.insert(1, f"--wild-experiments={exp}")
    if mmap:
        argv.insert(1, mmap)
    env = {"WILD_FILES_PER_GROUP": fpg} if fpg else {}
    try:
        os.unlink(out)
    except OSError:
        pass
    rc, msg = wildrun.server_link(argv, cwd=d, env=env)
    return (threads, fpg, exp, mmap), rc, vlib.file_sha(out), msg[-200:]


PRIOR = ["absent", "empty", "truncated", "valid+tail", "random-same-size", "ff-double", "other-program",
         "readonly", "hardlinked"]
MODES = [None, "--update-in-place", "--no-update-in-place"]


def history_run(item):
    d, objs, extra, prior, mode, threads, workdir, baseline_path, other_path = item
    os.makedirs(workdir, exist_ok=True)
    out = os.path.join(workdir, "out")
    twin = os.path.join(workdir, "twin")
    for p in (out, twin):
        try:
            os.chmod(p, 0o644)
        except OSError:
            pass
        try:
            os.unlink(p)
        except OSError:
            pass
    base_bytes = open(baseline_path, "rb").read()
    n = len(base_bytes)
    if prior == "empty":
        open(out, "wb").close()
    elif prior == "truncated":
        open(out, "wb").write(base_bytes[: n // 2])
    elif prior == "valid+tail":
        open(out, "wb").write(base_bytes + b"\xaa" * 4096)
    elif prior == "random-same-size":
        # Deterministic pseudo-random bytes (not a source of nondeterminism in the check).
        import hashlib
        blob = b"".join(hashlib.sha256(bytes([i & 255, i >> 8])).digest() for i in range(n // 32 + 1))
        open(out, "wb").write(blob[:n])
    elif prior == "ff-double":
        open(out, "wb").write(b"\xff" * (2 * n))
    elif prior == "other-program":
        shutil.copyfile(other_path, out)
    elif prior == "readonly":
        open(out, "wb").write(b"\x55" * n)
        os.chmod(out, 0o444)
    elif prior == "hardlinked":
        open(out, "wb").write(b"\x33" * n)
        os.link(out, twin)
    twin_before = vlib.file_sha(twin) if prior == "hardlinked" else None
    argv = [f"--threads={threads}", *extra, *objs, "-o", out]
    if mode:
        argv.insert(1, mode)
    rc, msg = wildrun.server_link(argv, cwd=d)
    sha = vlib.file_sha(out)
    twin_after = vlib.file_sha(twin) if prior == "hardlinked" else None
    return (prior, mode, threads), rc, sha, (twin_before, twin_after), msg[-200:]


def main():
    chk = vlib.Check("C06", "model_checking")
    if not chk.args.no_build:
        vlib.build("wild")
    C = corpus()
    n_cfg = n_hist = 0
    cfg_outcomes = set()
    per_sched = {}
    tot = dict(executions=0, states=0, transitions=0)
    samples = []
    with vlib.scratch("c06") as base:
        mats = {n: materialise(n, s, base) for n, s in C.items()}
        baselines = {}
        for name, (d, objs) in mats.items():
            bp = os.path.join(base, f"baseline_{name}")
            rc, msg = wildrun.server_link(["--threads=1", *C[name]["extra"], *objs, "-o", bp], cwd=d)
            if rc != 0:
                chk.machinery(f"baseline link of {name} failed: {msg[-300:]}")
            baselines[name] = (bp, vlib.file_sha(bp))
        # ---- configurations -----------------------------------------------------------------
        items = []
        for name, (d, objs) in mats.items():
            exps = EXPERIMENTS if (chk.thorough or name == "strings") else EXPERIMENTS[:2]
            for k, (t, f, e, m) in enumerate(itertools.product(THREADS, FPG, exps, MMAP)):
                if not chk.thorough and t in (3, 8) and name != "graph":
                    continue
                items.append((name, (d, objs, C[name]["extra"], t, f, e, m,
                                     os.path.join(base, f"cfg_{name}_{k}"))))
        results = vlib.pmap(_cfg_wrapper, items, procs=8)
        for (name, cfg, rc, sha, msg) in results:
            n_cfg += 1
            cfg_outcomes.add((name, rc, sha))
            if rc != 0 or sha != baselines[name][1]:
                t, f, e, m = cfg
                # Key by the axis that differs from the baseline configuration.
                axes = [a for a, v in (("threads", t != 1), ("files-per-group", f), ("experiments", e),
                                       ("no-mmap", m)) if v]
                chk.violation(f"config:{name}:{'+'.join(axes)}",
                              f"{name} cfg={cfg} rc={rc} sha={sha} baseline={baselines[name][1]} {msg}",
                              {"program": name, "config": cfg, "objects": C[name]["objs"],
                               "extra": C[name]["extra"]})
        samples.append({"kind": "configuration", "program": "strings",
                        "config": {"threads": 4, "WILD_FILES_PER_GROUP": "1",
                                   "--wild-experiments": "1,256,_,_", "mmap": False}})
        # ---- histories ----------------------------------------------------------------------
        hitems = []
        hprogs = list(mats) if chk.thorough else ["graph", "shared"]
        for name in hprogs:
            d, objs = mats[name]
            other = baselines["strings" if name != "strings" else "graph"][0]
            for k, (prior, mode, t) in enumerate(itertools.product(PRIOR, MODES, (1, 4))):
                hitems.append((name, (d, objs, C[name]["extra"], prior, mode, t,
                                      os.path.join(base, f"hist_{name}_{k}"), baselines[name][0],
                                      other)))
        hres = vlib.pmap(_hist_wrapper, hitems, procs=8)
        for (name, hist, rc, sha, twins, msg) in hres:
            n_hist += 1
            prior, mode, t = hist
            if rc == 0 and sha != baselines[name][1]:
                chk.violation(f"history:{name}:{prior}:{mode or 'default-mode'}",
                              f"prior={prior} mode={mode} threads={t}: link succeeded but output "
                              f"differs from baseline ({sha} vs {baselines[name][1]})",
                              {"program": name, "prior": prior, "mode": mode, "threads": t,
                               "objects": C[name]["objs"], "extra": C[name]["extra"]})
            if rc != 0 and prior not in ("readonly",):
                chk.violation(f"history-fails:{name}:{prior}:{mode or 'default-mode'}",
                              f"prior={prior} mode={mode} threads={t}: link failed: {msg}",
                              {"program": name, "prior": prior, "mode": mode, "threads": t})
        samples.append({"kind": "history", "prior": "random-same-size", "mode": "--update-in-place",
                        "threads": 4})
        # ---- schedules ----------------------------------------------------------------------
        bound = 2 if chk.thorough else 1
        plan = [("graph", "resolve", bound + 1, 16), ("graph", "gc", bound, 16),
                ("strings", "merge", 1, 28), ("shared", "gc", bound, 16)]
        if chk.thorough:
            plan += [("shared", "resolve", bound, 16), ("strings", "gc", bound, 16)]
        for name, region, b, threads in plan:
            d, objs = mats[name]
            extra = C[name]["extra"] + (["--wild-experiments=2,256"] if region == "merge" else [])
            cfg = dict(wild=vlib.WILD, cwd=d, regions=region, timeout=120,
                       argv=["--no-fork", f"--threads={threads}", *extra, *objs, "-o", "{out}"],
                       env={"WILD_FILES_PER_GROUP": "1"})
            b0 = wsched.run_execution(cfg, [], os.path.join(base, "b0"))
            if b0.rc != 0:
                chk.machinery(f"schedule baseline {name}/{region}: rc={b0.rc} {b0.stderr[-300:]}")
            oracle = _make_sched_oracle(b0.out_sha)
            st = wsched.explore(cfg, b, "deviation", oracle, time_cap=300 if chk.thorough else 40,
                                base=os.path.join(base, f"x_{name}_{region}"))
            if st["machinery"]:
                chk.machinery(f"{name}/{region}: {st['machinery']}")
            per_sched[f"{name}/{region}/deviation/{b}"] = {
                "capped": st["capped"], "executions": st["executions"], "states": st["n_states"],
                "transitions": st["n_transitions"], "distinct_outputs": len(st["outcomes"]),
                "distinct_event_sequences": st["n_event_sequences"], "wall_s": round(st["wall"], 1)}
            tot["executions"] += st["executions"]
            tot["states"] += st["n_states"]
            tot["transitions"] += st["n_transitions"]
            samples.extend({"kind": "schedule", "program": name, "region": region, **s}
                           for s in st["samples"][:1])
            seen = set()
            for vkey, what, prefix in st["violations"]:
                if vkey in seen:
                    continue
                seen.add(vkey)
                _, same = wsched.replay_twice(cfg, prefix, os.path.join(base, "rt"))
                if not same:
                    chk.machinery(f"{name}/{region}: schedule {prefix} not deterministic on replay")
                chk.violation(f"schedule:{name}:{region}:{vkey}", what,
                              {"program": name, "region": region, "schedule": prefix,
                               "argv": cfg["argv"], "env": cfg["env"], "objects": C[name]["objs"]})
    chk.coverage = {
        "states": max(1, tot["states"]), "transitions": max(1, tot["transitions"]),
        "traces_validated_against_impl": tot["executions"],
        "configurations_run": n_cfg, "histories_run": n_hist,
        "schedule_executions": tot["executions"], "per_schedule_exploration": per_sched,
        "programs": len(C), "program_names": list(C), "samples": samples,
        "phases_schedule_explored": ["resolve symbols", "find required sections", "merge strings"],
        "phases_config_only": ["open input files", "symbol db population", "section resolution",
                               "size finalisation", "writing"],
        "exhaustive": all(p["capped"] is None for p in per_sched.values()),
        "explanation": "configuration product and history product are enumerated in full for the "
                       "stated axes (quick tier thins threads {3,8} on two programs and the "
                       "experiments axis); schedules: real wild under the controlled scheduler",
    }
    chk.assumptions = ["sequentially consistent interleavings only",
                       "par_iter-only phases have no scheduling points: covered by the "
                       "configuration sweep only"]
    chk.finish()


def _cfg_wrapper(item):
    name, args = item
    cfg, rc, sha, msg = config_run(args)
    return name, cfg, rc, sha, msg


def _hist_wrapper(item):
    name, args = item
    hist, rc, sha, twins, msg = history_run(args)
    return name, hist, rc, sha, twins, msg


def _make_sched_oracle(expect_sha):
    def oracle(x):
        if x.rc in (wsched.EXIT_DEADLOCK, wsched.EXIT_HORIZON):
            return [("nontermination", f"exit={x.rc}")]
        if x.rc != 0:
            return [("link-failed", f"exit={x.rc} {x.stderr[-300:]}")]
        if x.out_sha != expect_sha:
            return [("output-differs", f"sha={x.out_sha} expected {expect_sha}")]
        return []
    return oracle


if __name__ == "__main__":
    main()
