#!/usr/bin/env python3
"""C07 - String merging preserves every referenced string (programs part).

Bounded-exhaustive family, every member linked by the real wild (server mode) three times:
`--wild-experiments=1,256,_,_`, `--wild-experiments=2,256,_,_` (256-byte merge groups, so that
`split_sections` cuts inside input sections) and `--no-string-merge`.

  member   = (ordered sequence of <= N strings over the 7-string pool)            [N: quick 3, thorough 4]
             x (every way of cutting the sequence into 1..3 contiguous input sections, one object each)
             -- every ordering of every multiset of the pool is therefore a member --
           + by-stander variants on the sub-family of sequences <= N-1 (extra section placed after the
             first string section; thorough: also before it): `.rodata.str1.8` (align 8, strings padded to 8),
             `.rodata.cst8` entsize 8 with align 8, and the same with align 1 (the only form wild merges)
           + unterminated variants (final NUL of the last section dropped), counted separately
           + an AArch64 sub-family (sequences <= 2, every cut; R_AARCH64_ABS64 words)
           + a gas-assembled sub-family (sequences <= 2, one section) where the references are written
             as `.quad .Lx` / `.quad .Lx+a` / `.quad sym+a` and the assembler chooses the record.
  per string occurrence, all reference shapes are packed into the same program as R_X86_64_64 words of
  a kept data section: named global +0 / +a, section symbol + offset of the start / + offset into the
  middle, local (.L-like) symbol +0 / +a, named global defined in the middle of the string +0;
  a ranges over {1, len/2, len-1, len} and every a that lands on bytes 255/0/1 of a 256-byte block.

Oracle (no linker involved): the objects are read back with elfread; for every relocation record the
expected value is the input section's bytes from S+A up to and including the NUL. In the output
(static non-PIE), the relocated word is read from the image and the bytes at that address up to the
NUL must be equal; every distinct input string must occur in the output `.rodata`; the three links of
a member must give the same per-reference strings.
Unterminated members: the link must fail, or else every reference must still see its input bytes
(up to the NUL, or up to the end of the input section for the unterminated tail)."""
import itertools
import json
import os
import struct
import sys

sys.path.insert(0, os.path.join(os.path.dirname(os.path.abspath(__file__)), "..", "lib"))
import vlib
import wildrun
import elfread
import elfgen
from elfgen import (SHF_ALLOC, SHF_WRITE, SHF_EXECINSTR, SHF_MERGE, SHF_STRINGS, STB_LOCAL, STB_GLOBAL,
                    STT_OBJECT, STT_FUNC, STT_NOTYPE)

POOL = ["", "a", "ba", "cba", "a" * 255, "a" * 256, "b" * 300]
POOL_NAMES = ["e", "a", "ba", "cba", "a255", "a256", "b300"]
R_X86_64_64 = 1
R_AARCH64_ABS64 = 257
ABS64 = {"x86_64": R_X86_64_64, "aarch64": R_AARCH64_ABS64}
RET = {"x86_64": b"\xc3" + b"\x90" * 7, "aarch64": bytes.fromhex("c0035fd6") + bytes.fromhex("1f2003d5")}
MODES = ["P1", "P2", "nomerge"]
THREADS = "--threads=2"     # 16 workers x 16 rayon threads each only adds wake-up cost
MODE_ARGS = {"P1": [THREADS, "--wild-experiments=1,256,_,_"],
             "P2": [THREADS, "--wild-experiments=2,256,_,_"],
             "nomerge": [THREADS, "--no-string-merge"]}
EXTRAS = [None, "str1.8", "cst8a8", "cst8a1"]
# Content of the by-stander sections.
STR8 = ["ba", "a" * 255, "cba", "zz"]
CST8 = [struct.pack("<Q", 0x0101010101010101 * (i + 1) ^ 0x00ff00ff00ff00ff) for i in range(33)]


# --------------------------------------------------------------------------------------------
# family

def sequences(maxlen):
    for n in range(1, maxlen + 1):
        yield from itertools.product(range(len(POOL)), repeat=n)


def splits(seq):
    """Every way to cut seq into 1..3 contiguous non-empty sections."""
    n = len(seq)
    for k in range(1, min(3, n) + 1):
        for cuts in itertools.combinations(range(1, n), k - 1):
            b = (0,) + cuts + (n,)
            yield [list(seq[b[i]:b[i + 1]]) for i in range(k)]


def addends(off, length):
    """Offsets into a string of `length` bytes (excluding NUL) that starts at section offset `off`:
    1, middle, last byte, the NUL, and everything that lands on byte 255 / 0 / 1 of a block."""
    a = {1, length // 2, length - 1, length}
    a |= {x for x in range(1, length + 1) if (off + x) % 256 in (255, 0, 1)}
    return sorted(x for x in a if 1 <= x <= length)


def string_object(k, idxs, unterminated=False, secname=".rodata.str1.1", align=1, pad8=False,
                  strings=None, tag="s", arch="x86_64"):
    """One object: a mergeable string section built from pool indices `idxs` (or explicit
    `strings`) + `.data.refs` holding one absolute 64-bit word per reference."""
    o = elfgen.ElfObject(arch)
    strs = strings if strings is not None else [POOL[i] for i in idxs]
    data = bytearray()
    starts = []
    for s in strs:
        if pad8:
            data += bytes(-len(data) % 8)
        starts.append(len(data))
        data += s.encode() + b"\0"
    if unterminated:
        assert data[-1] == 0
        del data[-1]
    sec = o.section(secname, flags=SHF_ALLOC | SHF_MERGE | SHF_STRINGS, align=align,
                    data=bytes(data), entsize=1)
    refs = []       # (symbol, addend)
    secsym = o.section_symbol(sec)
    for j, (s, off) in enumerate(zip(strs, starts)):
        ln = len(s)
        if unterminated and j == len(strs) - 1:
            ln -= 1     # there is no NUL to point at
        g = o.symbol(f"g{tag}{k}_{j}", section=sec, value=off, type=STT_OBJECT, size=len(s) + 1)
        loc = o.symbol(f".L{tag}{k}_{j}", section=sec, value=off, bind=STB_LOCAL)
        refs += [(g, 0), (secsym, off), (loc, 0)]
        for a in addends(off, ln):
            m = o.symbol(f"m{tag}{k}_{j}_{a}", section=sec, value=off + a)
            refs += [(g, a), (secsym, off + a), (loc, a), (m, 0)]
    add_refs(o, f"refs_{tag}{k}", refs, arch)
    return o


def cst_object(align):
    o = elfgen.ElfObject("x86_64")
    sec = o.section(".rodata.cst8", flags=SHF_ALLOC | SHF_MERGE, align=align, data=b"".join(CST8),
                    entsize=8)
    secsym = o.section_symbol(sec)
    refs = []
    for j in (0, 1, 16, 31, 32):
        g = o.symbol(f"c_{j}", section=sec, value=8 * j, type=STT_OBJECT, size=8)
        refs += [(g, 0), (secsym, 8 * j)]
    add_refs(o, "refs_x", refs)
    return o


def add_refs(o, name, refs, arch="x86_64"):
    rs = o.section(".data.refs", flags=SHF_ALLOC | SHF_WRITE, align=8, data=bytes(8 * len(refs)))
    o.symbol(name, section=rs, value=0, type=STT_OBJECT, size=8 * len(refs))
    for i, (sym, addend) in enumerate(refs):
        o.reloc(rs, 8 * i, ABS64[arch], sym, addend)
    o.note_gnu_stack()


def main_object(refnames, arch="x86_64"):
    o = elfgen.ElfObject(arch)
    code = RET[arch] + bytes(8 * len(refnames))
    t = o.section(".text", flags=SHF_ALLOC | SHF_EXECINSTR, align=16, data=code)
    o.symbol("_start", section=t, type=STT_FUNC, size=1)
    for i, n in enumerate(refnames):
        o.reloc(t, 8 + 8 * i, ABS64[arch], o.symbol(n), 0)
    o.note_gnu_stack()
    return o


def gas_object(idxs):
    """The same kind of object written in assembly: the assembler decides which record each
    reference becomes (`.quad .Lx` -> section symbol + offset; `.quad .Lx+a` -> symbol .Lx)."""
    lines = ['.section .rodata.str1.1,"aMS",@progbits,1']
    refs = []
    off = 0
    for j, i in enumerate(idxs):
        s = POOL[i]
        lines.append(f".globl gq0_{j}\ngq0_{j}:\n.Lq0_{j}:")
        if s:
            lines.append(f'.ascii "{s}"')
        lines.append(".byte 0")
        refs += [f"gq0_{j}", f".Lq0_{j}"]
        for a in addends(off, len(s)):
            refs += [f"gq0_{j}+{a}", f".Lq0_{j}+{a}"]
        off += len(s) + 1
    lines.append('.section .data.refs,"aw",@progbits\n.balign 8\n.globl refs_q0\nrefs_q0:')
    lines += [f".quad {r}" for r in refs]
    lines.append(".size refs_q0, .-refs_q0")
    lines.append('.section .note.GNU-stack,"",@progbits')
    return vlib.assemble("\n".join(lines) + "\n")


def members(tier):
    """-> list of member dicts (JSON-able)."""
    n = 4 if tier == "thorough" else 3
    out = []
    for seq in sequences(n):
        for secs in splits(seq):
            out.append({"kind": "base", "secs": secs})
    for seq in sequences(n - 1):
        for secs in splits(seq):
            for extra in EXTRAS[1:]:
                for pos in ((0, 1) if tier == "thorough" else (1,)):
                    out.append({"kind": "extra", "secs": secs, "extra": extra, "pos": pos})
    for seq in sequences(n - 1):
        if POOL[seq[-1]] == "":
            continue
        for secs in splits(seq):
            out.append({"kind": "unterminated", "secs": secs})
    for seq in sequences(2):
        out.append({"kind": "gas", "secs": [list(seq)]})
    # Dense blocks: many short distinct strings, so that far more than a dozen strings START within
    # one 256-byte block of the input (the offset map keeps a bounded number of starts per block
    # and spills the rest), each with references to its start, its middle and its NUL.
    for count, width in ((40, 3), (100, 3), (30, 1), (64, 2)) + \
            (((300, 2), (200, 5)) if tier == "thorough" else ()):
        out.append({"kind": "dense", "secs": [], "count": count, "width": width})
    for seq in sequences(2):
        for secs in splits(seq):
            out.append({"kind": "aarch64", "secs": secs})
    return out


def dense_strings(count, width):
    """`count` pairwise distinct strings of `width` printable characters (base 36, no NUL)."""
    digits = "0123456789abcdefghijklmnopqrstuvwxyz"
    out = []
    for i in range(count):
        t, x = "", i
        for _ in range(width):
            t = digits[x % 36] + t
            x //= 36
        out.append(t)
    assert len(set(out)) == count
    return out


def label(m):
    if m["kind"] == "dense":
        return f"dense {m['count']}x{m['width']}"
    s = "|".join("+".join(POOL_NAMES[i] for i in sec) for sec in m["secs"])
    if m["kind"] == "extra":
        s += f" extra={m['extra']}@{m['pos']}"
    elif m["kind"] != "base":
        s += " " + m["kind"]
    return s


def build(m, d):
    """Write the member's objects into d. -> (list of object file names in link order,
    list of (object file name, refs symbol))."""
    os.makedirs(d, exist_ok=True)
    objs, tables = [], []
    nsec = len(m["secs"])
    arch = "aarch64" if m["kind"] == "aarch64" else "x86_64"
    if m["kind"] == "dense":
        string_object(0, None, strings=dense_strings(m["count"], m["width"]),
                      arch=arch).write(os.path.join(d, "s0.o"))
        tables.append(("s0.o", "refs_s0"))
        objs.append("s0.o")
    for k, idxs in enumerate(m["secs"]):
        name = f"s{k}.o"
        if m["kind"] == "gas":
            with open(gas_object(idxs), "rb") as f:
                blob = f.read()
            with open(os.path.join(d, name), "wb") as f:
                f.write(blob)
            tables.append((name, "refs_q0"))
        else:
            unterminated = m["kind"] == "unterminated" and k == nsec - 1
            string_object(k, idxs, unterminated=unterminated, arch=arch).write(os.path.join(d, name))
            tables.append((name, f"refs_s{k}"))
        objs.append(name)
    if m["kind"] == "extra":
        if m["extra"] == "str1.8":
            e = string_object(0, None, secname=".rodata.str1.8", align=8, pad8=True, strings=STR8,
                              tag="x")
            tables.append(("e.o", "refs_x0"))
        else:
            e = cst_object(8 if m["extra"] == "cst8a8" else 1)
            tables.append(("e.o", "refs_x"))
        e.write(os.path.join(d, "e.o"))
        objs.insert(min(m["pos"], len(objs)), "e.o")
    main_object([t[1] for t in tables], arch).write(os.path.join(d, "main.o"))
    return ["main.o"] + objs, tables


# --------------------------------------------------------------------------------------------
# oracle

def expected_refs(path, table):
    """Read the object back; -> (list of refs in slot order, set of distinct complete strings of its
    string-merge sections). A ref is dict(shape, want bytes, terminated, ...)."""
    e = elfread.Elf(path)
    syms = e.symbols(".symtab")
    tsym = [s for s in syms if s.name == table][0]
    rsec = e.sections[tsym.shndx]
    refs = {}
    for r in e.relocations():
        if r.target_section_index != rsec.index:
            continue
        if r.type != ABS64["x86_64" if e.e_machine == elfread.EM_X86_64 else "aarch64"]:
            raise RuntimeError(f"{path}: unexpected relocation type {r.type}")
        s = syms[r.sym_index]
        if s.shndx == 0 or s.shndx >= 0xff00:
            raise RuntimeError(f"{path}: reference to undefined symbol {s.name}")
        tsec = e.sections[s.shndx]
        data = tsec.data
        is_str = bool(tsec.sh_flags & SHF_STRINGS)
        if s.type == elfread.STT_SECTION:
            base, off, kind = s.value + r.addend, s.value + r.addend, "sec"
        else:
            base, off = s.value, s.value + r.addend
            kind = "local" if s.bind == elfread.STB_LOCAL else "named"
        if not 0 <= off < len(data):
            raise RuntimeError(f"{path}: reference outside the section")
        if is_str:
            start = data.rfind(b"\0", 0, off) + 1
            end = data.find(b"\0", off)
            # GNU semantics for a named symbol: the symbol selects the string, the addend is applied
            # to the output address. Only references whose symbol and target lie in the same string
            # have the meaning the property states.
            if data.rfind(b"\0", 0, base) + 1 != start:
                raise RuntimeError(f"{path}: symbol and target in different strings")
            want = data[off:end + 1] if end >= 0 else data[off:]
            terminated = end >= 0
            at = "start" if off == start else "mid"
            if kind != "sec":
                at = ("start" if base == start else "symmid") + ("+0" if r.addend == 0 else "+a")
            last = end if end >= 0 else len(data) - 1
            blk = "crossblk" if start // 256 != last // 256 else "laterblk" if start >= 256 \
                else "sameblk"
            shape = f"{kind}:{at}:{blk}"
        else:
            want, terminated = data[off:off + 8], None
            shape = f"cst:{kind}"
        refs[r.offset // 8] = dict(shape=shape, want=want, terminated=terminated, off=off,
                                   sec=tsec.name, align=tsec.sh_addralign)
    n = tsym.size // 8
    if sorted(refs) != list(range(n)):
        raise RuntimeError(f"{path}: reference table has holes")
    distinct = set()
    for sec in e.sections:
        if sec.sh_flags & SHF_MERGE and sec.sh_flags & SHF_STRINGS:
            parts = sec.data.split(b"\0")
            distinct |= {p + b"\0" for p in parts[:-1]}
    return [refs[i] for i in range(n)], distinct


def read_cbytes(e, p, want_len):
    """Bytes at vaddr p up to and including the first NUL (at most want_len+64 bytes)."""
    for seg in e.segments:
        if seg.p_type == elfread.PT_LOAD and seg.p_vaddr <= p < seg.p_vaddr + seg.p_memsz:
            avail = seg.p_vaddr + seg.p_memsz - p
            buf = e.read_vaddr(p, min(avail, want_len + 64))
            i = buf.find(b"\0")
            return buf[:i + 1] if i >= 0 else buf
    return None


def observe(outpath, tables, exp):
    """-> (per-table list of observed byte strings (None = pointer outside the image), rodata bytes,
    the pointers relative to the lowest one) or an error string."""
    try:
        e = elfread.Elf(outpath)
        if e.e_type != elfread.ET_EXEC:
            return f"output is not ET_EXEC (e_type={e.e_type})"
        symaddr = {s.name: s.value for s in e.symbols(".symtab") if s.shndx != 0}
        obs, ptrs = [], []
        for (objname, table), refs in zip(tables, exp):
            if table not in symaddr:
                return f"symbol {table} missing from the output .symtab"
            base = symaddr[table]
            row = []
            for i, r in enumerate(refs):
                p = e.read_u64(base + 8 * i)
                ptrs.append(p)
                if r["terminated"] is None:
                    try:
                        row.append(e.read_vaddr(p, 8))
                    except elfread.ElfError:
                        row.append(None)
                else:
                    row.append(read_cbytes(e, p, len(r["want"])))
            obs.append(row)
        ro = e.section(".rodata")
        rodata = ro.data if ro is not None else b""
        lo = min(ptrs) if ptrs else 0
        return obs, rodata, [p - lo for p in ptrs]
    except (elfread.ElfError, struct.error, IndexError) as ex:
        return f"unreadable output: {ex}"


def run_member(item):
    """Worker. -> dict(results per mode, refs evaluated, ...)."""
    idx, m, base = item
    d = os.path.join(base, f"m{os.getpid()}")
    objs, tables = build(m, d)
    res = {"idx": idx, "viol": [], "nrefs": 0, "shapes": set(), "rc": {}, "cst_bad": 0}
    try:
        exp = []
        distinct = set()
        for objname, table in tables:
            refs, dist = expected_refs(os.path.join(d, objname), table)
            exp.append(refs)
            if objname != "e.o":
                distinct |= dist
    except RuntimeError as ex:
        res["machinery"] = str(ex)
        return res
    unterminated = m["kind"] == "unterminated"
    seen, layout = {}, {}
    for mode in MODES:
        out = os.path.join(d, "out." + mode)
        try:
            os.unlink(out)
        except OSError:
            pass
        emu = ["-m", "aarch64linux"] if m["kind"] == "aarch64" else []
        rc, msg = wildrun.server_link([*emu, *MODE_ARGS[mode], *objs, "-o", out], cwd=d)
        res["rc"][mode] = rc
        if rc != 0:
            if unterminated and rc == 1 and "not null-terminated" in msg:
                continue        # rejected: allowed
            if unterminated and rc == 1:
                res.setdefault("unterm_other_msgs", []).append(msg[-200:])
                continue
            res["viol"].append((f"link-fails:{mode}:rc={rc}", f"link failed: {msg[-300:]}"))
            continue
        ob = observe(out, tables, exp)
        if isinstance(ob, str):
            res["viol"].append((f"output:{mode}:{ob.split(':')[0][:40]}", ob))
            continue
        obs, rodata, relptrs = ob
        seen[mode] = obs
        layout[mode] = relptrs
        for (objname, table), refs, row in zip(tables, exp, obs):
            for i, (r, got) in enumerate(zip(refs, row)):
                if r["terminated"] is None:          # by-stander constants: not part of the property
                    if got != r["want"]:
                        res["cst_bad"] += 1
                    continue
                res["nrefs"] += 1
                res["shapes"].add((mode, r["shape"]))
                if r["terminated"]:
                    ok = got == r["want"]
                else:
                    ok = got is not None and got[:len(r["want"])] == r["want"]
                if not ok:
                    where = "bystander-" + r["sec"] if objname == "e.o" else r["sec"]
                    key = f"ref:{mode}:{r['shape']}" + ("" if where == ".rodata.str1.1" else ":" + where)
                    if unterminated:
                        key = "unterminated-" + key
                    res["viol"].append((key, f"{objname} slot {i} ({r['shape']}, input offset "
                                        f"{r['off']}): expected {show(r['want'])} got {show(got)}"))
        if not unterminated:
            for s in sorted(distinct):
                if s not in rodata:
                    res["viol"].append((f"string-absent:{mode}:len={len(s) - 1}",
                                        f"input string {show(s)} does not occur in output .rodata"))
    if "nomerge" in seen and not unterminated:
        for mode in ("P1", "P2"):
            if mode in seen and seen[mode] != seen["nomerge"]:
                res["differs_from_nomerge"] = True
                res["viol"].append((f"merge-vs-nomerge:{mode}", "per-reference strings differ between "
                                    f"the {mode} link and the --no-string-merge link"))
    # Non-trivial member: merging moved at least one referenced byte relative to the others.
    res["rearranged"] = any(layout.get(mode) not in (None, layout.get("nomerge")) for mode in ("P1", "P2"))
    if m["kind"] == "aarch64":
        res["viol"] = [(k + ":aarch64", w) for k, w in res["viol"]]
    res["shapes"] = sorted(res["shapes"])
    return res


def show(b):
    if b is None:
        return "<pointer outside the image>"
    if len(b) > 24:
        return f"{bytes(b[:8])!r}..{bytes(b[-4:])!r}(len {len(b)})"
    return repr(bytes(b))


# --------------------------------------------------------------------------------------------

def replay(chk):
    """Re-run exactly the recorded member; prints the findings; exit 1 if the recorded key recurs."""
    with open(chk.args.replay) as f:
        doc = json.load(f)
    m = doc["replay"]["member"]
    with vlib.scratch("c07r") as base:
        r = run_member((0, m, base))
    if r.get("machinery"):
        chk.machinery(r["machinery"])
    print(label(m), "link status per mode:", r["rc"], "references judged:", r["nrefs"])
    for key, what in r["viol"]:
        print("FINDING", key, what)
    bad = any(key == doc["key"] for key, _ in r["viol"])
    print("REPRODUCED" if bad else "not reproduced")
    sys.exit(1 if bad else 0)


def main():
    chk = vlib.Check("C07", "exploration")
    if not chk.args.no_build:
        vlib.build("wild")
    if chk.args.replay:
        return replay(chk)
    ms = members(chk.tier)
    if chk.seed:
        import random
        random.Random(chk.seed).shuffle(ms)
    for m in ms:                     # assemble the gas sub-family once, outside the workers
        if m["kind"] == "gas":
            gas_object(m["secs"][0])
    n_links = n_refs = 0
    kinds = {}
    shapes = set()
    unterm = {"members": 0, "merge_links_rejected": 0, "merge_links_accepted_and_judged": 0,
              "nomerge_links_rejected": 0, "nomerge_links_accepted_and_judged": 0}
    cst_bad = 0
    differs = 0
    nontrivial = set()
    gas_shapes = set()
    with vlib.scratch("c07") as base:
        items = [(i, m, base) for i, m in enumerate(ms)]
        results = wildrun.pmap(run_member, items)
    for r in results:
        m = ms[r["idx"]]
        if r.get("machinery"):
            chk.machinery(f"{label(m)}: {r['machinery']}")
        kinds[m["kind"]] = kinds.get(m["kind"], 0) + 1
        n_links += len(r["rc"])
        n_refs += r["nrefs"]
        shapes |= {tuple(s) for s in r["shapes"]}
        cst_bad += r["cst_bad"]
        differs += bool(r.get("differs_from_nomerge"))
        if m["kind"] == "unterminated":
            unterm["members"] += 1
            for mode in MODES:
                k = "merge" if mode != "nomerge" else "nomerge"
                if r["rc"].get(mode) == 1:
                    unterm[k + "_links_rejected"] += 1
                elif r["rc"].get(mode) == 0:
                    unterm[k + "_links_accepted_and_judged"] += 1
            if r.get("unterm_other_msgs"):
                unterm.setdefault("rejected_with_other_message", []).append(r["unterm_other_msgs"][0])
        if r["nrefs"] and r.get("rearranged"):
            nontrivial.add(json.dumps(m, sort_keys=True))
        if m["kind"] == "gas":
            gas_shapes |= {s[1] for s in r["shapes"]}
        seen = set()
        for key, what in r["viol"]:
            if key in seen:
                continue
            seen.add(key)
            chk.violation(key, f"{label(m)}: {what}",
                          {"member": m, "how": "python3 checks/c07.py --replay <this file>; by hand: "
                           "the objects are written by build() in checks/c07.py, linked as "
                           "`wild --wild-experiments=P,256,_,_ main.o s0.o [s1.o s2.o] -o out`"})
    if unterm.get("rejected_with_other_message"):
        unterm["rejected_with_other_message"] = unterm["rejected_with_other_message"][:3]
    n = 4 if chk.thorough else 3
    chk.coverage = {
        "evaluations": n_refs,
        "distinct_nontrivial": len(nontrivial),
        "rule": f"every ordered sequence of 1..{n} strings over the pool {POOL_NAMES} x every cut into "
                f"1..3 input sections (one object each); by-stander variants (.rodata.str1.8 align 8, "
                f".rodata.cst8 align 8 / align 1, placed after the first string section"
                f"{' or before it' if chk.thorough else ''}) on sequences <= {n - 1}; "
                f"unterminated variants on sequences <= {n - 1}; gas-written references on sequences "
                f"<= 2; AArch64 objects on sequences <= 2; each member linked with P=1, P=2 (256-byte groups) and --no-string-merge; "
                f"evaluations = reference words judged; distinct_nontrivial = distinct members in "
                f"which merging moved at least one referenced byte relative to the others (pointer "
                f"layout of a merging link differs from the --no-string-merge link)",
        "members": len(ms), "members_by_kind": kinds, "links": n_links,
        "reference_shapes_seen": sorted({s[1] for s in shapes}),
        "mode_x_shape_classes": len(shapes),
        "reference_shapes_chosen_by_gas": sorted(gas_shapes),
        "unterminated": unterm,
        "bystander_constant_reference_mismatches": cst_bad,
        "members_where_merge_and_nomerge_strings_differ": differs,
        "samples": [ms[0], ms[len(ms) // 3], ms[-1], label(ms[len(ms) // 2])],
        "subprocesses": sum(1 for m in ms if m["kind"] == "gas"),
        "exhaustive": True,
        "explanation": "the schedules quantifier of C07 is covered by the wsched `merge` region "
                       "(C40 / C06); this check covers the programs quantifier",
    }
    chk.assumptions = [
        "references are R_X86_64_64 (sub-family: R_AARCH64_ABS64) words in a static non-PIE executable, "
        "read statically",
        "a named symbol + addend is only generated with symbol and target inside the same string "
        "(the only case in which GNU semantics and the property statement coincide)",
        "references to the by-stander .rodata.cst8 constants are observed and counted, not judged",
    ]
    chk.finish()


if __name__ == "__main__":
    main()
