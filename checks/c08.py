#!/usr/bin/env python3
"""C08 - Dynamic symbol hash tables find every exported symbol.

Bounded-exhaustive family (every member linked by the real wild through the in-process server):

  all subsets of a pool of 10 export names (quick: 8)  x  --hash-style {gnu, sysv, both}
  x  output kind {-shared, -pie --export-dynamic with a dynamic linker, thorough: -pie
  --export-dynamic without one (static-pie flavour)}  x  versioned duplicates {absent, f@V1 + f@@V2
  with a version script}  x  padding {0; thorough: 1, 33, 300 extra exported names, which also
  bring a TLS symbol at offset 0, an absolute symbol with value 0 and one with value 5}.

The pool is built so that it contains (properties asserted at start-up, see verify_pool):
  two names with identical dl_new_hash (found by brute force over 'g' + <=5 alphanumerics, first
  pair of different lengths), three names whose GNU hashes are distinct but congruent modulo
  lcm(1..8, 256) = 26880 (same bucket for every bucket count <= 8 and every power of two <= 256),
  a name sharing the low 16 hash bits (bloom word and both bloom bits for shift 6, <= 16 words)
  with one of them but not its residue modulo 840, two names with identical SysV hash (brute
  force, different lengths), a 1-character name and a 200-byte name containing bytes >= 0x80.

Oracle: a transcription of glibc 2.36 elf/dl-lookup.c do_lookup_x + check_match + _dl_setup_hash
(GNU path: bloom word, both bits, bucket, chain walk with ((chain ^ h) >> 1) == 0 and the
terminator bit; SysV path: bucket / chain walk; version matching through DT_VERSYM/DT_VERDEF incl.
vd_hash; "exactly one non-hidden version" rule for unversioned lookups), reading the output only
through its program headers and dynamic section, like the loader does.  Every access outside the
table's section is a fault (glibc would read foreign memory).  For every defined dynamic symbol:
found, and the found entry has the same name (and version, where versioned).  For >= 50 absent
names (pool names left out of the member, full-hash / SysV-hash colliders of present names,
off-by-one-bit neighbours, prefixes, and names searched per output to pass its bloom filter): no
entry is returned.  Structure: symoffset <= first defined symbol, the bucket chains partition
dynsym[symoffset..] exactly, every chain ends with the terminator bit inside the section, both bloom
bits set for every hashed symbol, SysV nchain == dynsym count and no cyclic chain.

Large tables (both tiers): outputs exporting the whole pool plus N generated names, N on both
sides of every power of two / u16 limit that a chunked or sharded writer could use (4095..4097,
8191..8193, 16385, 65535..65537; 1599/1601 = where wild's dynsym writer's chunk size
max(10, n/10/threads) leaves its floor with 16 threads; quick: 4097, 8191, 8192, 8193, 65537)
x hash style x {-shared, PIE}: EVERY defined dynamic symbol is looked up through every table and
the structural invariants are checked over the whole table (incl. terminator bit set exactly at
the last symbol of each bucket's run).

Second opinion (thorough): glibc itself.  The -shared members of the 8-name sub-pool (styles gnu
and sysv) are dlopen()ed by a small C host, 64 libraries per process, which dlsym()s / dlvsym()s
every expected name and the absent ones and prints the addresses; one more host run dlsym()s all
65537+ names of the largest library (styles gnu and sysv)."""
import hashlib
import itertools
import json
import os
import struct
import subprocess
import sys

sys.path.insert(0, os.path.join(os.path.dirname(os.path.abspath(__file__)), "..", "lib"))
import vlib
import wildrun
import elfread
import elfgen
from elfread import dl_new_hash, elf_hash

# ------------------------------------------------------------------------------------------ pool
LONG = "Lq" * 75 + "é" * 25            # 150 + 50 = 200 bytes, bytes >= 0x80 at the end
POOL = [
    ("g0", "gnu-collide-a"),                # dl_new_hash 0x005977bc
    ("gqgiuz", "gnu-collide-b"),            # dl_new_hash 0x005977bc (brute force, 2.7e8 candidates)
    ("b0", "bucket-a"),                     # 0x00597717  } congruent mod 26880, distinct h>>1
    ("b6Z", "bucket-b"),                    # 0x0b885b17  }
    ("bgsv", "bucket-c"),                   # 0x7c949217  }
    ("sv276998_2308", "sysv-collide-a"),    # elf_hash 0x0657ff88
    ("sv407827_12048", "sysv-collide-b"),   # elf_hash 0x0657ff88 (brute force over sv<i*7919%1000003>_<i>)
    ("x", "one-char"),
    ("makz_", "bloom-mate"),                # 0x0fea7717: low 16 bits of b0, different mod 840
    (LONG, "long200"),
]
ROLE = dict(POOL)
PAD_EXTRAS = ["tls0", "abs0", "abs5"]
STYLES = ["gnu", "sysv", "both"]
KIND_ARGS = {
    "shared": ["-shared"],
    "pie": ["-pie", "--export-dynamic", "--dynamic-linker", "/lib64/ld-linux-x86-64.so.2"],
    "spie": ["-pie", "--export-dynamic"],
}
LARGE_QUICK = [4097, 8191, 8192, 8193, 65537]      # 65537: --hash-style=both only
LARGE_THOROUGH = [1599, 1601, 4095, 4096, 4097, 8191, 8192, 8193, 16385, 65535, 65536, 65537]
VERSION_SCRIPT = "V1 { };\nV2 { } V1;\n"


def verify_pool():
    n = [p[0] for p in POOL]
    h = {x: dl_new_hash(x) for x in n}
    assert h["g0"] == h["gqgiuz"] and elf_hash("g0") != elf_hash("gqgiuz")
    tri = ["b0", "b6Z", "bgsv"]
    assert len({h[x] % 26880 for x in tri}) == 1 and len({h[x] >> 1 for x in tri}) == 3
    for nb in list(range(1, 9)) + [16, 32, 64, 128, 256]:
        assert len({h[x] % nb for x in tri}) == 1
    assert h["makz_"] & 0xffff == h["b0"] & 0xffff and h["makz_"] != h["b0"]
    assert h["makz_"] % 840 != h["b0"] % 840
    assert elf_hash("sv276998_2308") == elf_hash("sv407827_12048")
    assert dl_new_hash("sv276998_2308") != dl_new_hash("sv407827_12048")
    assert len(LONG.encode()) == 200 and len("x") == 1
    assert len(set(n)) == 10


def pad_names(k):
    return ["pad%03d" % i for i in range(k)]


def role_of(name):
    if name in ROLE:
        return ROLE[name]
    if name.startswith("pad"):
        return "pad"
    return "sym:" + name[:24]


# Absent names that are always tried (none of them is ever defined by a member).
def _sx(b):
    return b.decode("utf-8", "surrogateescape")


def fixed_absent():
    out = []
    for name, role in POOL:
        b = name.encode()
        if len(b) >= 2:
            # Full-hash colliders: (c[-2] + d, c[-1] - 33 d) keeps h * 33 + c (dl_new_hash);
            # (c[-2] + d, c[-1] - 16 d) keeps (h << 4) + c (SysV, while no high nibble overflows).
            for fn, step, tag in ((dl_new_hash, 33, "gnuhash="), (elf_hash, 16, "sysvhash=")):
                for d in (1, -1):
                    x, y = b[-2] + d, b[-1] - step * d
                    if 0 < x < 256 and 0 < y < 256:
                        nb = b[:-2] + bytes([x, y])
                        if fn(nb) == fn(b):
                            out.append((_sx(nb), tag + role))
            out.append((_sx(b[:-1]), "prefix=" + role))
        for d in (1, -1):                   # hash differs by exactly 1: the same chain word when
            nb = b[:-1] + bytes([b[-1] + d])  # only bit 0 changes
            out.append((_sx(nb), "neighbour=" + role))
        out.append((name + "_", "suffix=" + role))
    out += [("\x07\x08", "sysvhash=one-char"), ("f", "unversioned-f"), ("V1", "version-name"),
            ("V2", "version-name"), ("", "empty"), ("_star", "prefix=_start"),
            ("pad", "prefix=pad"), ("pad300", "pad-beyond"), ("tls", "prefix=tls0"),
            ("abs", "prefix=abs0")]
    seen, res = set(), []
    defined = {p[0] for p in POOL} | set(pad_names(300)) | set(PAD_EXTRAS) | {"_start"}
    for nm, cls in out:
        if nm in seen or nm in defined:
            continue
        seen.add(nm)
        res.append((nm, cls))
    return res


FIXED_ABSENT = fixed_absent()
# Candidates for the per-output bloom-positive search.
CAND = sorted({"q%x" % (i * 2654435761 % 1000003) for i in range(30000)})
CAND_H = [dl_new_hash(c) for c in CAND]


# --------------------------------------------------------------------------------------- inputs
def _obj(path, funcs=(), tls=(), abssyms=()):
    o = elfgen.ElfObject("x86_64")
    if funcs:
        t = o.section(".text", flags=elfgen.SHF_ALLOC | elfgen.SHF_EXECINSTR, align=1,
                      data=b"\xc3" * len(funcs))
        for i, n in enumerate(funcs):
            o.symbol(n, section=t, value=i, size=1, type=elfgen.STT_FUNC)
    if tls:
        td = o.section(".tdata", flags=elfgen.SHF_ALLOC | elfgen.SHF_WRITE | elfgen.SHF_TLS,
                       align=8, data=b"\1" * 8 * len(tls))
        for i, n in enumerate(tls):
            o.symbol(n, section=td, value=8 * i, size=8, type=elfgen.STT_TLS)
    for n, v in abssyms:
        o.symbol(n, section="abs", value=v, type=elfgen.STT_NOTYPE)
    o.note_gnu_stack()
    o.write(path)


def make_inputs(d, pads=(1, 33, 300)):
    os.makedirs(d, exist_ok=True)
    for i, (name, _role) in enumerate(POOL):
        _obj(os.path.join(d, f"p{i}.o"), [name])
    _obj(os.path.join(d, "start.o"), ["_start"])
    o = elfgen.ElfObject("x86_64")          # defines nothing global: keeps "no input files" away
    t = o.section(".text", flags=elfgen.SHF_ALLOC | elfgen.SHF_EXECINSTR, align=1, data=b"\xc3")
    o.symbol("nil_local", section=t, bind=elfgen.STB_LOCAL, type=elfgen.STT_FUNC, size=1)
    o.note_gnu_stack()
    o.write(os.path.join(d, "nil.o"))
    _obj(os.path.join(d, "ver.o"), ["f@V1", "f@@V2"])
    for k in pads:
        dst = os.path.join(d, f"pad{k}.o")
        if k < 1000:
            _obj(dst, pad_names(k), tls=["tls0"], abssyms=[("abs0", 0), ("abs5", 5)])
            continue
        # Large objects take seconds to generate: kept in the object cache (content is a pure
        # function of k and of this generator's version tag).
        os.makedirs(vlib.OBJCACHE, exist_ok=True)
        cached = os.path.join(vlib.OBJCACHE, f"c08pad{k}.v1.o")
        if not os.path.exists(cached):
            tmp = cached + f".{os.getpid()}"
            _obj(tmp, pad_names(k), tls=["tls0"], abssyms=[("abs0", 0), ("abs5", 5)])
            os.replace(tmp, cached)
        if not os.path.exists(dst):
            os.symlink(cached, dst)
    with open(os.path.join(d, "v.map"), "w") as f:
        f.write(VERSION_SCRIPT)


def member_argv(m, out):
    mask, style, kind, pad, versioned = m
    # Members without padding have <= 14 dynamic symbols; wild's only thread-dependent quantity on
    # this path (dynsym writer chunk = max(10, n/10/threads)) is 10 for them at any thread count,
    # so they are linked with --threads=1 (twice the throughput: 16 servers do not fight for
    # cores). Everything else runs with wild's default thread count.
    argv = (["--threads=1"] if pad == 0 else []) + list(KIND_ARGS[kind]) + \
        [f"--hash-style={style}", "nil.o"]
    if kind != "shared":
        argv.append("start.o")
    argv += [f"p{i}.o" for i in range(len(POOL)) if mask >> i & 1]
    if pad:
        argv.append(f"pad{pad}.o")
    if versioned:
        argv += ["ver.o", "--version-script=v.map"]
    return argv + ["-o", out]


def member_expected(m):
    """Names the member exports (ground truth from the inputs): [(name, version or None)]."""
    mask, style, kind, pad, versioned = m
    exp = [(POOL[i][0], None) for i in range(len(POOL)) if mask >> i & 1]
    if kind != "shared":
        exp.append(("_start", None))
    if pad:
        exp += [(n, None) for n in pad_names(pad) + PAD_EXTRAS]
    if versioned:
        exp += [("f", "V1"), ("f", "V2")]
    return exp


# --------------------------------------------------------------- the loader's view of the output
class Fault(Exception):
    def __init__(self, kind, what):
        Exception.__init__(self, what)
        self.kind = kind


ALLOWED_STT = (1 << elfread.STT_NOTYPE | 1 << elfread.STT_OBJECT | 1 << elfread.STT_FUNC
               | 1 << elfread.STT_COMMON | 1 << elfread.STT_TLS | 1 << elfread.STT_GNU_IFUNC)


class Version:
    def __init__(self, name, hidden):
        self.name = name.encode()
        self.hash = elf_hash(name)
        self.hidden = hidden


class Loaded:
    """What ld.so sets up in the link_map (_dl_setup_hash, _dl_check_map_versions), plus the
    section bounds used to detect reads outside the tables."""

    def __init__(self, path):
        self.e = e = elfread.Elf(path)
        self.data = e.data
        dd = self.dd = e.dynamic_dict()
        if elfread.DT_SYMTAB not in dd or elfread.DT_STRTAB not in dd:
            raise Fault("no-dynsym", "no DT_SYMTAB / DT_STRTAB")
        self.symtab = self._off(dd[elfread.DT_SYMTAB], "DT_SYMTAB")
        self.strtab = self._off(dd[elfread.DT_STRTAB], "DT_STRTAB")
        self.strsz = dd.get(elfread.DT_STRSZ, 0)
        ds = e.section(".dynsym")
        if ds is None or ds.sh_addr != dd[elfread.DT_SYMTAB]:
            raise Fault("dynsym-section", "DT_SYMTAB does not point at .dynsym")
        self.nsyms = ds.sh_size // 24
        self.versym = None
        if elfread.DT_VERSYM in dd:
            self.versym = self._off(dd[elfread.DT_VERSYM], "DT_VERSYM")
            vs = e.section(".gnu.version")
            if vs is None or vs.sh_size != 2 * self.nsyms:
                raise Fault("versym-size", ".gnu.version does not have one entry per dynsym")
        self.l_versions = {}
        self._setup_versions()
        self._syms = {}
        # _dl_setup_hash
        self.gnu = self.sysv = None
        if elfread.DT_GNU_HASH in dd:
            self._setup_gnu(dd[elfread.DT_GNU_HASH])
        if elfread.DT_HASH in dd:
            self._setup_sysv(dd[elfread.DT_HASH])

    def _off(self, vaddr, what):
        o = self.e.vaddr_to_offset(vaddr)
        if o is None:
            raise Fault("unmapped", f"{what} {vaddr:#x} is not inside a file-backed PT_LOAD")
        return o

    def _setup_versions(self):
        dd = self.dd
        if elfread.DT_VERDEF in dd:
            pos = self._off(dd[elfread.DT_VERDEF], "DT_VERDEF")
            for _ in range(dd.get(elfread.DT_VERDEFNUM, 0)):
                ver, flags, ndx, cnt, vhash, aux, nxt = struct.unpack_from("<HHHHIII", self.data, pos)
                if not flags & elfread.VER_FLG_BASE:
                    (vda_name, _n) = struct.unpack_from("<II", self.data, pos + aux)
                    self.l_versions[ndx & 0x7fff] = (vhash, self.cstr(vda_name))
                if not nxt:
                    break
                pos += nxt

    def cstr(self, off):
        a = self.strtab + off
        z = self.data.find(b"\0", a)
        return self.data[a:z]

    def sym(self, i):
        s = self._syms.get(i)
        if s is None:
            if not 0 <= i < self.nsyms:
                raise Fault("symidx-out-of-range", f"symbol index {i} >= dynsym count {self.nsyms}")
            st_name, info, other, shndx, value, size = struct.unpack_from(
                "<IBBHQQ", self.data, self.symtab + 24 * i)
            s = self._syms[i] = (self.cstr(st_name), info, shndx, value)
        return s

    def versym_at(self, i):
        return struct.unpack_from("<H", self.data, self.versym + 2 * i)[0]

    def version_of(self, i):
        """(version name bytes or None, hidden)."""
        if self.versym is None:
            return None, False
        v = self.versym_at(i)
        if v & 0x7fff < 2:
            return None, bool(v & 0x8000)
        return self.l_versions.get(v & 0x7fff, (0, b"?undefined-version-index"))[1], bool(v & 0x8000)

    # ---- _dl_setup_hash
    def _setup_gnu(self, vaddr):
        sec = self.e.section(".gnu.hash")
        if sec is None or sec.sh_addr != vaddr:
            raise Fault("gnu-hash-section", "DT_GNU_HASH does not point at .gnu.hash")
        base = self._off(vaddr, "DT_GNU_HASH")
        end = base + sec.sh_size
        if sec.sh_size < 16:
            raise Fault("gnu-hash-truncated", f".gnu.hash has {sec.sh_size} bytes")
        nbuckets, symbias, bitmask_nwords, shift = struct.unpack_from("<4I", self.data, base)
        self.gnu = dict(nbuckets=nbuckets, symbias=symbias, nwords=bitmask_nwords, shift=shift,
                        bitmask=base + 16, buckets=base + 16 + 8 * bitmask_nwords,
                        chain0=base + 16 + 8 * bitmask_nwords + 4 * nbuckets - 4 * symbias,
                        chain_begin=base + 16 + 8 * bitmask_nwords + 4 * nbuckets, end=end)

    def _setup_sysv(self, vaddr):
        sec = self.e.section(".hash")
        if sec is None or sec.sh_addr != vaddr:
            raise Fault("sysv-hash-section", "DT_HASH does not point at .hash")
        base = self._off(vaddr, "DT_HASH")
        if sec.sh_size < 8:
            raise Fault("sysv-hash-truncated", f".hash has {sec.sh_size} bytes")
        nbucket, nchain = struct.unpack_from("<2I", self.data, base)
        self.sysv = dict(nbucket=nbucket, nchain=nchain, buckets=base + 8,
                         chain=base + 8 + 4 * nbucket, end=base + sec.sh_size)

    def _u32(self, off, lo, hi, what):
        if off < lo or off + 4 > hi:
            raise Fault("read-outside-table", f"{what}: read at file offset {off:#x} outside "
                        f"[{lo:#x},{hi:#x})")
        return struct.unpack_from("<I", self.data, off)[0]

    # ---- check_match (elf/dl-lookup.c)
    def check_match(self, name, version, newest, type_class, symidx, st):
        sname, info, shndx, value = self.sym(symidx)
        stt = info & 0xf
        if (value == 0 and shndx != elfread.SHN_ABS and stt != elfread.STT_TLS) \
                or (type_class & (shndx == elfread.SHN_UNDEF)):
            return None
        if not (1 << stt) & ALLOWED_STT:
            return None
        if sname != name:
            st["strcmp_rejects"] += 1
            return None
        if version is not None:
            if self.versym is not None:
                v = self.versym_at(symidx)
                lh, ln = self.l_versions.get(v & 0x7fff, (0, None))
                if (lh != version.hash or ln != version.name) and \
                        (version.hidden or lh or (v & 0x8000)):
                    return None
        elif self.versym is not None:
            v = self.versym_at(symidx)
            if (v & 0x7fff) >= (2 if newest else 3):
                if not v & 0x8000:
                    if st["num_versions"] == 0:
                        st["versioned_sym"] = symidx
                    st["num_versions"] += 1
                return None
        return symidx

    # ---- do_lookup_x for one map
    def lookup(self, table, name, version=None, newest=True, type_class=1, stats=None):
        """-> dynsym index or None. table: 'gnu' | 'sysv' (which of the map's tables to use; glibc
        itself prefers DT_GNU_HASH when both exist)."""
        st = {"num_versions": 0, "versioned_sym": None, "strcmp_rejects": 0, "steps": 0,
              "bloom_pass": False}
        try:
            return self._lookup(table, name, version, newest, type_class, st)
        finally:
            if stats is not None:
                stats["strcmp_rejects"] = stats.get("strcmp_rejects", 0) + st["strcmp_rejects"]
                stats["chain_steps"] = stats.get("chain_steps", 0) + st["steps"]
                stats["max_walk"] = max(stats.get("max_walk", 0), st["steps"])
                if st["bloom_pass"]:
                    stats["bloom_pass"] = stats.get("bloom_pass", 0) + 1

    def _lookup(self, table, name, version, newest, type_class, st):
        if table == "gnu":
            g = self.gnu
            if g["nbuckets"] == 0:
                return None                                   # "hash table is empty"
            if g["nwords"] & (g["nwords"] - 1) or g["nwords"] == 0:
                raise Fault("bloom-size-not-power-of-two", f"bitmask_nwords={g['nwords']}")
            h = dl_new_hash(name)
            if g["bitmask"] + 8 * g["nwords"] > g["end"]:
                raise Fault("read-outside-table", "bloom filter runs past .gnu.hash")
            word = struct.unpack_from(
                "<Q", self.data, g["bitmask"] + 8 * ((h // 64) & (g["nwords"] - 1)))[0]
            bit1, bit2 = h & 63, (h >> (g["shift"] & 31)) & 63     # x86 shift semantics
            if (word >> bit1) & (word >> bit2) & 1:
                st["bloom_pass"] = True
                bucket = self._u32(g["buckets"] + 4 * (h % g["nbuckets"]), g["buckets"],
                                   g["chain_begin"], "bucket")
                if bucket != 0:
                    p = g["chain0"] + 4 * bucket
                    while True:
                        c = self._u32(p, g["chain_begin"], g["end"], f"chain of {name!r}")
                        st["steps"] += 1
                        if (c ^ h) >> 1 == 0:
                            symidx = (p - g["chain0"]) // 4
                            r = self.check_match(name, version, newest, type_class, symidx, st)
                            if r is not None:
                                return r
                        if c & 1:
                            break
                        p += 4
        else:
            t = self.sysv
            if t["nbucket"] == 0:
                return None
            h = elf_hash(name)
            symidx = self._u32(t["buckets"] + 4 * (h % t["nbucket"]), t["buckets"], t["chain"],
                               "bucket")
            while symidx != 0:
                st["steps"] += 1
                if st["steps"] > self.nsyms + 1:
                    raise Fault("sysv-chain-cycle", f"chain of {name!r} does not terminate")
                r = self.check_match(name, version, newest, type_class, symidx, st)
                if r is not None:
                    return r
                symidx = self._u32(t["chain"] + 4 * symidx, t["chain"], t["end"],
                                   f"chain of {name!r}")
        return st["versioned_sym"] if st["num_versions"] == 1 else None

    # ---- structure
    def structure(self, defined):
        """-> list of (key, what)."""
        v = []
        g, t = self.gnu, self.sysv
        if g is not None:
            first = min(defined) if defined else None
            if first is not None and g["symbias"] > first:
                v.append(("gnu:struct:symoffset-after-first-defined",
                          f"symoffset {g['symbias']} > first defined dynsym {first}"))
            nchains, rem = divmod(g["end"] - g["chain_begin"], 4)
            if g["end"] < g["chain_begin"] or rem or g["symbias"] + nchains != self.nsyms:
                v.append(("gnu:struct:chain-count",
                          f"chain words {nchains} (+{rem} bytes) + symoffset {g['symbias']} != "
                          f"dynsym count {self.nsyms}"))
            if defined and (g["nwords"] == 0 or g["nwords"] & (g["nwords"] - 1)):
                v.append(("gnu:struct:bloom-size", f"bloom word count {g['nwords']}"))
            if defined and g["nbuckets"] == 0:
                v.append(("gnu:struct:no-buckets", "defined dynamic symbols but nbuckets == 0"))
            # The chains reachable from the buckets partition dynsym[symoffset..].
            covered = {}
            if g["nbuckets"] and not v:
                for b in range(g["nbuckets"]):
                    start = self._u32(g["buckets"] + 4 * b, g["buckets"], g["chain_begin"], "bucket")
                    if start == 0:
                        continue
                    if start < g["symbias"]:
                        v.append(("gnu:struct:bucket-below-symoffset", f"bucket {b} -> {start}"))
                        continue
                    i = start
                    while True:
                        if i >= self.nsyms:
                            v.append(("gnu:struct:chain-unterminated",
                                      f"chain of bucket {b} runs past dynsym count {self.nsyms}"))
                            break
                        c = self._u32(g["chain0"] + 4 * i, g["chain_begin"], g["end"], "chain")
                        if i in covered:
                            v.append(("gnu:struct:chains-overlap",
                                      f"dynsym {i} in chains of buckets {covered[i]} and {b}"))
                        covered[i] = b
                        h = dl_new_hash(self.sym(i)[0])
                        if h % g["nbuckets"] != b:
                            v.append(("gnu:struct:symbol-in-wrong-bucket",
                                      f"dynsym {i} {self.sym(i)[0][:30]!r} hash {h:#x} in the chain "
                                      f"of bucket {b} of {g['nbuckets']}"))
                        if (c ^ h) >> 1:
                            v.append(("gnu:struct:chain-word-not-hash",
                                      f"dynsym {i}: chain word {c:#x}, hash {h:#x}"))
                        if c & 1:
                            break
                        i += 1
                # Linear view: the terminator bit is set exactly at the last symbol of each run
                # of equal buckets (so a bucket's chain ends where the next bucket's begins).
                nb, prev_b, bad_mid, bad_miss = g["nbuckets"], None, [], []
                raw = struct.unpack_from("<%dI" % (self.nsyms - g["symbias"]), self.data,
                                         g["chain_begin"])
                bks = [dl_new_hash(self.sym(i)[0]) % nb for i in range(g["symbias"], self.nsyms)]
                # Chain indices (multiples of 1024) at which a chunked writer would cut a bucket.
                self.straddled = [k for k in range(1024, len(bks), 1024) if bks[k - 1] == bks[k]]
                for k, c in enumerate(raw):
                    last = k + 1 == len(raw) or bks[k + 1] != bks[k]
                    if c & 1 and not last:
                        bad_mid.append(k + g["symbias"])
                    elif last and not c & 1:
                        bad_miss.append(k + g["symbias"])
                if bad_mid:
                    v.append(("gnu:struct:terminator-inside-bucket",
                              f"{len(bad_mid)} chain words end a chain before the last symbol of "
                              f"their bucket: dynsym {bad_mid[:6]} of {self.nsyms}"))
                if bad_miss:
                    v.append(("gnu:struct:terminator-missing",
                              f"last symbol of a bucket without the end bit: dynsym {bad_miss[:6]}"))
                missing = [i for i in range(g["symbias"], self.nsyms) if i not in covered]
                if missing:
                    v.append(("gnu:struct:symbol-in-no-chain",
                              f"dynsym {missing[:5]} (>= symoffset) not reachable from any bucket"))
            if g["nwords"] and not g["nwords"] & (g["nwords"] - 1):
                for i in defined:
                    h = dl_new_hash(self.sym(i)[0])
                    word = struct.unpack_from(
                        "<Q", self.data, g["bitmask"] + 8 * ((h // 64) & (g["nwords"] - 1)))[0]
                    if not (word >> (h & 63)) & (word >> ((h >> g["shift"]) & 63)) & 1:
                        v.append(("gnu:struct:bloom-bit-missing",
                                  f"dynsym {i} {self.sym(i)[0][:30]!r} hash {h:#x}"))
        if t is not None:
            if t["nchain"] != self.nsyms:
                v.append(("sysv:struct:nchain", f"nchain {t['nchain']} != dynsym count {self.nsyms}"))
            if t["end"] - t["chain"] != 4 * t["nchain"]:
                v.append(("sysv:struct:section-size",
                          f".hash holds {(t['end'] - t['chain']) // 4} chain words, nchain says "
                          f"{t['nchain']}"))
        return v

    def table_digest(self):
        h = hashlib.sha256()
        for n in (".gnu.hash", ".hash"):
            s = self.e.section(n)
            if s is not None:
                h.update(n.encode() + s.data)
        return h.hexdigest()[:16]


# ----------------------------------------------------------------------------------- the oracle
def judge(path, m):
    """-> (violations [(key, what)], stats dict, dlopen expectations or None)."""
    mask, style, kind, pad, versioned = m
    viol, stats = [], {}
    try:
        L = Loaded(path)
    except Fault as f:
        return [("load:" + f.kind, str(f))], stats, None
    tables = []
    want = {"gnu": ["gnu"], "sysv": ["sysv"], "both": ["gnu", "sysv"]}[style]
    defined = [i for i in range(1, L.nsyms) if L.sym(i)[2] != elfread.SHN_UNDEF]
    for tname in want:
        if getattr(L, tname) is None:
            if defined:
                viol.append((f"{tname}:table-missing", f"--hash-style={style} but no DT_"
                             f"{'GNU_HASH' if tname == 'gnu' else 'HASH'} although {len(defined)} "
                             f"dynamic symbols are defined"))
        else:
            tables.append(tname)
    # An unrequested table that is present is used by loaders all the same.
    for tname in ("gnu", "sysv"):
        if getattr(L, tname) is not None and tname not in tables:
            tables.append(tname)
    stats["n_defined"] = len(defined)
    stats["tables"] = tables
    if L.gnu:
        stats["gnu_shape"] = (L.gnu["nbuckets"], L.gnu["nwords"], L.gnu["shift"], L.gnu["symbias"])
    if L.sysv:
        stats["sysv_shape"] = (L.sysv["nbucket"], L.sysv["nchain"])
    names_defined = {}
    for i in defined:
        names_defined.setdefault(L.sym(i)[0], []).append(i)
    # Ground truth from the inputs: what must be there for the member to be meaningful.
    exp = member_expected(m)
    missing = [n for n, _v in exp if n.encode() not in names_defined]
    stats["expected_missing"] = missing[:3]
    try:
        viol += L.structure(defined)
    except Fault as f:
        viol.append((f"struct:fault:{f.kind}", str(f)))
    look = 0
    for tname in tables:
        # (1) every defined dynamic symbol is found, under its own name (and version).
        for i in defined:
            name = L.sym(i)[0]
            role = role_of(name.decode("utf-8", "surrogateescape"))
            ver, hidden = L.version_of(i)
            queries = []
            if ver is None:
                if not hidden:
                    queries = [("dlsym", None, True), ("plain-reference", None, False)]
            else:
                vs = ver.decode("utf-8", "surrogateescape")
                role += "@" + vs
                queries = [("dlvsym", Version(vs, 1), True), ("versioned-reference", Version(vs, 0), False)]
                if not hidden:
                    queries += [("dlsym", None, True), ("plain-reference", None, False)]
            for qname, version, newest in queries:
                look += 1
                try:
                    j = L.lookup(tname, name, version, newest, 1, stats)
                except Fault as f:
                    viol.append((f"{tname}:fault:{f.kind}:{role}", f"lookup({qname}) of dynsym {i} "
                                 f"{name[:40]!r}: {f}"))
                    continue
                if j is None:
                    viol.append((f"{tname}:not-found:{qname}:{role}",
                                 f"dynsym {i} {name[:40]!r} version {ver} hidden={hidden} is not "
                                 f"found by the {tname} lookup ({qname}); hash "
                                 f"{(dl_new_hash if tname == 'gnu' else elf_hash)(name):#x}"))
                    continue
                jname = L.sym(j)[0]
                jver, _jh = L.version_of(j)
                if jname != name:
                    viol.append((f"{tname}:wrong-name:{qname}:{role}",
                                 f"lookup of {name[:40]!r} returned dynsym {j} {jname[:40]!r}"))
                elif version is not None and jver != ver:
                    viol.append((f"{tname}:wrong-version:{qname}:{role}",
                                 f"lookup of {name[:40]!r}@{ver} returned dynsym {j} version {jver}"))
        # (2) absent names.
        absent = [(n.encode("utf-8", "surrogateescape"), c) for n, c in FIXED_ABSENT]
        absent += [(POOL[k][0].encode(), "left-out:" + POOL[k][1]) for k in range(len(POOL))
                   if not mask >> k & 1]
        if tname == "gnu" and L.gnu["nwords"] and not L.gnu["nwords"] & (L.gnu["nwords"] - 1):
            g = L.gnu
            words = struct.unpack_from("<%dQ" % g["nwords"], L.data, g["bitmask"])
            mask_w, shift, found = g["nwords"] - 1, g["shift"], 0
            for c, h in zip(CAND, CAND_H):
                w = words[(h >> 6) & mask_w]
                if (w >> (h & 63)) & (w >> ((h >> shift) & 63)) & 1:
                    absent.append((c.encode(), "bloom-positive"))
                    found += 1
                    if found == 20:
                        break
            stats["bloom_positive_absent"] = found
        absent = [(n, c) for n, c in absent if n not in names_defined]
        stats["absent_" + tname] = len(absent)
        for name, cls in absent:
            for newest in (True, False):
                look += 1
                try:
                    j = L.lookup(tname, name, None, newest, 1, stats)
                except Fault as f:
                    viol.append((f"{tname}:fault:{f.kind}:absent:{cls}",
                                 f"lookup of absent {name[:40]!r}: {f}"))
                    break
                if j is not None:
                    viol.append((f"{tname}:absent-found:{cls}",
                                 f"lookup of absent {name[:40]!r} returned dynsym {j} "
                                 f"{L.sym(j)[0][:40]!r}"))
                    break
    stats["lookups"] = look
    stats["straddled"] = getattr(L, "straddled", [])
    stats["digest"] = L.table_digest()
    # Longest chain in each table (non-triviality).
    mx = 0
    if L.gnu and L.gnu["nbuckets"]:
        cnt = {}
        for i in defined:
            if i >= L.gnu["symbias"]:
                b = dl_new_hash(L.sym(i)[0]) % L.gnu["nbuckets"]
                cnt[b] = cnt.get(b, 0) + 1
        mx = max(cnt.values(), default=0)
    if L.sysv and L.sysv["nbucket"]:
        cnt = {}
        for i in defined:
            b = elf_hash(L.sym(i)[0]) % L.sysv["nbucket"]
            cnt[b] = cnt.get(b, 0) + 1
        mx = max(mx, max(cnt.values(), default=0))
    stats["longest_chain"] = mx
    # Expectations for the dlopen stage: name, version, value, kind.
    dl = None
    if kind == "shared":
        dl = []
        for i in defined:
            name, info, shndx, value = L.sym(i)
            ver, hidden = L.version_of(i)
            cmpval = not (shndx == elfread.SHN_ABS or info & 0xf == elfread.STT_TLS)
            dl.append((name.hex(), ver.decode() if ver else "", int(hidden), value, int(cmpval)))
    return viol, stats, dl


def run_member(item):
    base, m, keep = item
    out = os.path.join(base, keep if keep else f"out.{os.getpid()}")
    try:
        os.unlink(out)
    except OSError:
        pass
    argv = member_argv(m, out)
    rc, msg = wildrun.server_link(argv, cwd=os.path.join(base, "in"))
    if rc != 0:
        return m, rc, msg[-300:], [], {}, None
    try:
        viol, stats, dl = judge(out, m)
    except elfread.ElfError as ex:
        viol, stats, dl = [("output-malformed", str(ex))], {}, None
    if not keep:
        os.unlink(out)
    seen, short = {}, []
    for key, what in viol:                  # at most 3 instances of a key per member
        seen[key] = seen.get(key, 0) + 1
        if seen[key] <= 3:
            short.append((key, what))
    stats["violations_total"] = len(viol)
    return m, rc, "", short, stats, None


# ------------------------------------------------------------------------------ dlopen (glibc)
HOST_C = r"""
#define _GNU_SOURCE
#include <dlfcn.h>
#include <link.h>
#include <stdio.h>
#include <stdlib.h>
#include <string.h>
/* script on stdin: O <path> | S <hexname> | V <hexname> <version> | C */
static void unhex(const char *h, char *out) {
  size_t n = strlen(h) / 2;
  for (size_t i = 0; i < n; i++) { unsigned v; sscanf(h + 2 * i, "%2x", &v); out[i] = (char)v; }
  out[n] = 0;
}
int main(void) {
  static char line[4096], a[2048], b[2048], name[1024];
  void *h = NULL; unsigned long base = 0;
  while (fgets(line, sizeof line, stdin)) {
    a[0] = b[0] = 0;
    sscanf(line + 1, "%2047s %2047s", a, b);
    if (line[0] == 'O') {
      h = dlopen(a, RTLD_NOW | RTLD_LOCAL);
      if (!h) { printf("O FAIL %s\n", dlerror()); fflush(stdout); continue; }
      struct link_map *lm = NULL; dlinfo(h, RTLD_DI_LINKMAP, &lm); base = lm ? lm->l_addr : 0;
      printf("O ok\n");
    } else if (line[0] == 'C') {
      if (h) dlclose(h); h = NULL; printf("C\n");
    } else if (h) {
      unhex(a, name); dlerror();
      void *p = line[0] == 'V' ? dlvsym(h, name, b) : dlsym(h, name);
      const char *err = dlerror();
      if (err) printf("%c - -\n", line[0]);
      else printf("%c %lx %lx\n", line[0], (unsigned long)p, (unsigned long)p - base);
    } else printf("%c skipped\n", line[0]);
    fflush(stdout);
  }
  return 0;
}
"""


def build_host():
    os.makedirs(vlib.OBJCACHE, exist_ok=True)
    exe = os.path.join(vlib.OBJCACHE, "c08host." + vlib.sha(HOST_C)[:12])
    if not os.path.exists(exe):
        src = exe + f".{os.getpid()}.c"
        with open(src, "w") as f:
            f.write(HOST_C)
        r = subprocess.run(["gcc", "-O1", "-o", exe + f".{os.getpid()}", src, "-ldl"],
                           stdout=subprocess.PIPE, stderr=subprocess.PIPE)
        os.unlink(src)
        if r.returncode != 0:
            raise RuntimeError("gcc failed for the dlopen host: " + r.stderr.decode())
        os.replace(exe + f".{os.getpid()}", exe)
    return exe


def dl_queries(m, dl):
    """-> [(script line, expectation)] ; expectation = ('value', v) | ('found',) | ('absent',)."""
    mask = m[0]
    q = []
    names = {}
    for hx, ver, hidden, value, cmpval in dl:
        names.setdefault(hx, []).append((ver, hidden, value, cmpval))
    for hx, lst in names.items():
        for ver, hidden, value, cmpval in lst:
            e = ("value", value) if cmpval else ("found",)
            if ver:
                q.append((f"V {hx} {ver}", e))
                if not hidden:
                    q.append((f"S {hx}", e))
            elif not hidden:
                q.append((f"S {hx}", e))
    absent = [n for n, _c in FIXED_ABSENT if n and "\0" not in n] + \
             [POOL[k][0] for k in range(len(POOL)) if not mask >> k & 1]
    for n in absent:
        hx = n.encode("utf-8", "surrogateescape").hex()
        if hx not in names and len(hx) < 2000:
            q.append((f"S {hx}", ("absent",)))
    return q


def dl_batch(item):
    """One host process for a batch of libraries. item = (host, base, [(m, path, dl)])."""
    host, base, batch = item
    script, expect = [], []
    for m, path, dl in batch:
        script.append(f"O {path}")
        expect.append((m, "open"))
        for line, e in dl_queries(m, dl):
            script.append(line)
            expect.append((m, e, line))
        script.append("C")
        expect.append((m, "close"))
    p = subprocess.run([host], input=("\n".join(script) + "\n").encode(), stdout=subprocess.PIPE,
                       stderr=subprocess.PIPE, timeout=300)
    lines = p.stdout.decode().splitlines()
    out = []
    nq = 0
    for k, exp in enumerate(expect):
        m = exp[0]
        if k >= len(lines):
            out.append((m, "glibc:host-died", f"dlopen host exited {p.returncode} while handling "
                        f"{script[k]!r}: {p.stderr.decode()[-200:]}"))
            break
        got = lines[k].split()
        if exp[1] == "open":
            if got[:2] != ["O", "ok"]:
                out.append((m, "glibc:dlopen-failed", lines[k]))
            continue
        if exp[1] == "close":
            continue
        nq += 1
        e, line = exp[1], exp[2]
        what = "dlvsym" if line[0] == "V" else "dlsym"
        nm = bytes.fromhex(line.split()[1])[:40]
        if got[1:] == ["skipped"]:
            continue
        if e[0] == "absent":
            if got[1] != "-":
                out.append((m, f"glibc:absent-found:{role_of(nm.decode('utf-8', 'replace'))}",
                            f"{what}({nm!r}) returned base+{got[2]}"))
        elif got[1] == "-":
            out.append((m, f"glibc:not-found:{what}:{role_of(nm.decode('utf-8', 'replace'))}",
                        f"{line!r}: glibc does not find it"))
        elif e[0] == "value" and int(got[2], 16) != e[1]:
            out.append((m, f"glibc:wrong-symbol:{what}:{role_of(nm.decode('utf-8', 'replace'))}",
                        f"{line!r}: glibc returned base+{got[2]}, dynsym value is {e[1]:#x}"))
    return out, nq, len(batch)


def dl_link(item):
    base, m, idx = item
    out = os.path.join(base, "dl", f"m{idx}.so")
    rc, msg = wildrun.server_link(member_argv(m, out), cwd=os.path.join(base, "in"))
    if rc != 0:
        return m, None, None
    try:
        _v, _s, dl = judge(out, m)
    except elfread.ElfError:
        dl = None
    return m, out, dl


# ------------------------------------------------------------------------------------ the check
def members(thorough):
    npool = 10 if thorough else 8
    kinds = ["shared", "pie", "spie"] if thorough else ["shared", "pie"]
    pads = [0, 1, 33, 300] if thorough else [0]
    out = []
    for mask in range(1 << npool):
        for style, kind, pad, versioned in itertools.product(STYLES, kinds, pads, (0, 1)):
            if kind == "spie" and pad in (1, 300):
                continue                    # static-pie flavour: paddings 0 and 33 only
            out.append((mask, style, kind, pad, versioned))
    return out


def large_members(thorough):
    """The whole pool + N generated names (+ TLS / absolute extras)."""
    ns = LARGE_THOROUGH if thorough else LARGE_QUICK
    vers = (0, 1) if thorough else (0,)
    out = [((1 << len(POOL)) - 1, style, kind, n, v)
           for n in sorted(ns, reverse=True) for style in STYLES for kind in ("shared", "pie")
           for v in vers]
    if not thorough:                        # quick: the 65537-name outputs only with both tables
        out = [m for m in out if m[3] < 60000 or m[1] == "both"]
    return out


def describe(m):
    mask, style, kind, pad, versioned = m
    return {"exports": [POOL[i][0][:40] for i in range(len(POOL)) if mask >> i & 1],
            "mask": mask, "hash_style": style, "kind": kind, "padding": pad,
            "versioned_f": bool(versioned), "argv": member_argv(m, "out")}


def replay_dict(m):
    d = describe(m)
    d["member"] = list(m)
    d["how"] = ("python3 checks/c08.py --replay <this file> re-links the member and keeps the inputs "
                "and the output in the directory it prints; by hand: cd <dir>/in && "
                "/verif/.build/bin/wild <argv> && readelf --dyn-syms -V --gnu-hash-... out")
    return d


def replay(chk):
    with open(chk.args.replay) as f:
        doc = json.load(f)
    m = tuple(doc["replay"]["member"])
    base = os.path.join("/dev/shm", f"verif.c08replay.{os.getpid()}")
    make_inputs(os.path.join(base, "in"), pads=sorted({1, 33, 300, m[3]} - {0}))
    m2, rc, msg, viol, stats, _dl = run_member((base, m, "out"))
    print("directory:", base)
    print("argv: cd", os.path.join(base, "in"), "&&", vlib.WILD, " ".join(member_argv(m, "../out")))
    print("rc:", rc, msg)
    print("stats:", json.dumps(stats, default=str))
    for k, w in viol:
        print("VIOLATION", k, w)
    hit = any(k == doc["key"] for k, _w in viol) or (rc != 0 and doc["key"].startswith("link-failed"))
    print("REPRODUCED" if hit else "not reproduced")
    sys.exit(1 if hit else 0)


def main():
    chk = vlib.Check("C08", "exploration")
    if not chk.args.no_build:
        vlib.build("wild")
    verify_pool()
    if chk.args.replay:
        replay(chk)
    fam = members(chk.thorough)
    if chk.seed:
        import random
        random.Random(chk.seed).shuffle(fam)
    large = large_members(chk.thorough)
    large_ns = sorted({m[3] for m in large})
    n_eval = 0
    straddled = set()
    digests = set()
    shapes_gnu, shapes_sysv = set(), set()
    tot = dict(lookups=0, strcmp_rejects=0, chain_steps=0, bloom_pass=0, bloom_positive_absent=0)
    longest = 0
    exp_missing = []
    link_failed = 0
    samples = []
    dl_stats = dict(libraries=0, queries=0, processes=0)
    with vlib.scratch("c08") as base:
        import time
        phase, t_ph = {}, [time.time()]

        def lap(name):
            phase[name] = round(time.time() - t_ph[0], 1)
            t_ph[0] = time.time()

        make_inputs(os.path.join(base, "in"), pads=[1, 33, 300] + large_ns)
        lap("inputs")
        # One pool for everything; the large members (seconds each) go first, two per task, so
        # that the other workers get on with the pool family meanwhile.
        results = wildrun.pmap(run_member, [(base, m, None) for m in large + fam], chunksize=2)
        n_large = len(large)
        large_syms = sum(r[4].get("n_defined", 0) for r in results[:n_large])
        lap("large-tables+pool-family")
        for m, rc, msg, viol, stats, _dl in results:
            n_eval += 1
            if rc != 0:
                link_failed += 1
                chk.violation(f"link-failed:{m[2]}:{'versioned' if m[4] else 'plain'}:rc={rc}",
                              f"wild failed on member {describe(m)}: {msg}", replay_dict(m))
                continue
            for key, what in viol:
                chk.violation(key, f"{what}; member {json.dumps(describe(m))[:300]}", replay_dict(m))
            if stats.get("expected_missing"):
                exp_missing.append((m, stats["expected_missing"]))
            if stats.get("longest_chain", 0) >= 2:
                digests.add(stats["digest"])
            longest = max(longest, stats.get("longest_chain", 0))
            if "gnu_shape" in stats:
                shapes_gnu.add(tuple(stats["gnu_shape"])[:3])
            if "sysv_shape" in stats:
                shapes_sysv.add(stats["sysv_shape"][0])
            for k in tot:
                tot[k] += stats.get(k, 0)
            straddled.update(stats.get("straddled", []))
            if len(samples) < 3 and bin(m[0]).count("1") >= 5 and m[4]:
                samples.append(dict(describe(m), stats={k: v for k, v in stats.items()
                                                        if k != "digest"}))
        if exp_missing:
            m, miss = exp_missing[0]
            chk.machinery(f"{len(exp_missing)} members do not export a symbol the inputs define "
                          f"(the family would be vacuous): {describe(m)} misses {miss}")
        # ---- glibc as the oracle
        if chk.thorough:
            host = build_host()
            os.makedirs(os.path.join(base, "dl"))
            sub = [(mask, style, "shared", pad, versioned)
                   for mask in range(1 << 8) for style in ("gnu", "sysv")
                   for pad, versioned in ((0, 0), (0, 1), (33, 1))]
            big = [((1 << len(POOL)) - 1, style, "shared", max(large_ns), 1)
                   for style in ("gnu", "sysv")]
            sub = big + sub
            linked = wildrun.pmap(dl_link, [(base, m, i) for i, m in enumerate(sub)], chunksize=8)
            ok = [(m, p, dl) for m, p, dl in linked if p and dl is not None]
            nbig = sum(1 for x in ok if x[0] in big)
            batches = [(host, base, [x]) for x in ok[:nbig]] + \
                      [(host, base, ok[i:i + 64]) for i in range(nbig, len(ok), 64)]
            for out, nq, nlib in vlib.pmap(dl_batch, batches, procs=8, chunksize=1):
                dl_stats["libraries"] += nlib
                dl_stats["queries"] += nq
                dl_stats["processes"] += 1
                for m, key, what in out:
                    if key == "glibc:host-died":
                        chk.violation(key + f":{m[1]}", what + f" member {describe(m)}",
                                      replay_dict(m))
                    else:
                        chk.violation(key, what + f"; member {json.dumps(describe(m))[:300]}",
                                      replay_dict(m))
        lap("glibc-dlopen")
    chk.coverage = {
        "evaluations": n_eval,
        "distinct_nontrivial": len(digests),
        "rule": "member = (subset of the collision pool, --hash-style, output kind, versioned f, "
                "padding); all members enumerated; non-trivial = some bucket of a produced table "
                "holds >= 2 defined symbols (a chain is really walked); distinct = distinct "
                "contents of .gnu.hash + .hash among those",
        "samples": samples,
        "exhaustive": True,
        "pool": [p[0][:40] for p in POOL[:10 if chk.thorough else 8]],
        "family": {"subsets": 1 << (10 if chk.thorough else 8), "styles": STYLES,
                   "kinds": ["shared", "pie", "spie"] if chk.thorough else ["shared", "pie"],
                   "padding": [0, 1, 33, 300] if chk.thorough else [0], "versioned": [0, 1]},
        "phase_wall_s": phase,
        "chain_indices_multiple_of_1024_inside_a_bucket_run": sorted(straddled),
        "power_of_two_chain_indices_inside_a_bucket_run":
            sorted(k for k in straddled if k & (k - 1) == 0),
        "large_table_members": n_large,
        "large_table_export_counts": large_ns,
        "large_table_symbols_each_looked_up_in_every_table": large_syms,
        "links": n_eval + dl_stats["libraries"],
        "link_failed": link_failed,
        "lookups": tot["lookups"],
        "strcmp_rejections_inside_chains": tot["strcmp_rejects"],
        "chain_steps": tot["chain_steps"],
        "lookups_passing_bloom": tot["bloom_pass"],
        "bloom_positive_absent_names_tried": tot["bloom_positive_absent"],
        "longest_chain": longest,
        "gnu_table_shapes_nbuckets_bloomwords_shift": sorted(shapes_gnu),
        "sysv_nbucket_values": sorted(shapes_sysv),
        "glibc_dlopen": dl_stats,
        "subprocesses": dl_stats["processes"],
        "thinning": ("quick: pool of the first 8 names, no padding, no static-pie flavour; large "
                     "tables: N in 4097, 8191, 8192, 8193 (all styles), 65537 (--hash-style=both), unversioned"
                     if not chk.thorough else
                     "static-pie flavour only with paddings 0 and 33, otherwise none for the transcription "
                     "oracle; glibc dlopen stage: -shared members of the "
                     "8-name sub-pool x {gnu,sysv} x {(pad 0, plain), (pad 0, versioned), "
                     "(pad 33, versioned)} + the 65537-name versioned library x {gnu,sysv}"),
    }
    chk.assumptions = [
        "the lookup oracle is a transcription of glibc 2.36 do_lookup_x/check_match (x86-64, no "
        "MIPS xhash, no STB_GNU_UNIQUE table); in the thorough tier it is cross-checked against "
        "the installed glibc through dlopen/dlsym/dlvsym",
        "the dynamic symbol count is taken from the .dynsym section header",
    ]
    chk.finish()


if __name__ == "__main__":
    main()
