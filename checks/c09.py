#!/usr/bin/env python3
"""C09 - Position-independent outputs are correct at any load address.

Family (bounded-exhaustive): one program per cell of
    architecture {x86-64, AArch64}
  x probe section alignment {1, 2, 8}
  x pad {0, 1}: a pad section of that many bytes (alignment 1) precedes the probe section, so an
    alignment-1 probe section starts on an even / odd address
  x offset of the probed 8-byte word inside its section {0, 1, 2, 7, 8}
  x what the word refers to {local data (section symbol + addend), global data + addend, function,
    IFUNC, undefined weak; x86-64 also R_X86_64_TPOFF64 and R_X86_64_DTPMOD64 (TLS: not addresses)}
  x output kind {PIE (dynamic), static-PIE, shared}
  x packing of relative relocations {off, -z pack-relative-relocs}  (thorough: also
    --pack-dyn-relocs=relr, and two-word programs over every pair of (pad, offset parity) cells)
plus, in both tiers, the section-kind family: the address words live in each kind of section that
a linker treats specially -
    .data, .data.rel.ro, a custom writable section, .tdata (pointer slots in the TLS template),
    .init_array, .fini_array, .preinit_array (executables only), .ctors, .dtors,
    priority variants (.ctors.200/.ctors.100/.init_array.150/.ctors; .dtors.5/.dtors.300/
    .fini_array.7/.fini_array; .init_array.300/.init_array.5/.init_array)
- 3 to 5 words per input section whose targets mix kinds (non-exported function, exported function
(symbolic relocation in a shared object), IFUNC, undefined weak (no relocation), local data +
addend), in two rotations, x output kind x RELR off/on x architecture. GNU ld and wild merge
.ctors* / .dtors* input sections into .init_array / .fini_array with the words of each input
section REVERSED and sort priority-suffixed sections; the expected slot -> target map therefore
comes from the generator (input order, reversed inside .ctors*/.dtors* input sections; every input
section is found through its own start label), is calibrated on GNU ld's output of every x86-64
member (the referee) and on lld (which keeps .ctors/.dtors forward), and every slot's value at
base 0 must be the expected target (`slot-target`) in addition to the image / coverage / RELR
rules. (.ctors/.dtors reversal is the only transformation in elf_writer.rs that moves words after
relocation processing; priority sorting moves whole input sections before it.)
Every member is linked by the real wild through the in-process server. Objects are written with
elfgen (no subprocess); the x86-64 PIE members carry a self-check in _start (assembled by gas, six
cached variants) and are run natively twice under ASLR.

Oracle: lib/pieimage.py. The probed word's place comes from the generator's label (hidden symbol
`aw_word`, found through the output .symtab). Image at base 0 versus bases 0x10000 and
0x7f1234567000 after RELA + RELR: the word moves by exactly the base (address targets) or not at
all (TLS / undefined weak), every other byte is identical, exactly one dynamic relocation covers
the word, every RELR-decoded place is such a word. The oracle is calibrated on GNU ld / lld outputs
of the same members in the same run (a rule they violate is a machinery error, not a verdict).

A member that wild refuses with an *allocation-accounting* internal error ("Insufficient ...
allocation" / "... allocated too much") is a violation (the member is valid: the reference linker
links it and its output passes the oracle); other refusals are counted, not judged.
"""
import itertools
import json
import os
import re
import struct
import subprocess
import sys
import time

sys.path.insert(0, os.path.join(os.path.dirname(os.path.abspath(__file__)), "..", "lib"))
import vlib
import wildrun
import elfgen as g
import elfread
import pieimage

W, A, X, T = g.SHF_WRITE, g.SHF_ALLOC, g.SHF_EXECINSTR, g.SHF_TLS
ALIGNS = [1, 2, 8]
PADS = [0, 1]
OFFSETS = [0, 1, 2, 7, 8]
TARGETS = {"x86_64": ["local", "global", "func", "ifunc", "weak", "tpoff", "dtpmod"],
           "aarch64": ["local", "global", "func", "ifunc", "weak"]}
ABS_TARGETS = ("local", "global", "func", "ifunc")
KINDS = ["pie", "static-pie", "shared"]
RELR = {"off": [], "z": ["-z", "pack-relative-relocs"], "pdr": ["--pack-dyn-relocs=relr"]}
RELR_REF = {"ld": {"off": [], "z": ["-z", "pack-relative-relocs"]},
            "lld": {"off": [], "z": ["--pack-dyn-relocs=relr"], "pdr": ["--pack-dyn-relocs=relr"]}}
INTERP = {"x86_64": "/lib64/ld-linux-x86-64.so.2", "aarch64": "/lib/ld-linux-aarch64.so.1"}
R_ABS64 = {"x86_64": 1, "aarch64": 257}
R_TPOFF64, R_DTPMOD64 = 18, 16
BASES = (0x10000, 0x7f1234567000)
TLS_MAGIC = 0x5a5a5a5a
ALLOC_ERR = re.compile(r"Insufficient .* allocation|allocated too much|Unused .* allocation|"
                       r"excessive", re.I)

CHECK_ASM = """
.globl _start
.hidden aw_word
.hidden exp_target
.text
.globl func_t
.type func_t,@function
func_t: mov $0x77,%eax
  ret
impl: mov $0x1234,%eax
  ret
.globl lfunc_t
.hidden lfunc_t
.type lfunc_t,@function
lfunc_t: mov $0x55,%eax
  ret
.globl ifunc_t
.type ifunc_t,@gnu_indirect_function
ifunc_t: lea impl(%rip),%rax
  ret
_start:
{body}
okmsg: .ascii "OK\\n"
.section .note.GNU-stack,"",@progbits
"""
CHECK_HEAD = """  lea aw_word(%rip),%rsi
  mov (%rsi),%rax
"""
CHECK_TAIL = """  lea _start(%rip),%rax
  push %rax
  mov $1,%eax
  mov $1,%edi
  mov %rsp,%rsi
  mov $8,%edx
  syscall
  mov $1,%eax
  mov $1,%edi
  lea okmsg(%rip),%rsi
  mov $3,%edx
  syscall
  mov $60,%eax
  xor %edi,%edi
  syscall
fail:
  mov $60,%eax
  mov $1,%edi
  syscall
"""
CHECK_BODY = {
    "local": "  lea exp_target(%rip),%rdx\n  cmp %rdx,%rax\n  jne fail\n",
    "global": "  lea exp_target(%rip),%rdx\n  cmp %rdx,%rax\n  jne fail\n",
    "func": "  lea func_t(%rip),%rdx\n  cmp %rdx,%rax\n  jne fail\n",
    "lfunc": "  lea lfunc_t(%rip),%rdx\n  cmp %rdx,%rax\n  jne fail\n",
    "ifunc": "  call *%rax\n  cmp $0x1234,%eax\n  jne fail\n",
    "weak": "  test %rax,%rax\n  jne fail\n",
    "tpoff": "  mov %fs:0,%rdx\n  cmpl $0x5a5a5a5a,(%rdx,%rax)\n  jne fail\n",
    "dtpmod": "",      # module id: nothing portable to verify from inside the program
}
PLAIN_BODY = "  ret\n"


def code_object(arch, check):
    """Path (x86-64, gas, cached) or bytes (AArch64, elfgen) of the code object. `check` is a list
    of target kinds whose words _start verifies (x86-64 PIE only), or None."""
    if arch == "x86_64":
        if check:
            body = ""
            for i, t in enumerate(check):
                b = CHECK_HEAD + CHECK_BODY[t]
                if i:
                    b = b.replace("aw_word", "aw_word%d" % (i + 1)).replace(
                        "exp_target", "exp_target%d" % (i + 1))
                body += b
            body += CHECK_TAIL
            extra = "".join(".hidden aw_word%d\n.hidden exp_target%d\n" % (i + 1, i + 1)
                            for i in range(1, len(check)))
            return vlib.assemble(extra + CHECK_ASM.format(body=body))
        return vlib.assemble(CHECK_ASM.format(body=PLAIN_BODY))
    o = g.ElfObject("aarch64")
    ret = bytes.fromhex("c0035fd6")
    s = o.section(".text", flags=A | X, align=4, data=ret * 5)
    o.symbol("lfunc_t", section=s, value=16, size=4, type=g.STT_FUNC, vis=g.STV_HIDDEN)
    o.symbol("func_t", section=s, value=0, size=4, type=g.STT_FUNC)
    o.symbol("impl", section=s, value=4, size=4, type=g.STT_FUNC, bind=g.STB_LOCAL)
    o.symbol("ifunc_t", section=s, value=8, size=4, type=g.STT_GNU_IFUNC)
    o.symbol("_start", section=s, value=12, size=4, type=g.STT_FUNC)
    o.note_gnu_stack()
    return o.to_bytes()


def data_object(arch, words):
    """words: list of (align, pad, off, target). Word i lives in its own probe section
    `.data.probe<i>` preceded by its own pad section `.data.pad<i>`."""
    o = g.ElfObject(arch)
    tgt = o.section(".data.tgt", flags=A | W, align=8, data=bytes(range(64)))
    loc = o.symbol("loc_t", section=tgt, value=0, size=32, bind=g.STB_LOCAL, type=g.STT_OBJECT)
    glob = o.symbol("glob_t", section=tgt, value=32, size=32, type=g.STT_OBJECT)
    tls = tls_sym = None
    if any(w[3] in ("tpoff", "dtpmod") for w in words):
        tls = o.section(".tdata", flags=A | W | T, align=8,
                        data=struct.pack("<IIII", TLS_MAGIC, 1, 2, 3))
        tls_sym = o.symbol("tls_t", section=tls, value=0, size=16, type=g.STT_TLS,
                           vis=g.STV_HIDDEN)
    func = ifunc = weak = None
    for i, (align, pad, off, target) in enumerate(words):
        sfx = "" if i == 0 else str(i + 1)
        o.section(".data.pad" + sfx, flags=A | W, align=1, data=b"\xee" * pad)
        ps = o.section(".data.probe" + sfx, flags=A | W, align=align,
                       data=b"\xaa" * off + bytes(8) + b"\xbb")
        o.symbol("probe_start" + sfx, section=ps, value=0, vis=g.STV_HIDDEN)
        o.symbol("aw_word" + sfx, section=ps, value=off, size=8, type=g.STT_OBJECT,
                 vis=g.STV_HIDDEN)
        rt = R_ABS64[arch]
        if target == "local":
            o.reloc(ps, off, rt, o.section_symbol(tgt), 16)
            o.symbol("exp_target" + sfx, section=tgt, value=16, vis=g.STV_HIDDEN)
        elif target == "global":
            o.reloc(ps, off, rt, glob, 8)
            o.symbol("exp_target" + sfx, section=tgt, value=40, vis=g.STV_HIDDEN)
        elif target == "func":
            func = func or o.symbol("func_t")
            o.reloc(ps, off, rt, func, 0)
        elif target == "ifunc":
            ifunc = ifunc or o.symbol("ifunc_t")
            o.reloc(ps, off, rt, ifunc, 0)
        elif target == "weak":
            weak = weak or o.symbol("weak_u", bind=g.STB_WEAK)
            o.reloc(ps, off, rt, weak, 0)
        elif target == "tpoff":
            o.reloc(ps, off, R_TPOFF64, tls_sym, 0)
        elif target == "dtpmod":
            o.reloc(ps, off, R_DTPMOD64, tls_sym, 0)
        if target not in ("local", "global"):
            o.symbol("exp_target" + sfx, section=tgt, value=0, vis=g.STV_HIDDEN)
    o.note_gnu_stack()
    return o.to_bytes()


# ---------------------------------------------------------------------------------------------
# Section-kind family: >= 3 address words per section, targets of mixed kinds, in every kind of
# section a linker treats specially. SK maps the member name to its input sections
# (name, sh_type, extra flags, number of words). `.ctors*` / `.dtors*` input sections are merged
# into .init_array / .fini_array by GNU ld and wild WITH THEIR WORDS REVERSED (lld keeps them as
# .ctors / .dtors, forward); priority-suffixed sections are sorted by priority (whole input
# sections move; each is found through its own start label).
SHT_FINI, SHT_PREINIT = 15, 16
SK = {
    "data": [(".data", g.SHT_PROGBITS, 0, 5)],
    "data.rel.ro": [(".data.rel.ro", g.SHT_PROGBITS, 0, 5)],
    "custom": [("probe_sec", g.SHT_PROGBITS, 0, 5)],
    "tdata": [(".tdata", g.SHT_PROGBITS, T, 5)],
    "init_array": [(".init_array", g.SHT_INIT_ARRAY, 0, 5)],
    "fini_array": [(".fini_array", SHT_FINI, 0, 5)],
    "preinit_array": [(".preinit_array", SHT_PREINIT, 0, 5)],
    "ctors": [(".ctors", g.SHT_PROGBITS, 0, 5)],
    "dtors": [(".dtors", g.SHT_PROGBITS, 0, 5)],
    "ctors.N": [(".ctors.200", g.SHT_PROGBITS, 0, 5), (".ctors.100", g.SHT_PROGBITS, 0, 4),
                (".init_array.150", g.SHT_INIT_ARRAY, 0, 3), (".ctors", g.SHT_PROGBITS, 0, 3)],
    "dtors.N": [(".dtors.5", g.SHT_PROGBITS, 0, 5), (".dtors.300", g.SHT_PROGBITS, 0, 4),
                (".fini_array.7", SHT_FINI, 0, 3), (".fini_array", SHT_FINI, 0, 3)],
    "init_array.N": [(".init_array.300", g.SHT_INIT_ARRAY, 0, 5),
                     (".init_array.5", g.SHT_INIT_ARRAY, 0, 4),
                     (".init_array", g.SHT_INIT_ARRAY, 0, 3)],
}
SK_EXE_ONLY = ("preinit_array",)
SK_NATIVE = ("data", "data.rel.ro", "custom")      # the loader would *call* init/fini slots
SK_TARGETS = ["lfunc", "func", "ifunc", "weak", "local"]
SK_ROTATIONS = (0, 2)


def is_sk(words):
    return bool(words) and words[0] == "sk"


def sk_targets(words, j, n):
    """Target kinds of the n words of input section j, in input order."""
    rot = words[2] + j
    return [SK_TARGETS[(i + rot) % len(SK_TARGETS)] for i in range(n)]


def sk_reversed(name):
    return name.startswith(".ctors") or name.startswith(".dtors")


def data_object_sk(arch, words):
    o = g.ElfObject(arch)
    tgt = o.section(".data.tgt", flags=A | W, align=8, data=bytes(range(64)))
    o.symbol("exp_local", section=tgt, value=16, vis=g.STV_HIDDEN)
    refs = {"lfunc": (o.symbol("lfunc_t", vis=g.STV_HIDDEN), 0), "func": (o.symbol("func_t"), 0),
            "ifunc": (o.symbol("ifunc_t"), 0), "weak": (o.symbol("weak_u", bind=g.STB_WEAK), 0),
            "local": (o.section_symbol(tgt), 16)}
    k = 0
    for j, (name, ty, fl, n) in enumerate(SK[words[1]]):
        sec = o.section(name, type=ty, flags=A | W | fl, align=8, data=bytes(8 * n),
                        entsize=8 if ty != g.SHT_PROGBITS else 0)
        o.symbol("sk_start%d" % j, section=sec, value=0, vis=g.STV_HIDDEN,
                 type=g.STT_TLS if fl & T else g.STT_NOTYPE)
        for i, t in enumerate(sk_targets(words, j, n)):
            sym, addend = refs[t]
            o.reloc(sec, 8 * i, R_ABS64[arch], sym, addend)
            if len(SK[words[1]]) == 1 and not fl & T:
                # labels for the native self-check (single, unreversed section kinds only)
                sfx = "" if k == 0 else str(k + 1)
                o.symbol("aw_word" + sfx, section=sec, value=8 * i, size=8, type=g.STT_OBJECT,
                         vis=g.STV_HIDDEN)
                o.symbol("exp_target" + sfx, section=tgt, value=16, vis=g.STV_HIDDEN)
                k += 1
    if k == 0:      # the code object declares these two (gas emits them even when unreferenced)
        o.symbol("aw_word", section=tgt, value=0, vis=g.STV_HIDDEN)
        o.symbol("exp_target", section=tgt, value=0, vis=g.STV_HIDDEN)
    o.note_gnu_stack()
    return o.to_bytes()


def judge_sk(path, words, linker):
    """Oracle for a section-kind member. The expected slot -> target map comes from the generator:
    input order, reversed inside .ctors* / .dtors* input sections for linkers that merge them into
    .init_array / .fini_array (GNU ld - the referee - and wild; lld keeps them forward)."""
    e = elfread.Elf(path)
    syms = {s.name: s for s in e.symbols(".symtab")}
    tls = next((p for p in e.segments if p.p_type == elfread.PT_TLS), None)
    abs_words, fixed_words, expect = [], [], []
    for j, (name, _ty, fl, n) in enumerate(SK[words[1]]):
        st = syms.get("sk_start%d" % j)
        if st is None:
            return [("label-missing", "sk_start%d not in the output .symtab" % j)], {}
        start = st.value
        if fl & T:
            if tls is None:
                return [("label-missing", "no PT_TLS for the .tdata member")], {}
            start += tls.p_vaddr
        tk = sk_targets(words, j, n)
        if sk_reversed(name) and linker != "lld":
            tk = tk[::-1]
        for i, t in enumerate(tk):
            (fixed_words if t == "weak" else abs_words).append(start + 8 * i)
            expect.append((start + 8 * i, t, "%s[%d]" % (name, i)))
    rep = pieimage.compare(e, abs_words, fixed_words, BASES)
    problems = list(rep.problems)
    want = {"lfunc": syms.get("lfunc_t"), "func": syms.get("func_t"), "local": syms.get("exp_local")}
    ifunc = syms.get("ifunc_t")
    values = []
    if rep.img0 is not None:
        for place, t, where in expect:
            try:
                v = rep.img0.u64(place)
            except elfread.ElfError as ex:
                problems.append(("slot-target", "%s: %s" % (where, ex)))
                continue
            values.append(v)
            if t == "weak":
                ok = v == 0
            elif t == "ifunc":
                # the resolver (IRELATIVE / symbolic) or a linker-made PLT entry for it
                others = {s.value for s in want.values() if s is not None}
                ok = v != 0 and v not in others and (
                    (ifunc is not None and v == ifunc.value) or any(
                        p.p_type == 1 and p.p_flags & 1 and p.p_vaddr <= v < p.p_vaddr + p.p_memsz
                        for p in e.segments))
            else:
                ok = want[t] is not None and v == want[t].value
            if not ok:
                problems.append(("slot-target", "%s at %#x must hold %s%s but holds %#x at base 0"
                                 % (where, place, t, "" if t in ("weak", "ifunc") or want[t] is None
                                    else " = %#x" % want[t].value, v)))
    cover = [(t, rep.cover.get(p, [])) for p, t, _w in expect]
    return problems, {"n_relr": rep.n_relr, "n_rela": rep.n_rela, "cover": cover,
                      "relr_sorted": rep.relr_sorted, "got_words": len(rep.got_words),
                      "slots": len(expect)}


def link_argv(arch, kind, relr, linker="wild"):
    a = []
    if arch == "aarch64":
        a += ["-m", "aarch64linux"]
    elif linker == "ld":
        a += ["-m", "elf_x86_64"]
    if kind == "pie":
        a += ["-pie", "--dynamic-linker=" + INTERP[arch]]
    elif kind == "static-pie":
        a += ["-static", "-pie"] + (["--no-dynamic-linker"] if linker == "ld" else [])
    else:
        a += ["-shared"]
    a += ["--no-gc-sections"]
    a += RELR[relr] if linker == "wild" else RELR_REF[linker][relr]
    return a + ["code.o", "data.o"]


G = {}


def _wdir():
    d = os.path.join(G["base"], "w%d" % os.getpid())
    os.makedirs(d, exist_ok=True)
    return d


def is_native(arch, kind, words=None):
    return arch == "x86_64" and kind == "pie" and not (
        words is not None and is_sk(words) and words[1] not in SK_NATIVE)


def write_inputs(d, arch, kind, words):
    if is_sk(words):
        check = sk_targets(words, 0, SK[words[1]][0][3]) if is_native(arch, kind, words) else None
    else:
        check = [w[3] for w in words] if is_native(arch, kind) else None
    co = code_object(arch, check)
    dst = os.path.join(d, "code.o")
    if isinstance(co, bytes):
        with open(dst, "wb") as f:
            f.write(co)
    else:
        try:
            os.unlink(dst)
        except OSError:
            pass
        try:
            os.link(co, dst)
        except OSError:
            import shutil
            shutil.copyfile(co, dst)
    with open(os.path.join(d, "data.o"), "wb") as f:
        f.write(data_object_sk(arch, words) if is_sk(words) else data_object(arch, words))


def judge(path, words, linker="wild"):
    """Run the oracle on one output. -> (problems, observed dict)."""
    if is_sk(words):
        return judge_sk(path, words, linker)
    e = elfread.Elf(path)
    syms = {s.name: s.value for s in e.symbols(".symtab")}
    abs_words, fixed_words, obs = [], [], []
    for i, (_al, _pad, _off, target) in enumerate(words):
        sfx = "" if i == 0 else str(i + 1)
        if "aw_word" + sfx not in syms or "probe_start" + sfx not in syms:
            return [("label-missing", "aw_word%s not in the output .symtab" % sfx)], {}
        w = syms["aw_word" + sfx]
        (abs_words if target in ABS_TARGETS else fixed_words).append(w)
        obs.append((syms["probe_start" + sfx] & 1, w & 1))
    rep = pieimage.compare(e, abs_words, fixed_words, BASES)
    cover = [rep.cover.get(w, []) for w in abs_words + fixed_words]
    return rep.problems, {"parity": obs, "n_relr": rep.n_relr, "n_rela": rep.n_rela,
                          "cover": cover, "relr_sorted": rep.relr_sorted,
                          "got_words": len(rep.got_words)}


def native(path):
    """Run twice; -> (ok, detail, base1, base2)."""
    os.chmod(path, 0o755)
    outs = []
    for _ in range(2):
        rc, so, se = vlib.run([path], timeout=30)
        if rc == "timeout":                     # loaded machine: one retry decides
            rc, so, se = vlib.run([path], timeout=300)
        outs.append((rc, so))
        if rc != 0 or len(so) != 11 or so[8:] != b"OK\n":
            return False, "exit=%r stdout=%r stderr=%r" % (rc, so[:40], se[:120]), None, None
    return True, "", outs[0][1][:8], outs[1][1][:8]


def job(item):
    arch, kind, relr, words, refs, run_native = item
    d = _wdir()
    write_inputs(d, arch, kind, words)
    out = os.path.join(d, "out")
    try:
        os.unlink(out)
    except OSError:
        pass
    argv = link_argv(arch, kind, relr) + ["-o", "out"]
    rc, msg = wildrun.server_link(argv, cwd=d)
    if rc == "timeout":      # a loaded machine, or a hang: one retry with a long limit decides
        rc, msg = wildrun.server_link(argv, cwd=d, timeout=600)
    problems, obs, nat = [], {}, None
    if rc == 0:
        try:
            problems, obs = judge(out, words)
        except elfread.ElfError as ex:
            problems = [("output-malformed", str(ex))]
        if run_native and is_native(arch, kind, words):
            nat = native(out)
    refres = []
    for ref in refs:
        rout = os.path.join(d, "ref")
        try:
            os.unlink(rout)
        except OSError:
            pass
        rargv = link_argv(arch, kind, relr, linker=ref) + ["-o", "ref"]
        p = subprocess.run([{"ld": "ld", "lld": "ld.lld"}[ref], *rargv], cwd=d,
                           stdin=subprocess.DEVNULL, stdout=subprocess.PIPE, stderr=subprocess.PIPE)
        rprob, robs, rnat = [], {}, None
        if p.returncode == 0:
            try:
                rprob, robs = judge(rout, words, ref)
            except elfread.ElfError as ex:
                rprob = [("output-malformed", str(ex))]
            if run_native and is_native(arch, kind, words) and ref == "ld":
                rnat = native(rout)
        refres.append((ref, p.returncode, rprob, robs, rnat,
                       p.stderr.decode("utf-8", "replace")[-300:]))
    return arch, kind, relr, words, rc, msg[-600:], problems, obs, nat, refres


def describe(arch, kind, relr, words):
    if is_sk(words):
        return {"arch": arch, "kind": kind, "relr": RELR[relr] or "off",
                "section_kind": words[1],
                "input_sections": [{"name": name, "words_refer_to": sk_targets(words, j, n)}
                                   for j, (name, _ty, _fl, n) in enumerate(SK[words[1]])]}
    return {"arch": arch, "kind": kind, "relr": RELR[relr] or "off",
            "words": [{"probe_section_align": a, "pad_bytes": p, "offset_in_section": o,
                       "refers_to": t} for a, p, o, t in words]}


def cell_name(words):
    if is_sk(words):
        return "sk-%s.r%d" % (words[1], words[2])
    return "+".join("a%d.p%d.o%d.%s" % w for w in words)


def members(chk):
    out = []
    relrs = ["off", "z"] + (["pdr"] if chk.thorough else [])
    for arch in ("x86_64", "aarch64"):
        for al, pad, off, t in itertools.product(ALIGNS, PADS, OFFSETS, TARGETS[arch]):
            for kind in KINDS:
                for relr in relrs:
                    out.append((arch, kind, relr, ((al, pad, off, t),)))
    # section-kind family (both tiers)
    for arch in ("x86_64", "aarch64"):
        for sk in SK:
            for rot in SK_ROTATIONS:
                for kind in KINDS:
                    if kind == "shared" and sk in SK_EXE_ONLY:
                        continue
                    for relr in ("off", "z"):
                        out.append((arch, kind, relr, ("sk", sk, rot)))
    if chk.thorough:
        # two-word programs: every ordered pair of (pad, offset-parity) cells of alignment-1 probe
        # sections x {local, func} (one allocation may cancel the other's mismatch)
        cells = [(1, p, o) for p in PADS for o in (0, 1)]
        for arch in ("x86_64", "aarch64"):
            for c1, c2 in itertools.product(cells, cells):
                for t in ("local", "func"):
                    for kind in KINDS:
                        for relr in ("off", "z"):
                            out.append((arch, kind, relr, (c1 + (t,), c2 + ("local",))))
    return out


def replay(path):
    with open(path) as fh:
        rep = json.load(fh)["replay"]
    arch, kind, relr = rep["arch"], rep["kind"], rep["relr"]
    words = tuple(rep["words"]) if rep["words"] and rep["words"][0] == "sk" else \
        tuple(tuple(w) for w in rep["words"])
    keep = "/dev/shm/c09-replay"
    os.makedirs(keep, exist_ok=True)
    write_inputs(keep, arch, kind, words)
    argv = link_argv(arch, kind, relr) + ["-o", "out"]
    print("cd %s && %s %s" % (keep, vlib.WILD, " ".join(argv)))
    rc, _o, err = wildrun.link_subprocess(argv, cwd=keep)
    err = err.decode("utf-8", "replace")
    print("wild rc=%s %s" % (rc, err.strip()[-500:]))
    bad = rc != 0 and bool(ALLOC_ERR.search(err))
    if rc == 0:
        problems, obs = judge(os.path.join(keep, "out"), words)
        print("observed:", obs)
        for k, m in problems:
            print("  %s: %s" % (k, m))
            bad = True
        if is_native(arch, kind, words):
            ok, detail, _b1, _b2 = native(os.path.join(keep, "out"))
            print("native:", "OK" if ok else detail)
            bad = bad or not ok
    ref = "ld" if arch == "x86_64" else "lld"
    rargv = link_argv(arch, kind, relr, linker=ref) + ["-o", "ref"]
    p = subprocess.run([{"ld": "ld", "lld": "ld.lld"}[ref], *rargv], cwd=keep,
                       stdout=subprocess.PIPE, stderr=subprocess.PIPE)
    print("%s rc=%d %s" % (ref, p.returncode, p.stderr.decode()[-200:]))
    if p.returncode == 0:
        print("  oracle on its output:", judge(os.path.join(keep, "ref"), words, ref))
    print("REPRODUCED" if bad else "not reproduced")
    return 1 if bad else 0


def oracle_selftest(base):
    """Sensitivity of the oracle: a GNU ld PIE of a two-word program (one even place -> RELR, one
    odd place -> RELA) is corrupted in 6 ways; each must draw the expected finding."""
    words = ((8, 0, 0, "local"), (1, 0, 1, "global"))
    d = os.path.join(base, "self")
    os.makedirs(d, exist_ok=True)
    write_inputs(d, "x86_64", "shared", words)
    p = subprocess.run(["ld", *link_argv("x86_64", "pie", "z", linker="ld"), "-o", "self.out"],
                       cwd=d, stdout=subprocess.PIPE, stderr=subprocess.PIPE)
    if p.returncode != 0:
        return 0, ["GNU ld failed: " + p.stderr.decode()[-200:]]
    path = os.path.join(d, "self.out")
    good = open(path, "rb").read()
    problems, obs = judge(path, words)
    if problems or obs["n_relr"] != 1 or obs["cover"] != [["relr"], ["rel"]]:
        return 0, ["pristine output: %r %r" % (problems, obs)]
    e = elfread.Elf(data=good)
    rela, relr = e.section(".rela.dyn"), e.section(".relr.dyn")
    ent = next(i for i in range(rela.sh_size // 24)
               if struct.unpack_from("<Q", good, rela.sh_offset + 24 * i + 8)[0] & 0xffffffff == 8)
    ro = rela.sh_offset + 24 * ent
    relr_word = struct.unpack_from("<Q", good, relr.sh_offset)[0]
    cases = []

    def case(want, off, value):
        buf = bytearray(good)
        struct.pack_into("<Q", buf, off, value)
        cases.append((want, bytes(buf)))

    place = struct.unpack_from("<Q", good, ro)[0]
    case("uncovered", ro + 8, 0)                       # RELATIVE -> NONE
    case("uncovered", ro, place + 16)                  # RELATIVE moved off the word
    case("overlap", ro, place + 1)                     # ... onto a straddling place
    case("shift", ro + 8, 1)                           # RELATIVE -> R_X86_64_64 against symbol 0
    case("relr-stray", relr.sh_offset, relr_word + 16)   # RELR entry names another place
    case("double", ro, relr_word)                      # RELA and RELR on the same word
    missed = []
    for want, blob in cases:
        with open(path, "wb") as f:
            f.write(blob)
        got = {k for k, _ in judge(path, words)[0]}
        if want not in got:
            missed.append("%s (oracle said %s)" % (want, sorted(got)))
    n2, missed2 = selftest_moved_words(d)
    return len(cases) + n2, missed + missed2


def selftest_moved_words(d):
    """Sensitivity to relocations that describe the wrong slots of a section whose words the
    linker moves (.ctors merged into .init_array, reversed): GNU ld's correct output of the
    `ctors` member is made inconsistent in the two ways such a defect shows -
      rela: every RELA place inside the region is mirrored (the bytes stay),
      relr: the words of the region are mirrored (the RELR table stays) -
    and in both the oracle must object."""
    words = ("sk", "ctors", 2)      # rotation 2: no relocated word sits on the middle slot,
    n = SK["ctors"][0][3]           # which a reversal leaves in place
    missed, count = [], 0
    for relr, mode in (("off", "rela"), ("z", "relr"), ("z", "rela")):
        write_inputs(d, "x86_64", "shared", words)
        p = subprocess.run(["ld", *link_argv("x86_64", "pie", relr, linker="ld"), "-o", "mv.out"],
                           cwd=d, stdout=subprocess.PIPE, stderr=subprocess.PIPE)
        path = os.path.join(d, "mv.out")
        if p.returncode != 0:
            return count, ["GNU ld failed: " + p.stderr.decode()[-200:]]
        if judge(path, words, "ld")[0]:
            return count, ["pristine ctors output: %r" % (judge(path, words, "ld")[0],)]
        buf = bytearray(open(path, "rb").read())
        e = elfread.Elf(data=bytes(buf))
        start = next(s.value for s in e.symbols(".symtab") if s.name == "sk_start0")
        lo, hi = start, start + 8 * n
        if mode == "rela":
            rela = e.section(".rela.dyn")
            for i in range(rela.sh_size // 24):
                off = rela.sh_offset + 24 * i
                place = struct.unpack_from("<Q", buf, off)[0]
                if lo <= place < hi:
                    struct.pack_into("<Q", buf, off, lo + (hi - 8) - place)
        else:
            fo = e.vaddr_to_offset(lo)
            ws = [bytes(buf[fo + 8 * i:fo + 8 * i + 8]) for i in range(n)]
            buf[fo:fo + 8 * n] = b"".join(ws[::-1])
        with open(path, "wb") as f:
            f.write(buf)
        got = {k for k, _ in judge(path, words, "ld")[0]}
        count += 1
        if not got & {"slot-target", "fixed-reloc", "uncovered", "relr-stray"}:
            missed.append("moved-words/%s/%s (oracle said %s)" % (relr, mode, sorted(got)))
    return count, missed


def main():
    chk = vlib.Check("C09", "exploration")
    if chk.args.replay:
        sys.exit(replay(chk.args.replay))
    if not chk.args.no_build:
        vlib.build("wild")
    mem = members(chk)
    # pre-assemble the gas variants in the parent (7 cached objects)
    for t in TARGETS["x86_64"]:
        code_object("x86_64", [t])
    code_object("x86_64", None)
    if chk.thorough:
        for t in ("local", "func"):
            code_object("x86_64", [t, "local"])
    items = []
    for i, (arch, kind, relr, words) in enumerate(mem):
        refs = []
        if is_sk(words):
            # the slot-order expectation is calibrated on every x86-64 member by GNU ld (the
            # referee) and on lld (which keeps .ctors/.dtors forward) on one rotation
            if arch == "x86_64":
                refs = ["ld"] + (["lld"] if chk.thorough and words[2] == 0 else [])
            elif chk.thorough or words[2] == 0:
                refs = ["lld"]
        elif relr != "pdr" or arch == "aarch64":
            if arch == "x86_64":
                # GNU ld: every x86-64 member in the thorough tier, every 4th in the quick tier
                # (and every member whose alignment-1 probe section is pushed to an odd address)
                if chk.thorough or i % 4 == 0 or any(w[0] == 1 and w[1] == 1 for w in words):
                    refs.append("ld")
            elif (chk.thorough and i % 3 == 0) or i % 24 == 0:
                refs.append("lld")
        items.append((arch, kind, relr, words, refs, True))
    if chk.seed:
        import random
        random.Random(chk.seed).shuffle(items)
    st = dict(links=0, accepted=0, rejected=0, native_members=0, native_ok=0, native_runs=0,
              distinct_bases=0, relr_unsorted=0, sk_links=0, sk_accepted=0, sk_slots=0)
    refst = {"ld": dict(links=0, accepted=0, flagged=0, rejected=0, native_ok=0, native_members=0),
             "lld": dict(links=0, accepted=0, flagged=0, rejected=0)}
    ref_flags, rejected, cells, parity_cells, cover_hist = {}, {}, set(), set(), {}
    twin = {}
    results = []
    samples = []
    capped = False
    t0 = time.time()
    with vlib.scratch("c09") as base:
        G["base"] = base
        n_self, missed = oracle_selftest(base)
        if missed:
            chk.machinery("oracle self-test: corruption not detected / setup failed: %s" % missed)
        cap_s = int(os.environ.get("VERIF_WALL_CAP", 840 if chk.thorough else 40))
        for r in vlib.pmap_unordered(job, items, chunksize=8):
            results.append(r)
            if time.time() - t0 > cap_s:
                capped = True
                break
    order = {(it[0], it[1], it[2], it[3]): i for i, it in enumerate(members(chk))}
    results.sort(key=lambda r: order[(r[0], r[1], r[2], r[3])])
    for arch, kind, relr, words, rc, msg, problems, obs, nat, refres in results:
        if rc == 0:
            twin[(arch, kind, words)] = obs.get("parity")
    for arch, kind, relr, words, rc, msg, problems, obs, nat, refres in results:
        st["links"] += 1
        st["sk_links"] += is_sk(words)
        rep = {"arch": arch, "kind": kind, "relr": relr, "words": words,
               "describe": describe(arch, kind, relr, words)}
        sk = is_sk(words)
        tkinds = "sk-" + words[1] if sk else "+".join(w[3] for w in words)
        ref_ok = "not run on this member in this tier" if not refres else \
            "; ".join("%s: %s" % (r, "links it, its output passes the oracle" if rrc == 0 and not rprob
                                  else "rc=%s %s" % (rrc, rprob)) for r, rrc, rprob, *_ in refres)
        if rc == 0:
            st["accepted"] += 1
            if sk:
                st["sk_accepted"] += 1
                st["sk_slots"] += obs.get("slots", 0)
                cells.add((arch, kind, relr, "sk", words[1], words[2]))
                for t, cov in obs.get("cover", []):
                    hk = "sk:%s:%s:%s" % (t, "relr-on" if relr != "off" else "relr-off",
                                          "+".join(cov) or "none")
                    cover_hist[hk] = cover_hist.get(hk, 0) + 1
            else:
                for (sp, wp), w in zip(obs.get("parity", []), words):
                    parity_cells.add((arch, w[0], sp, wp))
                    cells.add((arch, kind, relr, w[0], sp, w[2], w[3]))
                for cov, w in zip(obs.get("cover", []), words):
                    hk = "%s:%s:%s" % (w[3], "relr-on" if relr != "off" else "relr-off",
                                       "+".join(cov) or "none")
                    cover_hist[hk] = cover_hist.get(hk, 0) + 1
            if not obs.get("relr_sorted", True):
                st["relr_unsorted"] += 1
            for k in sorted({k for k, _ in problems}):
                what = next(m for kk, m in problems if kk == k)
                chk.violation("%s:%s:%s:%s" % (k, kind, "relr" if relr != "off" else "norelr",
                                               tkinds),
                              "[%s %s] %s" % (arch, cell_name(words), what), rep)
            if nat is not None:
                st["native_members"] += 1
                st["native_runs"] += 2
                ok, detail, b1, b2 = nat
                if ok:
                    st["native_ok"] += 1
                    st["distinct_bases"] += b1 != b2
                else:
                    chk.violation("native:%s:%s" % ("relr" if relr != "off" else "norelr", tkinds),
                                  "[%s] self-check failed under the system loader: %s"
                                  % (cell_name(words), detail), rep)
            if sk and relr != "off" and words[1] == "ctors.N" and not any(
                    "section_kind" in x for x in samples):
                samples.append(dict(rep["describe"], observed=obs))
            if not sk and len(samples) < 4 and relr != "off" and words[0][0] == 1 and \
                    words[0][1] == 1:
                samples.append(dict(rep["describe"], observed=obs))
        elif rc == 1:
            st["rejected"] += 1
            first = msg.strip().split("\n")
            line = next((l.strip() for l in first if ALLOC_ERR.search(l)),
                        [l.strip() for l in first if l.strip()][-1])
            if ALLOC_ERR.search(msg):
                par = twin.get((arch, kind, words))
                odd_sec = not sk and (any(sp for sp, _wp in par) if par else any(
                    w[0] == 1 and w[1] == 1 for w in words))
                key = "relr-parity:odd-section-address" if (relr != "off" and odd_sec) else \
                    "alloc-error:%s:%s:%s" % (kind, "relr" if relr != "off" else "norelr", tkinds)
                chk.violation(key, "[%s %s %s %s] wild fails with an allocation-accounting "
                              "internal error: %s (reference linker: %s)"
                              % (arch, kind, relr, cell_name(words), line[:200], ref_ok), rep)
            else:
                rk = "%s %s %s: %s" % (arch, kind, tkinds, re.sub(r"0x[0-9a-f]+|#\d+|\b\d+\b", "N",
                                                                   line)[:100])
                rejected.setdefault(rk, []).append(cell_name(words))
        else:
            chk.violation("crash:rc=%s:%s:%s" % (rc, kind, tkinds), "wild died: %s" % msg[-300:], rep)
        for ref, rrc, rprob, robs, rnat, rerr in refres:
            r = refst[ref]
            r["links"] += 1
            if rrc != 0:
                r["rejected"] += 1
                continue
            r["accepted"] += 1
            if rprob:
                r["flagged"] += 1
                for k in {k for k, _ in rprob}:
                    ref_flags.setdefault("%s:%s:%s:%s" % (ref, k, kind, tkinds), []).append(
                        (arch, relr, cell_name(words), next(m for kk, m in rprob if kk == k)))
            if rnat is not None:
                r["native_members"] += 1
                r["native_ok"] += bool(rnat[0])
                if not rnat[0]:
                    ref_flags.setdefault("%s:native:%s:%s" % (ref, kind, tkinds), []).append(
                        (arch, relr, cell_name(words), rnat[1]))
    if ref_flags:
        k, v = sorted(ref_flags.items())[0]
        chk.machinery("oracle flags a reference linker's own output: %s on %d outputs, e.g. %s; "
                      "all: %s" % (k, len(v), v[0], sorted(ref_flags)))
    chk.coverage = {
        "evaluations": st["links"],
        "distinct_nontrivial": len(cells),
        "rule": "product of arch x probe alignment {1,2,8} x pad {0,1} x word offset {0,1,2,7,8} x "
                "target kind (x86-64: 7, AArch64: 5) x output kind {pie, static-pie, shared} x "
                "relr setting (quick: off, -z pack-relative-relocs; thorough: also "
                "--pack-dyn-relocs=relr and the two-word programs), enumerated completely; plus "
                "the section-kind family (12 section kinds x 2 rotations x 3 output kinds x relr "
                "off/on x 2 architectures, .preinit_array not in shared objects), also complete. "
                "distinct_nontrivial = distinct (arch, kind, relr, alignment, observed section "
                "address parity, offset, target) cells among accepted outputs (the parity is read "
                "from the output, not assumed)",
        "exhaustive": not capped,
        "capped": "wall cap hit after %d of %d members" % (len(results), len(items)) if capped
                  else None,
        "members_planned": len(items),
        "section_kind_family": {"members": st["sk_links"], "accepted": st["sk_accepted"],
                                "address_slots_judged": st["sk_slots"], "kinds": list(SK),
                                "rotations": list(SK_ROTATIONS)},
        "wild_links": st["links"], "wild_accepted": st["accepted"], "wild_rejected": st["rejected"],
        "wild_rejections_by_message": {k: len(v) for k, v in sorted(rejected.items())},
        "observed_parity_cells": sorted("%s:align%d:section-%s:place-%s"
                                        % (a, al, "odd" if sp else "even", "odd" if wp else "even")
                                        for a, al, sp, wp in parity_cells),
        "covering_relocation_histogram": dict(sorted(cover_hist.items())),
        "relr_tables_not_ascending": st["relr_unsorted"],
        "native_members": st["native_members"], "native_ok": st["native_ok"],
        "native_runs": st["native_runs"], "native_members_with_two_distinct_bases":
            st["distinct_bases"],
        "oracle_selftest": "%d corruptions of GNU ld outputs' dynamic relocations / moved words, all detected"
                           % n_self,
        "calibration": refst,
        "subprocesses": st["native_runs"] + refst["ld"]["links"] + refst["lld"]["links"]
        + 2 * refst["ld"]["native_members"] + 9,
        "violation_keys": _key_counts(chk),
        "samples": samples or [describe(*mem[0])],
        "wall_links_s": round(time.time() - t0, 1),
    }
    chk.assumptions = [
        "the model resolves symbolic relocations inside the output itself (a lone module); IRELATIVE "
        "counts as relative (the resolver is not run by the model; it is run natively for x86-64 PIE)",
        "linker-made GOT slots carrying an address-type dynamic relocation are accepted as absolute "
        "words of the output",
        "ascending order of RELR entries is reported (relr_tables_not_ascending), not demanded",
        "AArch64 outputs are judged statically only",
        "init/fini/ctors/dtors/.tdata members are judged statically only (the loader would call "
        "the slots); .data / .data.rel.ro / custom-section members of x86-64 PIE are also run",
        "wild's slot order for .ctors/.dtors is expected to be GNU ld's (reversed inside each "
        "input section); on AArch64, where only lld is available and lld does not merge .ctors, "
        "that expectation rests on the x86-64 calibration",
    ]
    chk.finish()


def _key_counts(chk):
    out = {}
    for key, _what, _rep in chk.violations:
        out[key] = out.get(key, 0) + 1
    for key, n in chk.known_hits.items():
        out[key] = out.get(key, 0) + n
    return dict(sorted(out.items()))


if __name__ == "__main__":
    main()
