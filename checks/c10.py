#!/usr/bin/env python3
"""C10 - Unwind tables cover every retained function.

Bounded-exhaustive family of generated x86-64 programs (objects assembled once by gas and cached,
every member linked by the real wild through the in-process server).

Program = r.o (entry `_start`, no CFI; calls every function that must stay) a.o (function slots
0,1) d.o (second copies of COMDAT functions) b.o (slots 2,3) lib.a (one member per slot whose
function lives in an archive member nothing refers to), in this order.  Each of the 4 slots is in
one of 8 states = fate x has-FDE:
  R  retained: global, own section, called from _start
  G  collectable: local, own section, unreferenced (dropped with --gc-sections)
  C  COMDAT: the same group signature in two objects; slots 0,1: a.o's copy wins, d.o's loses;
     slots 2,3: d.o's copy wins, b.o's loses.  FDE flag 1: both copies have an FDE; 0: the
     winning copy has none and the losing copy has one
  A  in an archive member that is never loaded
x CIE shape {one default CIE per object; odd slots use .cfi_personality (distinct "zPR" CIE);
odd slots use .cfi_signal_frame (distinct "zRS" CIE)} x --gc-sections / --no-gc-sections x
{static executable, -shared} x {--eh-frame-hdr, --no-eh-frame-hdr}.

Ground truth without any linker: every copy of every function starts with `mov $0x5AFE00<id>,
%eax`; a copy is retained exactly when its marker is found in an executable section of the output,
and the marker's address is the function's address.  Whether the copy had an FDE in its input,
with which CIE shape and which size, is known by construction.

Oracle (elfread's independent .eh_frame / .eh_frame_hdr decoder on the output):
  * .eh_frame is a gap-free sequence of CIE/FDE records (an optional zero terminator only at the
    very end); every FDE's CIE pointer lands on a CIE, of the shape its function was given
    (augmentation string, personality address);
  * every FDE's pc_begin is the address of a retained copy that had an FDE in its input, its range
    is that function's size; every retained copy that had an FDE has exactly one FDE;
  * with --eh-frame-hdr, when a header is produced: version 1, eh_frame_ptr = address of
    .eh_frame, fde_count = number of FDEs, table strictly ascending by initial location, each
    entry's FDE address is the address of an FDE whose pc_begin equals the entry's location, and
    PT_GNU_EH_FRAME covers exactly the section;
  * with --no-eh-frame-hdr: neither an .eh_frame_hdr section nor a PT_GNU_EH_FRAME segment.
Thread sweep: a sub-family linked with --threads {1,2,4,16} x WILD_FILES_PER_GROUP {unset,1}
must give byte-identical .eh_frame and .eh_frame_hdr (contents and addresses).
Reference run (sanity of generator and oracle, not a verdict): GNU ld links a sample of the
members and its outputs must pass the same oracle.
Thorough tier also runs a native unwinder test: a static glibc program whose 3 generated frames
(one per object, COMDAT duplicate and collected neighbours in between) are walked by libgcc's
_Unwind_Backtrace, linked by wild (gcc -B<dir with ld -> wild>) and by GNU ld."""
import itertools
import json
import os
import re
import struct
import subprocess
import sys

sys.path.insert(0, os.path.join(os.path.dirname(os.path.abspath(__file__)), "..", "lib"))
import vlib
import wildrun
import elfread

FATES = "RGCA"
STATES = [(f, e) for f in FATES for e in (1, 0)]
CIES = ["default", "personality", "signal"]
SLOT_OBJ = {0: "a", 1: "a", 2: "b", 3: "b"}
COPY_CODE = {"m": 0, "d": 1, "x": 2}
PLT_SECTIONS = (".plt", ".plt.sec", ".plt.got", ".iplt")
AUG = {"default": "zR", "personality": "zPR", "signal": "zRS"}


def marker_id(slot, copy):
    return slot * 4 + COPY_CODE[copy]


def func_size(slot):
    return 5 + slot + 1                      # mov imm32, <slot> nops, ret


def func_src(slot, copy, fde, linkage, cie):
    name = f"f{slot}"
    alt = cie if slot & 1 else "default"
    if linkage == "comdat":
        s = f'.section .text.{name},"axG",@progbits,{name},comdat\n.weak {name}\n.hidden {name}\n'
    else:
        s = f'.section .text.{name},"ax",@progbits\n'
        if linkage == "global":
            s += f".globl {name}\n"
    s += f".type {name},@function\n{name}:\n"
    if fde:
        s += " .cfi_startproc\n"
        if alt == "personality":
            s += " .cfi_personality 0x1b, pers\n"
        elif alt == "signal":
            s += " .cfi_signal_frame\n"
    s += f" mov $0x5AFE00{marker_id(slot, copy):02x}, %eax\n" + " nop\n" * slot + " ret\n"
    if fde:
        s += " .cfi_endproc\n"
    return s + f".size {name},.-{name}\n"


def plan(states, cie, order=0):
    """-> (sources {role: asm or None}, copies {marker id: info}, archive slots [(slot, fde)])."""
    src = {"r": "", "a": "", "b": "", "d": ""}
    copies = {}
    calls = []
    arch = []

    def add(obj, slot, copy, fde, linkage, fate, wins):
        src[obj] += func_src(slot, copy, fde, linkage, cie)
        copies[marker_id(slot, copy)] = dict(
            slot=slot, copy=copy, fde=fde, fate=fate, obj=obj, wins=wins,
            cie=(cie if slot & 1 else "default"), size=func_size(slot))

    for slot, (fate, fde) in enumerate(states):
        obj = SLOT_OBJ[slot]
        if fate == "R":
            add(obj, slot, "m", fde, "global", fate, True)
            calls.append(slot)
        elif fate == "G":
            add(obj, slot, "m", fde, "local", fate, True)
        elif fate == "C":
            calls.append(slot)
            if obj == "a":                  # a.o's copy wins
                add("a", slot, "m", fde, "comdat", fate, True)
                add("d", slot, "d", 1, "comdat", fate, False)
            else:                           # d.o's copy (earlier on the command line) wins
                add("d", slot, "d", fde, "comdat", fate, True)
                add("b", slot, "m", 1, "comdat", fate, False)
        else:
            arch.append((slot, fde))
            copies[marker_id(slot, "x")] = dict(
                slot=slot, copy="x", fde=fde, fate=fate, obj="x", wins=False,
                cie=(cie if slot & 1 else "default"), size=func_size(slot))
    if order & 1:
        # Declare each object's function sections in reverse order first: the sections (and so the
        # functions' addresses) then run opposite to the FDEs in that object's .eh_frame.
        for role in ("a", "b", "d"):
            decl = re.findall(r"^\.section [^\n]*\n", src[role], re.M)
            if len(decl) > 1:
                src[role] = "".join(reversed(decl)) + src[role]
    need_pers = cie == "personality"
    r = '.section .text._start,"ax",@progbits\n.globl _start\n.type _start,@function\n_start:\n'
    r += "".join(f" call f{s}\n" for s in calls)
    if need_pers:
        r += " call pers\n"
    r += " ret\n.size _start,.-_start\n"
    if need_pers:
        r += ('.section .text.pers,"ax",@progbits\n.globl pers\n.hidden pers\n'
              ".type pers,@function\npers:\n mov $0x5AFE00ff, %eax\n ret\n.size pers,.-pers\n")
    src["r"] = r
    return src, copies, arch


def arch_member_src(slot, fde, cie):
    return func_src(slot, "x", fde, "global", cie)


# An object whose only content is a 4-byte zero word in .eh_frame: the shape of crtend.o's
# terminator (too short to be a CIE or FDE).  With member field `order` & 2 it is linked between
# a.o and d.o, so that .eh_frame contributions with FDEs follow it in the same output section.
TRAILER_SRC = '.section .eh_frame,"a",@progbits\n.long 0\n'

OBJ = {}          # asm source -> object path (filled before the worker pool is forked)
AR = {}           # (arch tuple, cie) -> archive path


def write_ar(path, members):
    """members: [(name, bytes, [defined global symbols])] -> GNU ar with a symbol index."""
    names = b"".join(s.encode() + b"\0" for _n, _d, syms in members for s in syms)
    nsyms = sum(len(syms) for _n, _d, syms in members)
    symsize = 4 + 4 * nsyms + len(names)
    symsize += symsize & 1

    def hdr(name, size):
        return ("%-16s%-12d%-6d%-6d%-8s%-10d`\n" % (name, 0, 0, 0, "644", size)).encode()

    pos = 8 + 60 + symsize
    offs = []
    for n, d, syms in members:
        offs += [pos] * len(syms)
        pos += 60 + len(d) + (len(d) & 1)
    body = struct.pack(">I", nsyms) + b"".join(struct.pack(">I", o) for o in offs) + names
    body += b"\0" * (symsize - len(body))
    out = b"!<arch>\n" + hdr("/", symsize) + body
    for n, d, _syms in members:
        out += hdr(n + "/", len(d)) + d + (b"\n" if len(d) & 1 else b"")
    with open(path, "wb") as f:
        f.write(out)


def member_inputs(m):
    states, cie, gc, kind, hdr, order = m
    src, copies, arch = plan(states, cie, order)
    files = [OBJ[src["r"]]]
    for role in ("a", "d", "b"):
        if src[role]:
            files.append(OBJ[src[role]])
        if role == "a" and order & 2:
            files.append(OBJ[TRAILER_SRC])
    if arch:
        files.append(AR[(tuple(arch), cie)])
    return files, copies


def member_flags(m):
    states, cie, gc, kind, hdr, order = m
    fl = ["--gc-sections" if gc else "--no-gc-sections",
          "--eh-frame-hdr" if hdr else "--no-eh-frame-hdr"]
    if kind == "shared":
        fl.append("-shared")
    return fl


def state_str(states):
    return "".join(f"{f}{e}" for f, e in states)


# ----------------------------------------------------------------------------------- the oracle
MARK = re.compile(rb"\xb8(.)\x00\xfe\x5a", re.S)


def find_markers(e):
    out = {}
    for s in e.sections:
        if s.sh_flags & elfread.SHF_EXECINSTR and s.sh_flags & elfread.SHF_ALLOC \
                and s.sh_type == elfread.SHT_PROGBITS:
            for mt in MARK.finditer(s.data):
                out.setdefault(mt.group(1)[0], []).append(s.sh_addr + mt.start())
    return out


def judge(path, m, copies):
    """-> (violations [(key, what)], stats)."""
    states, cie, gc, kind, hdr_on, order = m
    v, st = [], {}
    e = elfread.Elf(path)
    marks = find_markers(e)
    addr2copy = {}
    for cid, addrs in marks.items():
        if cid == 0xff:
            continue
        if cid not in copies:
            return [("machinery:unknown-marker", f"marker {cid:#x} in the output")], st
        for a in addrs:
            addr2copy[a] = cid
    pers_addr = marks.get(0xff, [None])[0]
    # Deviations from the designed fates (not C10's business; they are counted).
    dev = []
    for cid, c in copies.items():
        n = len(marks.get(cid, []))
        if n > 1:
            dev.append(f"copy-twice:{c['fate']}")
        exp = {"R": 1, "A": 0, "G": 0 if gc else 1, "C": 1 if c["wins"] else 0}[c["fate"]]
        if n != exp and n <= 1:
            dev.append(f"{c['fate']}:{'winner' if c['wins'] else 'loser'}:"
                       f"{'kept' if n else 'dropped'}:{'gc' if gc else 'nogc'}")
    st["fate_deviations"] = dev
    # ---- .eh_frame
    sec = e.section(".eh_frame")
    # With a trailer object in the middle of the inputs, zero words between records are the
    # input's own bytes (GNU ld drops them, wild keeps them; the property is silent on them):
    # decode through them and count them.
    e.eh_frame_skip_zero = bool(order & 2)
    try:
        recs = e.eh_frame()
    except elfread.ElfError as ex:
        msg = str(ex)
        key = "eh_frame:bad-cie-pointer" if "not a preceding CIE" in msg else "eh_frame:malformed"
        return [(key, msg)], st
    fdes = [r for r in recs if isinstance(r, elfread.FDE)]
    cies = [r for r in recs if isinstance(r, elfread.CIE)]
    st["n_fde"], st["n_cie"] = len(fdes), len(cies)
    if sec is not None:
        end = recs[-1].offset + recs[-1].length if recs else 0
        tail = sec.data[end:]
        if not (len(tail) == 0 or tail == b"\0\0\0\0"):
            v.append(("eh_frame:tail", f"{len(tail)} bytes after the last record at {end:#x}: "
                      f"{tail[:16].hex()}"))
        st["terminator"] = len(tail) == 4
        st["interior_zero_words"] = len(getattr(e, "eh_frame_zero_words", []))
    per_copy = {}
    for f in fdes:
        cid = addr2copy.get(f.pc_begin)
        if cid is None and any(s.name in PLT_SECTIONS and s.sh_addr <= f.pc_begin and
                               f.pc_begin + f.pc_range <= s.sh_addr + s.sh_size
                               for s in e.sections):
            st["plt_fdes"] = st.get("plt_fdes", 0) + 1       # linker-made code, linker-made FDE
            continue
        if cid is None:
            if f.pc_begin == 0:
                cls = "pc-zero"
            elif any(s.sh_flags & elfread.SHF_EXECINSTR and s.sh_addr <= f.pc_begin < s.sh_addr +
                     s.sh_size for s in e.sections):
                cls = "inside-text-not-a-function-start"
            else:
                cls = "outside-text"
            v.append((f"fde-orphan:{cls}", f"FDE at .eh_frame+{f.offset:#x} has pc_begin "
                      f"{f.pc_begin:#x} (+{f.pc_range:#x}), which is not the start of a retained "
                      f"function; retained: {sorted(hex(a) for a in addr2copy)}"))
            continue
        c = copies[cid]
        per_copy[cid] = per_copy.get(cid, 0) + 1
        if not c["fde"]:
            v.append((f"fde-invented:{c['fate']}", f"FDE for f{c['slot']} copy {c['copy']}, which "
                      f"had none in its input"))
            continue
        if f.pc_range != c["size"]:
            v.append((f"fde-range:{c['fate']}", f"FDE for f{c['slot']} has range {f.pc_range}, "
                      f"function size {c['size']}"))
        aug = f.cie.augmentation
        if aug != AUG[c["cie"]] or (c["cie"] == "personality" and f.cie.personality != pers_addr):
            v.append((f"fde-wrong-cie:{c['cie']}", f"FDE for f{c['slot']} ({c['cie']}) is linked to "
                      f"a CIE with augmentation {aug!r} personality "
                      f"{f.cie.personality and hex(f.cie.personality)} (pers at "
                      f"{pers_addr and hex(pers_addr)})"))
        if f.cie.fde_encoding != 0x1b:
            v.append(("machinery:fde-encoding", f"unexpected FDE encoding {f.cie.fde_encoding:#x}"))
    n_expected = 0
    for a, cid in addr2copy.items():
        c = copies[cid]
        if c["fde"]:
            n_expected += 1
            n = per_copy.get(cid, 0)
            if n != 1:
                role = "winner" if c["wins"] else "loser"
                v.append((f"fde-{'missing' if n == 0 else 'duplicated'}:{c['fate']}:{role}:"
                          f"{c['cie']}", f"retained f{c['slot']} copy {c['copy']} at {a:#x} had an "
                          f"FDE in its input and has {n} in the output"))
    st["retained_with_fde"] = n_expected
    st["retained"] = len(addr2copy)
    return check_hdr(e, sec, fdes, hdr_on, v, st)


def check_hdr(e, sec, fdes, hdr_on, v, st):
    """The .eh_frame_hdr part of the oracle (independent of how the program was generated)."""
    hsec = e.section(".eh_frame_hdr")
    hseg = [p for p in e.segments if p.p_type == elfread.PT_GNU_EH_FRAME]
    if not hdr_on:
        if hsec is not None or hseg:
            v.append(("no-eh-frame-hdr:present", f"--no-eh-frame-hdr but section={hsec} "
                      f"segment={hseg}"))
        st["hdr"] = False
        return v, st
    st["hdr"] = hsec is not None
    if hsec is None and not hseg:
        return v, st                          # property is conditional on a header being produced
    if hsec is None or len(hseg) != 1 or hseg[0].p_vaddr != hsec.sh_addr or \
            hseg[0].p_filesz != hsec.sh_size or hseg[0].p_offset != hsec.sh_offset:
        v.append(("hdr:segment-mismatch", f"section {hsec} vs PT_GNU_EH_FRAME {hseg}"))
        if hsec is None:
            return v, st
    try:
        h = e.eh_frame_hdr()
    except elfread.ElfError as ex:
        v.append(("hdr:malformed", str(ex)))
        return v, st
    raw = hsec.data
    if h.fde_count is None:                   # count and table omitted (GNU ld without FDEs)
        h = h._replace(fde_count=0)
        raw = None
    elif raw[1:4] != bytes([0x1b, 0x03, 0x3b]):
        v.append(("machinery:hdr-encodings", f"encodings {raw[1:4].hex()} (expected 1b 03 3b)"))
    if sec is None:
        if h.fde_count:
            v.append(("hdr:no-eh_frame", f"fde_count {h.fde_count} but no .eh_frame"))
        return v, st
    if h.eh_frame_ptr != sec.sh_addr:
        v.append(("hdr:eh_frame_ptr", f"eh_frame_ptr {h.eh_frame_ptr:#x}, .eh_frame at "
                  f"{sec.sh_addr:#x}"))
    if h.fde_count != len(fdes):
        v.append((f"hdr:fde-count:{'more' if h.fde_count > len(fdes) else 'fewer'}",
                  f"fde_count {h.fde_count}, .eh_frame has {len(fdes)} FDEs"))
    if raw is not None and 12 + 8 * h.fde_count != len(raw):
        v.append(("hdr:size", f"section size {len(raw)} for fde_count {h.fde_count}"))
    by_addr = {f.vaddr: f for f in fdes}
    prev = None
    for loc, fa in h.table:
        if prev is not None and loc <= prev:
            v.append(("hdr:not-sorted", f"table {[(hex(a), hex(b)) for a, b in h.table]}"))
            break
        prev = loc
    seen = set()
    for loc, fa in h.table:
        f = by_addr.get(fa)
        if f is None:
            v.append(("hdr:entry-not-an-fde", f"entry ({loc:#x}, {fa:#x}) does not point at an FDE "
                      f"(FDEs at {sorted(hex(a) for a in by_addr)})"))
        elif f.pc_begin != loc:
            v.append(("hdr:entry-location-mismatch", f"entry location {loc:#x}, its FDE starts at "
                      f"{f.pc_begin:#x}"))
        seen.add(fa)
    if len(seen) != len(h.table):
        v.append(("hdr:duplicate-entry", f"{len(h.table)} entries for {len(seen)} FDEs"))
    missing = [hex(a) for a in by_addr if a not in seen]
    if missing and h.fde_count == len(fdes):
        v.append(("hdr:fde-without-entry", f"FDEs at {missing} have no table entry"))
    return v, st


def digest_eh(path):
    e = elfread.Elf(path)
    out = []
    for n in (".eh_frame", ".eh_frame_hdr"):
        s = e.section(n)
        out.append(None if s is None else (s.sh_addr, vlib.sha(s.data)))
    return out


def describe(m):
    states, cie, gc, kind, hdr, order = m
    return {"slots": state_str(states), "cie": cie, "gc": bool(gc), "kind": kind,
            "eh_frame_hdr": bool(hdr), "sections_reversed": bool(order & 1),
            "eh_frame_trailer_object_after_a": bool(order & 2)}


def replay_dict(m, extra=None):
    states, cie, gc, kind, hdr, order = m
    src, copies, arch = plan(states, cie, order)
    d = dict(describe(m), member=[list(map(list, states)), cie, gc, kind, hdr, order],
             flags=member_flags(m),
             inputs=["r.o"] + [x for r in ("a", "d", "b") if src[r] or (r == "a" and order & 2)
                              for x in ([f"{r}.o"] if src[r] else []) +
                              (["t.o"] if r == "a" and order & 2 else [])] +
                    (["lib.a (" + " ".join(f"x{s}.o" for s, _f in arch) + ")"] if arch else []),
             sources=dict({f"{k}.s": s for k, s in src.items() if s},
                          **({"t.s": TRAILER_SRC} if order & 2 else {})),
             archive_members={f"x{s}.s": arch_member_src(s, f, cie) for s, f in arch},
             how="python3 checks/c10.py --replay <this file> (keeps inputs and output in the "
                 "directory it prints); by hand: gcc -c each source, ar rc lib.a x*.o, "
                 "/verif/.build/bin/wild <flags> r.o a.o d.o b.o lib.a -o out; "
                 "readelf --debug-dump=frames -S -l out; objdump -d out")
    if extra:
        d.update(extra)
    return d


def run_member(item):
    base, m, env, threads, keep = item
    files, copies = member_inputs(m)
    out = os.path.join(base, keep or f"out.{os.getpid()}")
    try:
        os.unlink(out)
    except OSError:
        pass
    argv = ([f"--threads={threads}"] if threads else []) + member_flags(m) + files + ["-o", out]
    rc, msg = wildrun.server_link(argv, cwd=base, env=env or {})
    if rc != 0:
        return m, rc, msg[-300:], [], {}, None
    try:
        viol, st = judge(out, m, copies)
        dig = digest_eh(out)
    except elfread.ElfError as ex:
        viol, st, dig = [("output-malformed", str(ex))], {}, None
    if not keep:
        os.unlink(out)
    return m, rc, "", viol, st, dig


def run_ld(item):
    base, m = item
    files, copies = member_inputs(m)
    out = os.path.join(base, f"ld.{os.getpid()}")
    r = subprocess.run(["ld", *member_flags(m), *files, "-o", out], cwd=base,
                       stdout=subprocess.PIPE, stderr=subprocess.PIPE)
    if r.returncode != 0:
        return m, r.returncode, r.stderr.decode()[-300:], [], {}
    try:
        viol, st = judge(out, m, copies)
    except elfread.ElfError as ex:
        viol, st = [("output-malformed", str(ex))], {}
    os.unlink(out)
    return m, 0, "", viol, st


def _assemble(src):
    return src, vlib.assemble(src)


def prepare(members, base):
    """Assemble every distinct object and write every distinct archive the members need."""
    srcs, archs = set(), set()
    for m in members:
        src, _copies, arch = plan(m[0], m[1], m[5])
        srcs.update(s for s in src.values() if s)
        if m[5] & 2:
            srcs.add(TRAILER_SRC)
        if arch:
            archs.add((tuple(arch), m[1]))
            srcs.update(arch_member_src(s, f, m[1]) for s, f in arch)
    todo = sorted(s for s in srcs if s not in OBJ)
    n_new = sum(1 for s in todo if not os.path.exists(
        os.path.join(vlib.OBJCACHE, vlib.sha("x86_64" + "\0" + ".s" + "\0" + "" + "\0" + s)[:24] + ".o")))
    for s, p in vlib.pmap(_assemble, todo, chunksize=4):
        OBJ[s] = p
    os.makedirs(os.path.join(base, "ar"), exist_ok=True)
    for arch, cie in sorted(archs):
        if (arch, cie) in AR:
            continue
        p = os.path.join(base, "ar", "lib_" + "".join(f"{s}{f}" for s, f in arch) + f"_{cie}.a")
        mem = []
        for s, f in arch:
            with open(OBJ[arch_member_src(s, f, cie)], "rb") as fh:
                mem.append((f"x{s}.o", fh.read(), [f"f{s}"]))
        write_ar(p, mem)
        AR[(arch, cie)] = p
    return len(srcs), n_new, len(archs)


# ------------------------------------------------------------------------------------ families
def multisets():
    return list(itertools.combinations_with_replacement(STATES, 4))


def family(thorough):
    fam = []
    if thorough:
        for states in itertools.product(STATES, repeat=4):
            for gc, kind, hdr in itertools.product((1, 0), ("exe", "shared"), (1, 0)):
                fam.append((states, "default", gc, kind, hdr, 0))
            fam.append((states, "default", 0, "exe", 1, 1))
            for gc in (1, 0):
                fam.append((states, "default", gc, "exe", 1, 2))
            fam.append((states, "default", 1, "shared", 1, 3))
            for cie in ("personality", "signal"):
                fam.append((states, cie, 1, "exe", 1, 0))
                fam.append((states, cie, 1, "shared", 1, 0))
                fam.append((states, cie, 0, "exe", 1, 1))
                fam.append((states, cie, 1, "exe", 1, 2))
    else:
        for i, states in enumerate(multisets()):
            states = states[i % 4:] + states[:i % 4]       # vary which object gets which state
            for gc in (1, 0):
                fam.append((states, "default", gc, "exe", 1, 0))
            fam.append((states, "default", 0, "exe", 1, 1))
            fam.append((states, "default", 1, "shared", 1, 0))
            fam.append((states, "default", 1, "exe", 0, 0))
            fam.append((states, "default", i & 1, "exe", 1, 2))
    return fam


def sweep_family(thorough):
    sub = [s for s in itertools.product([("R", 1), ("G", 1), ("C", 1)], repeat=4)]
    if not thorough:
        sub = sub[:50]
    return [(s, "default", 0, "exe", 1, (i & 1) | (2 if i % 4 >= 2 else 0))
            for i, s in enumerate(sub)]


# ------------------------------------------------------------------- native unwinder (thorough)
UNW_MAIN = r"""
#define _GNU_SOURCE
#include <unwind.h>
#include <stdio.h>
extern void fa(void);
extern char fa_start[], fa_end[], fb_start[], fb_end[], fc_start[], fc_end[];
static int in(unsigned long ip, char *s, char *e) {
  return ip >= (unsigned long)s && ip < (unsigned long)e;
}
static _Unwind_Reason_Code cb(struct _Unwind_Context *c, void *arg) {
  unsigned long ip = _Unwind_GetIP(c);
  int *k = arg;
  if (in(ip, fa_start, fa_end)) puts("fa");
  else if (in(ip, fb_start, fb_end)) puts("fb");
  else if (in(ip, fc_start, fc_end)) puts("fc");
  return ++*k > 16 ? _URC_END_OF_STACK : _URC_NO_REASON;
}
void leaf(void) { int k = 0; _Unwind_Backtrace(cb, &k); printf("frames=%d\n", k > 3); fflush(stdout); }
int main(void) { fa(); return 0; }
"""


def unw_frame(name, callee, comdat=False):
    """A hand-written frame (no frame pointer: only the CFI says where the return address is)."""
    if comdat:
        sec = f'.section .text.{name},"axG",@progbits,{name},comdat\n'
        bind = ".weak"
    else:
        sec = f'.section .text.{name},"ax",@progbits\n'
        bind = ".globl"
    return (f"{sec}{bind} {name}\n{bind} {name}_start\n{bind} {name}_end\n"
            f".type {name},@function\n{name}_start:\n{name}:\n .cfi_startproc\n"
            f" sub $40, %rsp\n .cfi_adjust_cfa_offset 40\n call {callee}\n"
            f" add $40, %rsp\n .cfi_adjust_cfa_offset -40\n ret\n .cfi_endproc\n"
            f"{name}_end:\n.size {name},.-{name}\n")


def unwinder_test(base):
    """gcc -static with wild (via -B<dir with ld -> wild>) and with GNU ld: libgcc's
    _Unwind_Backtrace, started in leaf(), must walk through fc, fb (COMDAT, defined in two objects)
    and fa, which are surrounded by unreferenced functions with FDEs that --gc-sections drops."""
    d = os.path.join(base, "unw")
    os.makedirs(os.path.join(d, "B"), exist_ok=True)
    os.symlink(vlib.WILD, os.path.join(d, "B", "ld"))
    dead = ('.section .text.dead{0},"ax",@progbits\n.type dead{0},@function\ndead{0}:\n'
            " .cfi_startproc\n nop\n ret\n .cfi_endproc\n")
    files = {
        "main.c": UNW_MAIN,
        "a.s": dead.format(1) + unw_frame("fa", "fb") + dead.format(2),
        "b.s": unw_frame("fb", "fc", comdat=True) + dead.format(3),
        "b2.s": dead.format(4) + unw_frame("fb", "fc", comdat=True),
        "c.s": unw_frame("fc", "leaf") + dead.format(5),
    }
    for n, src in files.items():
        with open(os.path.join(d, n), "w") as f:
            f.write(src)
    res = {}
    nproc = 0
    for tag, extra in (("wild+hdr", ["-B" + os.path.join(d, "B"), "-Wl,--eh-frame-hdr"]),
                       ("wild-nohdr", ["-B" + os.path.join(d, "B"), "-Wl,--no-eh-frame-hdr"]),
                       ("ld+hdr", ["-Wl,--eh-frame-hdr"]), ("ld-nohdr", ["-Wl,--no-eh-frame-hdr"])):
        exe = os.path.join(d, "prog_" + tag)
        r = subprocess.run(["gcc", "-static", "-O1", "-fasynchronous-unwind-tables", *extra,
                            "-Wl,--gc-sections", "-o", exe, "main.c", "a.s", "b.s", "b2.s", "c.s"],
                           cwd=d, stdout=subprocess.PIPE, stderr=subprocess.PIPE)
        nproc += 8
        if r.returncode != 0:
            res[tag] = ["link-failed", r.stderr.decode()[-400:]]
            continue
        p = subprocess.run([exe], stdout=subprocess.PIPE, stderr=subprocess.PIPE, timeout=20)
        nproc += 1
        res[tag] = [p.returncode, p.stdout.decode().split()]
        if tag == "wild+hdr":                 # the generic part of the oracle on a real program
            e = elfread.Elf(exe)
            try:
                fdes = [r for r in e.eh_frame() if isinstance(r, elfread.FDE)]
                v, st = check_hdr(e, e.section(".eh_frame"), fdes, True, [], {})
            except elfread.ElfError as ex:
                v, fdes = [("eh_frame:malformed", str(ex))], []
            res["wild+hdr:static-glibc-program"] = {"fdes": len(fdes), "violations": v[:5]}
    return res, nproc, files


# ------------------------------------------------------------------------------------ the check
def replay(chk):
    with open(chk.args.replay) as f:
        doc = json.load(f)
    rp = doc["replay"]
    mm = rp["member"]
    m = (tuple(tuple(s) for s in mm[0]), mm[1], mm[2], mm[3], mm[4], mm[5] if len(mm) > 5 else 0)
    base = os.path.join("/dev/shm", f"verif.c10replay.{os.getpid()}")
    os.makedirs(base, exist_ok=True)
    prepare([m], base)
    files, _c = member_inputs(m)
    print("directory:", base)
    print("command: cd", base, "&&", vlib.WILD, " ".join(member_flags(m) + files + ["-o", "out"]))
    hit = False
    if doc["key"].startswith("sweep:"):
        b = run_member((base, m, {}, 1, "out_t1"))
        o = run_member((base, m, rp.get("env") or {}, rp.get("threads"), "out_cfg"))
        print("baseline:", b[5], "\nconfig  :", o[5])
        hit = b[5] != o[5] or b[1] != o[1]
    else:
        o = run_member((base, m, {}, None, "out"))
        print("rc:", o[1], o[2], "stats:", o[4])
        for k, w in o[3]:
            print("VIOLATION", k, w)
        hit = any(k == doc["key"] for k, _w in o[3]) or \
            (o[1] != 0 and doc["key"].startswith("link-failed"))
    print("REPRODUCED" if hit else "not reproduced")
    sys.exit(1 if hit else 0)


def main():
    chk = vlib.Check("C10", "exploration")
    if not chk.args.no_build:
        vlib.build("wild")
    if chk.args.replay:
        replay(chk)
    fam = family(chk.thorough)
    sweep = sweep_family(chk.thorough)
    if chk.seed:
        import random
        random.Random(chk.seed).shuffle(fam)
    nsub = 0
    n_eval = link_failed = 0
    sigs = set()
    deviations = {}
    hdr_absent = 0
    totals = dict(n_fde=0, n_cie=0, retained=0, retained_with_fde=0, interior_zero_words=0)
    samples = []
    unw = None
    with vlib.scratch("c10") as base:
        import time
        phase, t_ph = {}, time.time()

        def lap(name):
            nonlocal t_ph
            phase[name] = round(time.time() - t_ph, 1)
            t_ph = time.time()

        n_src, n_new, n_ar = prepare(fam + sweep, base)
        nsub += n_new
        lap("assemble+archives")
        results = wildrun.pmap(run_member, [(base, m, None, None, None) for m in fam], chunksize=16)
        for m, rc, msg, viol, st, _dig in results:
            n_eval += 1
            if rc != 0:
                link_failed += 1
                chk.violation(f"link-failed:{m[1]}:{m[3]}:rc={rc}",
                              f"wild failed on {describe(m)}: {msg}", replay_dict(m))
                continue
            for key, what in viol:
                if key.startswith("machinery:"):
                    chk.machinery(f"{key}: {what} on {describe(m)}")
                chk.violation(key, f"{what}; member {describe(m)}", replay_dict(m))
            for dv in st.get("fate_deviations", []):
                deviations[dv] = deviations.get(dv, 0) + 1
            for k in totals:
                totals[k] += st.get(k, 0)
            if m[4] and not st.get("hdr") and st.get("n_fde"):
                hdr_absent += 1
            # Non-trivial: FDEs both kept and dropped, i.e. the filter had to decide.
            _src, copies, _arch = plan(m[0], m[1], m[5])
            n_in = sum(1 for c in copies.values() if c["fde"])
            if 0 < st.get("n_fde", 0) < n_in:
                sigs.add((state_str(m[0]),) + tuple(m[1:]))
            if len(samples) < 3 and 0 < st.get("n_fde", 0) < n_in and m[0][0][0] != m[0][1][0]:
                samples.append(dict(describe(m), flags=member_flags(m), stats=st))
        lap("family")
        # ---- thread-count sweep
        cfgs = [(t, fpg) for t in (1, 2, 4, 16) for fpg in (None, "1")]
        items = [(base, m, ({"WILD_FILES_PER_GROUP": fpg} if fpg else {}), t, None)
                 for m in sweep for (t, fpg) in cfgs]
        sres = wildrun.pmap(run_member, items, procs=8, chunksize=8)
        n_sweep = 0
        basel = {}
        for (b_, m, env, t, _k), (m2, rc, msg, viol, st, dig) in zip(items, sres):
            n_sweep += 1
            if t == 1 and not env:
                basel[m] = (rc, dig)
        for (b_, m, env, t, _k), (m2, rc, msg, viol, st, dig) in zip(items, sres):
            if (rc, dig) != basel[m]:
                axis = "+".join(a for a, on in (("threads", t != 1), ("files-per-group", env)) if on)
                chk.violation(f"sweep:{axis}", f"{describe(m)} threads={t} env={env}: rc={rc} "
                              f".eh_frame/.eh_frame_hdr {dig} differ from threads=1 {basel[m]}",
                              replay_dict(m, {"threads": t, "env": env}))
            for key, what in viol:
                if not key.startswith("machinery:"):
                    chk.violation(key, f"{what}; member {describe(m)} threads={t} env={env}",
                                  replay_dict(m, {"threads": t, "env": env}))
        lap("sweep")
        # ---- GNU ld on a sample: validates generator + oracle (never a verdict about wild)
        step = 16 if chk.thorough else 22
        ref = [m for i, m in enumerate(fam) if i % step == 0][:600 if chk.thorough else 60]
        ref_bad = []
        for m, rc, msg, viol, st in vlib.pmap(run_ld, [(base, m) for m in ref], chunksize=4):
            nsub += 1
            if rc != 0:
                ref_bad.append((describe(m), "ld failed: " + msg))
            for key, what in viol:
                ref_bad.append((describe(m), key, what))
        if ref_bad:
            chk.machinery(f"GNU ld's output fails the oracle on {len(ref_bad)} sample members "
                          f"(generator or oracle defect): {ref_bad[:2]}")
        lap("gnu-ld-reference")
        # ---- native unwinder
        if chk.thorough:
            unw, np_, unw_files = unwinder_test(base)
            nsub += np_
            want = ["fc", "fb", "fa", "frames=1"]
            for key, what in unw.get("wild+hdr:static-glibc-program", {}).get("violations", []):
                chk.violation("unwinder:glibc-program:" + key, what,
                              {"files": unw_files, "how": "gcc -static -B<dir with ld -> wild> "
                               "-Wl,--eh-frame-hdr main.c a.s b.s b2.s c.s; readelf "
                               "--debug-dump=frames ; .eh_frame_hdr table vs FDEs"})
            for mode in ("+hdr", "-nohdr"):
                if unw["ld" + mode][1] != want:
                    chk.machinery(f"unwinder test: GNU ld reference does not give {want}: {unw}")
                w = unw["wild" + mode]
                flag = {"+hdr": "--eh-frame-hdr", "-nohdr": "--no-eh-frame-hdr"}[mode]
                how = {"files": unw_files, "how": "gcc -static -O1 -fasynchronous-unwind-tables "
                       f"-B<dir with ld -> wild> -Wl,{flag} -Wl,--gc-sections main.c a.s b.s b2.s "
                       "c.s && ./a.out"}
                if w[0] == "link-failed":
                    chk.violation(f"unwinder{mode}:link-failed", f"gcc -static -B<wild> failed: {w[1]}", how)
                elif w[1] != want:
                    chk.violation(f"unwinder{mode}:frames", f"_Unwind_Backtrace saw {w} (GNU ld: "
                                  f"{unw['ld' + mode]})", how)
    if not samples:
        samples.append(dict(describe(fam[0]), flags=member_flags(fam[0])))
    chk.coverage = {
        "evaluations": n_eval + n_sweep,
        "distinct_nontrivial": len(sigs),
        "rule": "member = (state of 4 function slots in {R,G,C,A}x{FDE,no FDE}, CIE shape, gc, "
                "output kind, eh-frame-hdr flag); non-trivial = the output keeps at least one but "
                "not all of the FDEs present in the loaded and unloaded inputs (the FDE filter "
                "decided both ways); distinct members counted",
        "samples": samples,
        "exhaustive": True,
        "family": ("all 8^4 ordered slot states x {gc,nogc} x {exe,shared} x {hdr,no hdr} with the "
                   "default CIE, + (nogc,exe,hdr,sections reversed); x {personality, signal} CIE "
                   "shapes with (gc,exe,hdr) (gc,shared,hdr) (nogc,exe,hdr,sections reversed); trailer axis "
                   "(an object whose .eh_frame is a lone 4-byte zero word, linked between a.o and "
                   "d.o): default CIE (gc,exe,hdr) (nogc,exe,hdr) (gc,shared,hdr,sections reversed), "
                   "other CIE shapes (gc,exe,hdr)") if chk.thorough else
                  ("330 multisets of slot states (multiset number i assigned to the slots rotated by i mod 4), default CIE: "
                   "(gc,exe,hdr) (nogc,exe,hdr) (nogc,exe,hdr,sections reversed) (gc,shared,hdr) "
                   "(gc,exe,no hdr) (gc for odd i,exe,hdr,trailer object with a lone zero word in "
                   ".eh_frame between a.o and d.o)"),
        "links": n_eval + n_sweep,
        "link_failed": link_failed,
        "sweep_members": len(sweep), "sweep_links": n_sweep,
        "sweep_configs": "threads {1,2,4,16} x WILD_FILES_PER_GROUP {unset,1}",
        "distinct_objects": n_src, "objects_assembled_this_run": n_new, "archives": n_ar,
        "gnu_ld_reference_members": len(ref),
        "subprocesses": nsub,
        "fdes_in_outputs": totals["n_fde"], "cies_in_outputs": totals["n_cie"],
        "retained_function_copies": totals["retained"],
        "retained_copies_with_input_fde": totals["retained_with_fde"],
        "interior_zero_words_in_outputs": totals["interior_zero_words"],
        "hdr_requested_but_absent_with_fdes": hdr_absent,
        "fate_deviations_from_design": deviations,
        "native_unwinder": unw,
        "phase_wall_s": phase,
        "thinning": "default CIE: none; personality/signal CIE shapes: 3 of the 16 flag combinations; "
                    "GNU ld reference: every 16th member, at most 600" if chk.thorough else
                    "slot order reduced to multisets; kind/hdr/gc not fully crossed; default CIE only; "
                    "sweep = lexicographically first 50 of {R1,G1,C1}^4",
    }
    chk.assumptions = [
        "retention ground truth = the copy's marker instruction is present in an executable "
        "section of the output (not the output's own symbol table)",
        "a COMDAT copy kept by --no-gc-sections together with its FDE is not a C10 violation "
        "(counted under fate_deviations_from_design)",
        "schedules: covered by the thread-count / files-per-group sweep only",
    ]
    chk.finish()


if __name__ == "__main__":
    main()
