#!/usr/bin/env python3
"""C11 - AArch64 long branches reach their intended target.

Family (bounded-exhaustive; every member is one program, linked by wild --threads=4 in the server):
  main     5 block positions; the caller's and the callee's code object sit in every ordered pair of
           distinct positions (20); every other position p holds a padding object of PADS[p] =
           (64, 64, 127, 127, 64) MiB of `.text`: the branch spans 32 B .. 318 MiB forwards and
           backwards, the caller sits 0 .. 318 MiB into .text
           x callee kind {local (STB_LOCAL: the whole layout is one object, blocks = sections),
             global, function in a 32-byte aligned .text section (a non-primary part), function in
             the custom executable section `foo_calls`, PLT call into libcallee.so, IFUNC via iplt}
           x form {bl R_AARCH64_CALL26, b R_AARCH64_JUMP26}  x  output {non-PIE, PIE}       = 480.
           The caller has three call sites of the form (decoy_a, callee, decoy_z; the entry point is
           the middle one) to three functions of the callee's kind defined together in symbol-table
           order, so the probe's thunk / PLT entry is neither first nor last of its block; all three
           sites are walked.
  edge     [code][pad of 128 MiB - 16 + e][code], e = -20..+8 step 4: the displacement crosses both
           ends of [-128 MiB, +128 MiB - 4] whether or not a 12-byte thunk sits in between
           x {global, local} x {bl, b} x {forwards, backwards} x {non-PIE, PIE}               = 128.
  ncall    the three call sites live in a non-primary part (a 32-byte aligned .text section / the
           custom section `bar_calls`, both laid out in front of the primary .text part) and call a
           global function at each of the 5 positions (the caller's object at the cyclically next
           one) x {bl, b} x {non-PIE, PIE}                                                     = 40.
  a16      the main layout with every .text section (pads and code) 16-byte aligned, global callee,
           20 placements x {bl, b} x {non-PIE, PIE}                                            = 80.
  deep     [caller object][callee object] adjacent (both orders); the callee is defined deep inside its
           object: 130 MiB of that object's own retained .text lie between the function and the object's
           edge facing the caller - the object as a whole is near, the symbol is not
           x {bl, b} x {non-PIE, PIE}                                                          = 8.
  control  CONDBR19 (b.al) / TSTBR14 (tbz w0,#0) have no thunks in the ABI: only adjacent
           placements, in range by construction (local/global at 0>1 1>0 3>4 4>3, align32/custom at
           0>1 1>0) x 2 forms x 2 outputs = 48. A rejection of a control is counted, never judged.
Member id: <family>:<kind>:<form>:<caller pos>><callee pos>[e<e>]:<distance class>:<output>.
Oracle: the output is executed from its entry point (= the call site) with imgsim's instruction
decoder over an mmap of the file: bl/b -> optional thunk -> optional PLT stub whose GOT slot is
resolved by a loader model (JUMP_SLOT -> the named symbol of the shared object; IRELATIVE -> the
value the emulated resolver returns) until control reaches the marker instruction that only the
intended function's body contains (for PLT: the shared object's symbol of that name). Anything
else - another landing, an undecodable instruction, a fault, > 8 control transfers, for `bl` a link
register that is not site+4 - is `misdirected:<kind>:<form>:<class>`. A wild rejection with a
range-style diagnostic of a member that ld.lld links (and whose lld output passes the same walker)
is `out-of-range-error:<kind>:<form>:<class>`.
ld.lld runs only on members wild rejects, plus one accepted far member per kind (quick: two kinds)
to calibrate the walker (a walker that rejects lld's output is a machinery error, exit 2).
Outputs are 130-330 MB each: /dev/shm, IN_FLIGHT links at a time, deleted as soon as walked; pads are
sparse files shared by hard links. Wall caps (C11_CAP_S; quick 35 s, thorough 780 s): no member starts
after the cap and a link still running 20 s (thorough 60 s) later is abandoned, never judged; both are
reported (capped, abandoned_links) and such a run is not called exhaustive.
Env: C11_ONLY=<regex on member id>, C11_PROGRESS=1, C11_IN_FLIGHT=<n>, C11_KEEP=<dir> (with --replay:
keep the member's inputs there and print the wild / ld.lld command lines)."""
import json
import multiprocessing
import os
import re
import shutil
import subprocess
import sys
import time

sys.path.insert(0, os.path.join(os.path.dirname(os.path.abspath(__file__)), "..", "lib"))
import vlib
import wildrun
import thunkfam as T

MiB = T.MiB
PADS = (64 * MiB, 64 * MiB, 127 * MiB, 127 * MiB, 64 * MiB)
PADS_LIGHT = (2 * MiB, 2 * MiB, 130 * MiB, 2 * MiB, 2 * MiB)      # quick tier: outputs of ~134 MiB instead of 190-320
EDGE_E = tuple(range(-20, 12, 4))
OUTS = ("exe", "pie")
DECOY_FAMILIES = ("main", "ncall", "a16")
IN_FLIGHT = int(os.environ.get("C11_IN_FLIGHT", 4))   # outputs are 130-330 MB each
RANGE_ERR = re.compile(r"out of range|outside of bounds|no thunk|thunk|overflow|does not fit|too (far|large)", re.I)
BASE = None          # scratch directory (set in main; inherited by the forked workers)
DEADLINE = None      # no member is started after it; a link still running GRACE seconds later is abandoned
GRACE = 20


# ------------------------------------------------------------------------------------- family
def dist_class(spec):
    """Coarse class of the displacement the inputs promise (callee block - caller block, before the
    linker adds anything), used in violation keys; the member id carries the exact placement."""
    if spec["family"] == "edge":
        fwd = spec["caller"] < spec["callee"]
        d = 128 * MiB + spec["e"]
        inside = d <= (128 * MiB - 4 if fwd else 128 * MiB)
        return f"{'+' if fwd else '-'}edge-{'in' if inside else 'out'}"
    if spec["family"] == "deep":        # adjacent objects; the callee's own object holds the distance
        return "+far" if spec["caller"] < spec["callee"] else "-far"
    if spec["family"] == "ncall":       # the call sites are in front of .text: what counts is the callee's depth
        blocks = spec_blocks(spec)
        d = T.nominal_distance([("caller",)] + [b for b in blocks if b[0] != "caller"], 32)
    else:
        d = T.nominal_distance(spec_blocks(spec), 32 if spec["family"] in DECOY_FAMILIES else 16)
    n = abs(d)
    name = "near" if n < MiB else "mid" if n < 126 * MiB else "margin" if n < 128 * MiB else \
        "far" if n < 256 * MiB else "vfar"
    return f"{'+' if d > 0 else '-'}{name}"


def spec_blocks(spec):
    if spec["family"] == "edge":
        pad = ("pad", 128 * MiB - 16 + spec["e"])
        return [("caller",), pad, ("callee",)] if spec["caller"] < spec["callee"] else \
               [("callee",), pad, ("caller",)]
    if spec["family"] == "deep":
        return [("caller",), ("callee",)] if spec["caller"] < spec["callee"] else [("callee",), ("caller",)]
    return T.blocks_for(PADS_LIGHT if spec.get("light") else PADS, spec["caller"], spec["callee"])


def member(family, kind, form, caller, callee, out, e=0, light=False):
    s = dict(family=family, kind=kind, form=form, caller=caller, callee=callee, out=out)
    if family == "edge":
        s["e"] = e
    if light:
        s["light"] = True
    s["cls"] = dist_class(s)
    s["id"] = (f"{family}{'~light' if light else ''}:{kind}:{form}:{caller}>{callee}"
               f"{f'e{e:+d}' if family == 'edge' else ''}:{s['cls']}:{out}")
    return s


def enumerate_main():
    # placements outermost, far ones first: a run that hits its wall cap has still seen every kind
    pairs = sorted(((a, b) for a in range(5) for b in range(5) if a != b),
                   key=lambda p: (-abs(p[0] - p[1]), p))
    return [member("main", k, f, a, b, o) for (a, b) in pairs for k in T.KINDS for f in ("bl", "b")
            for o in OUTS]


def enumerate_edge():
    return [member("edge", k, f, a, b, o, e) for k in ("global", "local") for f in ("bl", "b")
            for (a, b) in ((0, 1), (1, 0)) for e in EDGE_E for o in OUTS]


def enumerate_control():
    out = []
    for k, pairs in (("local", ((0, 1), (1, 0), (3, 4), (4, 3))), ("global", ((0, 1), (1, 0), (3, 4), (4, 3))),
                     ("align32", ((0, 1), (1, 0))), ("custom", ((0, 1), (1, 0)))):
        out += [member("control", k, f, a, b, o) for f in ("bcond", "tbz") for (a, b) in pairs for o in OUTS]
    return out


def enumerate_ncall():
    """Call sites in a non-primary part (32-byte aligned section / custom section, both laid out in
    front of the primary .text part) to a global function at every position; the caller's object sits
    at the cyclically next position."""
    return [member("ncall", f"global-from-{cs}", f, (p + 1) % 5, p, o) for cs in ("align32", "custom")
            for p in range(5) for f in ("bl", "b") for o in OUTS]


def enumerate_deep():
    """The callee is defined deep inside a big object (130 MiB of the object's own .text between the
    function and the object's edge that faces the caller, which sits in the adjacent object): the
    object as a whole is near, the symbol is not."""
    return [member("deep", "deep", f, a, b, o) for f in ("bl", "b") for (a, b) in ((0, 1), (1, 0)) for o in OUTS]


def enumerate_a16():
    """The main layout with every section - the pads' and the code objects' `.text` - 16-byte aligned
    (the alignment GCC gives AArch64 functions at -O2): a global callee at every placement."""
    pairs = sorted(((a, b) for a in range(5) for b in range(5) if a != b), key=lambda p: (-abs(p[0] - p[1]), p))
    return [member("a16", "global-a16", f, a, b, o) for (a, b) in pairs for f in ("bl", "b") for o in OUTS]


def quick_members():
    """32 members, the same generators over the light pad vector PADS_LIGHT (2, 2, 130, 2, 2 MiB: one pad
    beyond the branch range, outputs of ~134 MiB): every kind x form once on a placement across the big
    pad (direction, depth and output kind rotate with the cell index), six edge members, two deep, two ncall and two
    a16 members, every kind once on a near placement; last, two members of the thorough family proper
    (318 MiB, several thunk blocks). A run that hits its wall cap drops members from the end."""
    far = [(0, 4), (4, 0), (1, 3), (3, 1)]
    near = [(3, 4), (1, 0), (4, 3)]
    out = []
    for fi, f in enumerate(("bl", "b")):
        for ki, k in enumerate(T.KINDS):
            a, b = far[(ki + fi) % len(far)]
            out.append(member("main", k, f, a, b, OUTS[(ki + fi) % 2], light=True))
    for i, (k, f, (a, b), e) in enumerate((("global", "bl", (0, 1), -16), ("global", "bl", (0, 1), -12),
                                           ("global", "b", (1, 0), 0), ("global", "b", (1, 0), 4),
                                           ("local", "bl", (0, 1), -4), ("local", "b", (1, 0), 4))):
        out.append(member("edge", k, f, a, b, OUTS[i % 2], e))
    out.append(member("ncall", "global-from-align32", "bl", 0, 4, "exe", light=True))
    out.append(member("ncall", "global-from-custom", "b", 4, 3, "pie", light=True))
    out.append(member("deep", "deep", "bl", 0, 1, "exe"))
    out.append(member("deep", "deep", "b", 1, 0, "pie"))
    out.append(member("a16", "global-a16", "bl", 0, 3, "pie", light=True))
    out.append(member("a16", "global-a16", "b", 4, 1, "exe", light=True))
    for ki, k in enumerate(T.KINDS):
        a, b = near[ki % len(near)]
        out.append(member("main", k, ("bl", "b")[ki % 2], a, b, OUTS[(ki + 1) % 2], light=True))
    out.append(member("main", "global", "bl", 0, 4, "exe"))
    out.append(member("main", "ifunc", "b", 4, 0, "pie"))
    return out


# ------------------------------------------------------------------------------------ running
def pad_path(size, align=4):
    p = os.path.join(BASE, "shared", f"pad{size}a{align}.o")
    if not os.path.exists(p):
        tmp = f"{p}.{os.getpid()}"
        T.write_pad(tmp, size, align, dense=not os.environ.get("C11_SPARSE_PADS"))
        os.replace(tmp, p)
    return p


def pad_path16(size):
    return pad_path(size, 16)


def so_path():
    return os.path.join(BASE, "shared", "libcallee.so")


def prepare_shared():
    os.makedirs(os.path.join(BASE, "shared"), exist_ok=True)
    obj = os.path.join(BASE, "shared", "callee_so.o")
    T.callee_so_object(obj)
    r = subprocess.run(["ld.lld", "-m", "aarch64linux", "-shared", "-soname", "libcallee.so", "-o", so_path(), obj],
                       stdout=subprocess.PIPE, stderr=subprocess.PIPE)
    if r.returncode != 0:
        return r.stderr.decode()
    for n in set(PADS) | set(PADS_LIGHT):
        pad_path(n)
    return None


def link_argv(spec, names, out):
    return ["-m", "aarch64linux", "--entry=caller", *(["-pie"] if spec["out"] == "pie" else []), *names, "-o", out]


def evaluate(path, spec):
    """Walk the output from every call site. -> dict(ok, detail, hops, stubs, disp, path) (hops, stubs, disp and
    path describe the probe = the entry point; the decoy sites of a main-family member are judged as well)."""
    try:
        im = T.Image(path)
    except (T.imgsim.SimError, T.elfread.ElfError, OSError, ValueError, struct_error) as ex:
        return dict(ok=False, detail=f"image cannot be prepared: {type(ex).__name__}: {ex}", hops=0, stubs="",
                    disp=None, path="")
    try:
        entry = im.elf.e_entry
        sites = [("callee", entry)]
        if spec["family"] in DECOY_FAMILIES:
            sites += [("decoy_a", entry - 8), ("decoy_z", entry + 8)]
        out = None
        bad = []
        for name, site in sites:
            r = im.walk(site)
            path_s = T.fmt_path(r["path"])
            detail = ""
            if spec["kind"] == "plt":
                if r["status"] != "extern" or r["where"] != name:
                    detail = r.get("detail") or f"lands at {r.get('where')} ({r['status']} {r.get('mark', '')})"
            elif r["status"] != "mark" or r["mark"] != name:
                detail = r.get("detail") or f"lands at {r.get('where')} ({r['status']} {r.get('mark', '')})"
            if not detail and spec["form"] == "bl" and r["lr"] != site + 4:
                detail = f"link register {r['lr']:#x} at the callee, expected {site + 4:#x}"
            if detail:
                bad.append(f"call site of {name} at {site:#x}: {detail}; path: {path_s}")
            if name == "callee":
                stubs = "".join("T" if insn == 0xd61f0200 else "P" if insn == 0xd61f0220 else ""
                                for _, insn in r["path"])
                out = dict(hops=r["hops"], stubs=stubs, path=path_s,
                           disp=(r["where"] - site) if r["status"] == "mark" else None)
        out.update(ok=not bad, detail=" | ".join(bad))
        return out
    finally:
        im.close()


struct_error = __import__("struct").error


def time_left():
    """Seconds a link may still take: up to the wall cap plus a grace period (600 s when there is no cap)."""
    if DEADLINE is None:
        return 600
    return max(5.0, DEADLINE + GRACE - time.time())


def run_member(spec, keep=False):
    """-> result dict; never raises for a property-relevant outcome."""
    res = dict(spec=spec, status=None)
    if DEADLINE is not None and time.time() > DEADLINE and not spec.get("force"):
        res["status"] = "capped"
        return res
    d = os.path.join(BASE, f"m{os.getpid()}")
    shutil.rmtree(d, ignore_errors=True)
    os.makedirs(d)
    names = []
    try:
        kind, _, csec = spec["kind"].partition("-from-")
        a16 = spec["family"] == "a16"
        names = T.build_inputs(d, spec_blocks(spec), kind.split("-")[0], spec["form"], pad_path16 if a16 else pad_path,
                                so_path(), decoys=spec["family"] in DECOY_FAMILIES, caller_sec=csec or "text",
                                text_align=16 if a16 else 4)
        out = os.path.join(d, "out")
        t0 = time.time()
        rc, msg = wildrun.server_link(["--threads=4", *link_argv(spec, names, "out")], cwd=d, timeout=time_left())
        res["wild_s"] = round(time.time() - t0, 2)
        res["rc"] = rc
        if rc == "timeout":                     # the wall cap (or 600 s) ran out: never a verdict
            res["status"] = "capped"
            res["timed_out"] = "wild"
            return res
        if rc == 0:
            res["out_bytes"] = os.path.getsize(out)
            res["eval"] = evaluate(out, spec)
            res["status"] = "ok" if res["eval"]["ok"] else "misdirected"
            os.unlink(out)
        else:
            res["msg"] = (msg or "").strip()[-700:]
            res["status"] = "rejected" if rc == 1 else "crashed"
            res["range_style"] = bool(rc == 1 and RANGE_ERR.search(msg or ""))
        if rc != 0 or spec.get("calibrate"):
            t0 = time.time()
            lout = os.path.join(d, "out.lld")
            try:
                r = subprocess.run(["ld.lld", *link_argv(spec, names, "out.lld")], cwd=d, timeout=time_left(),
                                   stdout=subprocess.PIPE, stderr=subprocess.PIPE)
            except subprocess.TimeoutExpired:
                if rc != 0:                     # no reference verdict for a rejected member: not judged
                    res["status"] = "capped"
                    res["timed_out"] = "ld.lld"
                return res                      # (a calibration run that times out is just skipped)
            res["lld_s"] = round(time.time() - t0, 2)
            res["lld_rc"] = r.returncode
            if r.returncode == 0:
                res["lld_eval"] = evaluate(lout, spec)
                os.unlink(lout)
            else:
                res["lld_msg"] = r.stderr.decode(errors="replace").strip()[-300:]
        return res
    finally:
        if keep:
            shutil.rmtree(keep, ignore_errors=True)
            shutil.copytree(d, keep)            # (the pads become real files of zeros)
            print(f"inputs kept in {keep}:\n  cd {keep} && /verif/.build/bin/wild {' '.join(link_argv(spec, names, 'out'))}"
                  f"\n  cd {keep} && ld.lld {' '.join(link_argv(spec, names, 'out.lld'))}")
        shutil.rmtree(d, ignore_errors=True)


def judge(chk, res, stats):
    """Turn one member's result into violations / statistics."""
    spec = res["spec"]
    st = res["status"]
    stats["status"][st] = stats["status"].get(st, 0) + 1
    if st == "capped":
        if res.get("timed_out"):
            stats["timed_out"] += 1
        return
    stats["evaluations"] += 1
    keytail = f"{spec['kind']}:{spec['form']}:{spec['cls']}"
    replay = {k: v for k, v in spec.items() if k not in ("calibrate", "force")}
    if st == "ok":
        ev = res["eval"]
        stats["stubs"][ev["stubs"] or "direct"] = stats["stubs"].get(ev["stubs"] or "direct", 0) + 1
        if ev["stubs"]:
            stats["nontrivial"].add(spec["id"])
        if ev["disp"] is not None and spec["family"] == "edge":
            stats["edge_disp"].add((ev["disp"], ev["stubs"] or "direct"))
    elif st == "misdirected":
        chk.violation(f"misdirected:{keytail}", f"{spec['id']}: {res['eval']['detail']}", replay)
        stats["nontrivial"].add(spec["id"])
    else:
        stats["rejected"].append(spec["id"])
        lld_ok = res.get("lld_rc") == 0 and res.get("lld_eval", {}).get("ok")
        if res.get("lld_rc") == 0 and not res.get("lld_eval", {}).get("ok"):
            stats["lld_walk_failures"].append((spec["id"], res["lld_eval"]["detail"][:200]))
        if spec["family"] == "control":
            stats["control_rejected"] += 1      # no thunk can serve these forms: not judged
        elif st == "crashed":
            # not a range diagnostic; still a link that dies on a member of this family
            if lld_ok:
                chk.violation(f"link-crash:{keytail}", f"{spec['id']}: wild rc={res['rc']} {res['msg'][-300:]}", replay)
        elif lld_ok and res["range_style"]:
            chk.violation(f"out-of-range-error:{keytail}",
                          f"{spec['id']}: wild rejects ({res['msg'][-260:]!r}) a member ld.lld links and whose lld "
                          f"output reaches the callee ({res['lld_eval']['stubs'] or 'direct'})", replay)
            stats["nontrivial"].add(spec["id"])
        elif lld_ok:
            stats["other_rejections"].append((spec["id"], res["msg"][-200:]))
        else:
            stats["both_reject"].append(spec["id"])
    if "lld_eval" in res and st == "ok":
        stats["calibrated"] += 1
        if not res["lld_eval"]["ok"]:
            stats["lld_walk_failures"].append((spec["id"], res["lld_eval"]["detail"][:200]))
    if "lld_rc" in res:
        stats["lld_runs"] += 1
    if len(stats["samples"]) < 12 or (st != "ok" and len(stats["samples"]) < 40):
        s = {"member": spec["id"], "status": st}
        if st == "ok":
            s.update(stubs=res["eval"]["stubs"] or "direct", hops=res["eval"]["hops"], path=res["eval"]["path"],
                     disp=res["eval"]["disp"])
        else:
            s.update(wild=res.get("msg", res.get("eval", {}).get("detail", ""))[-160:], lld_rc=res.get("lld_rc"))
        stats["samples"].append(s)
    for k in ("wild_s", "lld_s"):
        if k in res:
            stats[k] += res[k]
    stats["out_bytes"] += res.get("out_bytes", 0)


def new_stats():
    return dict(status={}, evaluations=0, stubs={}, nontrivial=set(), edge_disp=set(), rejected=[],
                control_rejected=0, other_rejections=[], both_reject=[], lld_walk_failures=[], calibrated=0,
                lld_runs=0, samples=[], wild_s=0.0, lld_s=0.0, out_bytes=0, timed_out=0)


def _worker(spec):
    try:
        return run_member(spec)
    except Exception as ex:          # machinery: reported by the parent
        import traceback
        return dict(spec=spec, status="machinery", error=f"{type(ex).__name__}: {ex}\n{traceback.format_exc()[-600:]}")


def main():
    global BASE, DEADLINE, GRACE
    chk = vlib.Check("C11", "exploration")
    if not chk.args.no_build:
        vlib.build("wild")
    chk.t0 = time.time()
    with vlib.scratch("c11") as base:
        BASE = base
        err = prepare_shared()
        if err:
            chk.machinery(f"cannot build libcallee.so with ld.lld: {err}")
        stats = new_stats()
        if chk.args.replay:
            with open(chk.args.replay) as f:
                rp = json.load(f)["replay"]
            spec = member(rp["family"], rp["kind"], rp["form"], rp["caller"], rp["callee"], rp["out"], rp.get("e", 0),
                          rp.get("light", False))
            spec["calibrate"] = True
            keep = os.environ.get("C11_KEEP")      # directory that receives the member's inputs
            res = run_member(spec, keep=keep)
            print(json.dumps({k: v for k, v in res.items() if k != "spec"}, indent=1, default=str))
            if res["status"] == "capped":
                chk.machinery(f"{res.get('timed_out')} did not finish within 600 s")
            judge(chk, res, stats)
            chk.coverage = {"evaluations": 1, "distinct_nontrivial": 2, "rule": "replay of one recorded member",
                            "samples": stats["samples"], "exhaustive": False}
            chk.finish()
        if chk.thorough:
            members = enumerate_main() + enumerate_edge() + enumerate_deep() + enumerate_ncall() + enumerate_a16() + enumerate_control()
            cap = float(os.environ.get("C11_CAP_S", 780))
            GRACE = 60
        else:
            members = quick_members()
            cap = float(os.environ.get("C11_CAP_S", 35))   # members in flight at the cap still finish (<= ~20 s under load)
        only = os.environ.get("C11_ONLY")
        if only:
            members = [m for m in members if re.search(only, m["id"])]
        family_size = len(members)
        # one accepted far member per kind is also linked with lld to calibrate the walker
        seen = set() if chk.thorough else {"local", "align32", "custom", "plt"}     # quick: global and ifunc only
        for m in members:
            if m["family"] == "main" and m["kind"] not in seen and m["cls"][1:] in ("far", "vfar"):
                m["calibrate"] = True
                seen.add(m["kind"])
        if chk.seed:
            import random
            random.Random(chk.seed).shuffle(members)
        DEADLINE = chk.t0 + cap
        machinery = []
        pool = multiprocessing.Pool(IN_FLIGHT)
        for res in pool.imap_unordered(_worker, members, chunksize=1):
            if res["status"] == "machinery":
                machinery.append(res["error"])
                continue
            judge(chk, res, stats)
            if os.environ.get("C11_PROGRESS"):
                ev = res.get("eval", {})
                print(f"[{time.time() - chk.t0:7.1f}s] {res['spec']['id']:46s} {res['status']:11s} "
                      f"{ev.get('stubs', '')!s:4s} wild={res.get('wild_s')}s lld={res.get('lld_rc')} "
                      f"{(res.get('msg') or ev.get('detail') or '')[-110:]!r}", file=sys.stderr, flush=True)
        pool.close()
        pool.join()
        if machinery:
            chk.machinery(f"{len(machinery)} members could not be run: {machinery[0]}")
        if stats["lld_walk_failures"]:
            chk.machinery(f"the walker does not accept ld.lld's output of {stats['lld_walk_failures'][:3]} "
                          f"(walker or family problem, not a verdict)")
        capped = stats["status"].get("capped", 0)
        if stats["evaluations"] < 2 or (capped and len(stats["nontrivial"]) < 2):
            chk.machinery(f"only {stats['evaluations']} members finished within the wall cap of {cap:.0f} s (+{GRACE} s): "
                          f"the machine is too busy for 130-330 MB links (abandoned links: {stats['timed_out']}); "
                          f"violations seen so far: {[k for k, _, _ in chk.violations]}")
        n = max(1, stats["evaluations"])
        chk.coverage = {
            "evaluations": stats["evaluations"],
            "distinct_nontrivial": len(stats["nontrivial"]),
            "family_size": family_size,
            "rule": (("main: 20 ordered placements of caller and callee in 5 block positions (pads 64,64,127,127,64 MiB "
                      "elsewhere) x 6 callee kinds x {bl,b} x {exe,pie}, three call sites each; edge: pad 128MiB-16+e, "
                      "e=-20..8 step 4 x {global,local} x {bl,b} x {fwd,back} x {exe,pie}; ncall: call sites in a non-primary "
                      "part x 5 callee positions x {bl,b} x {exe,pie}; a16: main layout, all .text 16-byte aligned, global callee, "
                      "20 placements x {bl,b} x {exe,pie}; deep: callee 130 MiB deep inside its own object, caller adjacent, "
                      "both orders x {bl,b} x {exe,pie}; control: CONDBR19/TSTBR14 on adjacent placements. "
                      if chk.thorough else
                      "quick: the same generators over the light pad vector (2,2,130,2,2 MiB): per kind x form one "
                      "placement across the big pad (direction, depth and output kind rotate), six edge members, two deep members, two ncall "
                      "and two a16 members, per kind one near placement; plus two members of the thorough family. ")
                     + "A member is non-trivial when the probe's walk passed through a thunk (T) and/or a PLT stub (P), "
                       "or when it was judged a violation; distinct = distinct member ids"),
            "stub_sequences": stats["stubs"],
            "status": stats["status"],
            "wild_rejected": stats["rejected"][:60],
            "control_rejected": stats["control_rejected"],
            "both_linkers_reject": stats["both_reject"][:40],
            "other_rejections": stats["other_rejections"][:20],
            "edge_displacements_seen": sorted(f"{d:+#x}:{s}" for d, s in stats["edge_disp"])[:80],
            "lld_runs": stats["lld_runs"], "lld_calibrations": stats["calibrated"],
            "subprocesses": stats["lld_runs"] + 1,
            "wild_link_s_mean": round(stats["wild_s"] / n, 2), "lld_link_s_total": round(stats["lld_s"], 1),
            "output_gib": round(stats["out_bytes"] / 2**30, 1),
            "samples": stats["samples"],
            "capped": capped, "cap_s": cap, "abandoned_links": stats["timed_out"],
            "exhaustive": capped == 0 and not only,
        }
        chk.assumptions = [
            "AArch64 outputs cannot be run here: control flow is evaluated statically with imgsim's decoder for the "
            "instruction forms wild's and lld's thunks and PLT stubs use; anything else counts as undecodable",
            "loader model: JUMP_SLOT/GLOB_DAT bind to the shared object's symbol of that name, IRELATIVE slots hold "
            "what the emulated resolver returns, RELATIVE slots hold the addend (load base 0); static executables "
            "apply the entries between __rela_iplt_start and __rela_iplt_end",
            "a STB_LOCAL callee can only be far from its caller inside one object, so the local kind puts the whole "
            "layout into one object (sections in layout order)",
            "padding is zero bytes in retained .text sections (never executed); default --gc-sections is in force",
            "ld.lld 14 is the reference for 'a thunk could serve this branch'",
        ]
        chk.finish()


if __name__ == "__main__":
    main()
