#!/usr/bin/env python3
"""C12 - Relocation overflow is reported exactly when a value doesn't fit.

Two exhaustive enumerations:

(unit) engine `unitx relrange` (/verif/engines/src/relrange.rs + manual.rs): for every r_type
0..=1023 of x86_64 / aarch64 / riscv64 / loongarch64 for which linker-utils' table has an entry,
and every value of the boundary set B = {+-2^k + d : k in 0..=63, d in -2..=2} u {0, +-1, MIN, MAX}
u the %hi rounding boundaries, plus the neighbouring multiples / non-multiples of 2, 4, 8, 16,
4096 of each, the real `RelocationKindInfo::write_to_buffer` (= the range check + write that
elf_writer::apply_relocation calls) runs on a 16-byte 0xA5 buffer whose immediate field is zero.
Oracle: a per-type table transcribed from the psABIs (field, [must-accept) range, [may-accept)
range; the zone between the two is where the psABI is silent or GNU ld and lld disagree): value in
`must` => accepted; value outside `may` => rejected; accepted => the field holds exactly the
psABI's bits of the value and nothing outside the field changed; rejected => buffer untouched.

(e2e, x86-64) one tiny object per relocation type (data directive or `.reloc`), the computed
value steered through `--defsym` absolute symbols (PC-relative types: after learning the place P
of each linker; addend-steered types: after learning each linker's base value), linked by GNU ld,
ld.lld and wild (in-process server). Predicate, exactly as the property states it: both reference
linkers accept => wild accepts and the field holds the value; both reject => wild rejects; they
disagree => either is fine; wild accepts => the field holds the value."""
import os
import struct
import sys

sys.path.insert(0, os.path.join(os.path.dirname(os.path.abspath(__file__)), "..", "lib"))
import vlib
import unitx
import wildrun

# ---------------------------------------------------------------------------------------------
# End-to-end family

HEAD = """
.globl _start
.text
_start:
  lea probe(%rip), %rax
  ret
"""
TLS = """
.section .tdata,"awT",@progbits
tvar: .long 7
"""
PROBE = """
.data
.globl probe
probe:
  {body}
  .byte 0x5a
"""

# mode: abs  -> value = val                      (val via --defsym)
#       pc   -> value = val - P                  (P = address of probe, learnt per linker)
#       add  -> value = base + A                 (A = addend in the source, base learnt per linker)
E2E_TYPES = [
    dict(name="R_X86_64_8", bits=8, mode="abs", body=".byte val"),
    dict(name="R_X86_64_16", bits=16, mode="abs", body=".short val"),
    dict(name="R_X86_64_32", bits=32, mode="abs", body=".long val"),
    dict(name="R_X86_64_32S", bits=32, mode="abs", body=".reloc ., R_X86_64_32S, val\n  .long 0"),
    dict(name="R_X86_64_64", bits=64, mode="abs", body=".quad val"),
    dict(name="R_X86_64_PC8", bits=8, mode="pc", body=".reloc ., R_X86_64_PC8, val\n  .byte 0"),
    dict(name="R_X86_64_PC16", bits=16, mode="pc", body=".reloc ., R_X86_64_PC16, val\n  .short 0"),
    dict(name="R_X86_64_PC32", bits=32, mode="pc", body=".reloc ., R_X86_64_PC32, val\n  .long 0"),
    dict(name="R_X86_64_PC64", bits=64, mode="pc", body=".reloc ., R_X86_64_PC64, val\n  .quad 0"),
    dict(name="R_X86_64_PLT32", bits=32, mode="pc", body=".reloc ., R_X86_64_PLT32, val\n  .long 0"),
    dict(name="R_X86_64_TPOFF32", bits=32, mode="add", sym="tvar", tls=True,
         body=".reloc ., R_X86_64_TPOFF32, tvar{addend}\n  .long 0"),
    dict(name="R_X86_64_GOT32", bits=32, mode="add", sym="val", defsym=0x1234,
         body=".reloc ., R_X86_64_GOT32, val{addend}\n  .long 0"),
]
LINKERS = ("ld", "lld", "wild")
M64 = (1 << 64) - 1


def source(t, addend=0):
    body = t["body"].format(addend=f"{addend:+d}" if addend else "")
    return HEAD + (TLS if t.get("tls") else "") + PROBE.format(body=body)


def boundary_targets(bits, radius):
    """Computed values to aim at: 2*radius+1 values around every boundary of the n-bit field
    (-2^n, -2^(n-1), 2^(n-1), 2^n) and 0."""
    if bits == 64:
        return [0, 1, -1, (1 << 63) - 1, -(1 << 63), (1 << 63) - 2, -(1 << 63) + 1, 0x123456789abcdef]
    out = {0}
    for b in (-(1 << bits), -(1 << (bits - 1)), 1 << (bits - 1), 1 << bits):
        for d in range(-radius, radius + 1):
            out.add(b + d)
    return sorted(out)


def zone(bits, v):
    if bits == 64:
        return "64-bit"
    if v < -(1 << (bits - 1)):
        return "below-signed-range"
    if v < 0:
        return "negative"
    if v < 1 << (bits - 1):
        return "positive"
    if v < 1 << bits:
        return "unsigned-upper-half"
    return "above-unsigned-range"


def read_probe(path):
    """(address of symbol `probe`, the 9 bytes at it) from a linked ELF64 file, or None."""
    try:
        with open(path, "rb") as f:
            data = f.read()
    except OSError:
        return None
    if data[:4] != b"\x7fELF" or len(data) < 64:
        return None
    shoff, = struct.unpack_from("<Q", data, 0x28)
    shentsize, shnum, _ = struct.unpack_from("<HHH", data, 0x3a)
    secs = [struct.unpack_from("<IIQQQQIIQQ", data, shoff + i * shentsize) for i in range(shnum)]
    for sec in secs:
        if sec[1] != 2:  # SHT_SYMTAB
            continue
        stroff = secs[sec[6]][4]
        for off in range(sec[4], sec[4] + sec[5], 24):
            st_name, _info, _other, shndx, value, _size = struct.unpack_from("<IBBHQQ", data, off)
            end = data.index(b"\0", stroff + st_name)
            if data[stroff + st_name:end] == b"probe" and 0 < shndx < shnum:
                s = secs[shndx]
                foff = s[4] + (value - s[3])
                return value, data[foff:foff + 9]
    return None


def link(linker, obj, out, defsyms, cwd):
    """Returns (accepted: bool | None for a crash, message)."""
    args = [obj, "-o", out] + [f"--defsym={k}=0x{v & M64:x}" for k, v in defsyms.items()]
    try:
        os.unlink(out)
    except OSError:
        pass
    if linker == "wild":
        rc, msg = wildrun.server_link(args, cwd=cwd)
        if rc == 0:
            return True, ""
        if rc == 1:
            return False, msg[-600:]
        return None, f"rc={rc} {msg[-400:]}"
    exe = {"ld": "ld", "lld": "ld.lld"}[linker]
    rc, _o, err = vlib.run([exe] + args, cwd=cwd, timeout=60)
    if rc == 0:
        return True, ""
    if rc == 1:
        return False, err.decode(errors="replace")[-400:]
    return None, f"rc={rc} {err.decode(errors='replace')[-300:]}"


def as_signed(raw, bits):
    v = int.from_bytes(raw[:bits // 8], "little")
    return v - (1 << bits) if v >> (bits - 1) else v


def learn(t):
    """Per linker: the place P (mode pc) or the base value (mode add). Returns {linker: value} or
    an error string."""
    res = {}
    with vlib.scratch("c12learn." + t["name"]) as d:
        for lk in LINKERS:
            out = os.path.join(d, "o." + lk)
            if t["mode"] == "pc":
                # Same layout with the relocation type replaced by one that cannot overflow gives
                # a first P; a link of the real object aimed at value 0 confirms it.
                helper = dict(t, body=t["body"].replace(t["name"], "R_X86_64_PC64")
                              .replace(".byte 0", ".quad 0").replace(".short 0", ".quad 0")
                              .replace(".long 0", ".quad 0"))
                ok, msg = link(lk, vlib.assemble(source(helper)), out, {"val": 0}, d)
                pr = read_probe(out) if ok else None
                if not pr:
                    return f"{lk}: helper link failed: {msg}"
                p = pr[0]
                for _ in range(3):
                    ok, msg = link(lk, vlib.assemble(source(t)), out, {"val": p}, d)
                    pr = read_probe(out) if ok else None
                    if not pr:
                        return f"{lk}: link aimed at value 0 (val=P=0x{p:x}) failed: {msg}"
                    if pr[0] == p:
                        break
                    p = pr[0]
                if as_signed(pr[1], t["bits"]) != 0:
                    return f"{lk}: field is {pr[1][:t['bits'] // 8].hex()} for val=P, expected 0"
                res[lk] = p
            else:
                defs = {"val": t["defsym"]} if "defsym" in t else {}
                ok, msg = link(lk, vlib.assemble(source(t)), out, defs, d)
                pr = read_probe(out) if ok else None
                if not pr:
                    return f"{lk}: base link failed: {msg}"
                res[lk] = as_signed(pr[1], t["bits"])
    return res


def e2e_member(item):
    """Link one (type, target value) with the three linkers."""
    ti, target, learnt = item
    t = E2E_TYPES[ti]
    bits = t["bits"]
    width = bits // 8
    want = (target & ((1 << bits) - 1)).to_bytes(width, "little")
    r = {"type": t["name"], "target": target, "zone": zone(bits, target), "linkers": {}}
    with vlib.scratch(f"c12.{ti}.{target & M64:x}") as d:
        for lk in LINKERS:
            if t["mode"] == "abs":
                obj, defs = vlib.assemble(source(t)), {"val": target}
            elif t["mode"] == "pc":
                obj, defs = vlib.assemble(source(t)), {"val": target + learnt[lk]}
            else:
                obj = vlib.assemble(source(t, addend=target - learnt[lk]))
                defs = {"val": t["defsym"]} if "defsym" in t else {}
            out = os.path.join(d, "o." + lk)
            ok, msg = link(lk, obj, out, defs, d)
            entry = {"accepted": ok, "message": msg[:300] if lk == "wild" or ok is None else msg[:120],
                     "argv_defsym": {k: hex(v & M64) for k, v in defs.items()}}
            if ok:
                pr = read_probe(out)
                if pr is None:
                    entry["field"] = None
                else:
                    entry["field"] = pr[1][:width].hex()
                    entry["field_ok"] = pr[1][:width] == want and pr[1][width:width + 1] == b"\x5a"
                    if t["mode"] == "pc" and pr[0] != learnt[lk]:
                        entry["moved"] = True  # layout changed: the computed value is not `target`
            r["linkers"][lk] = entry
    r["want"] = want.hex()
    return r


def e2e_replay_dict(t, r):
    return {"part": "e2e", "type": t["name"], "target": r["target"], "source": source(t),
            "mode": t["mode"], "how": "assemble `source` (gcc -c), link with ld / ld.lld / wild "
            "using the --defsym values listed per linker (mode add: the addend in the .reloc line is "
            "target - that linker's base value)", "linkers": r["linkers"], "want_field": r["want"]}


def judge(t, r):
    """Returns (cell, [(key, what)])."""
    L = r["linkers"]
    ld, lld, w = L["ld"]["accepted"], L["lld"]["accepted"], L["wild"]["accepted"]
    name, z, tgt = t["name"], r["zone"], r["target"]
    vio = []
    if ld is None or lld is None or any(L[k].get("moved") or (L[k]["accepted"] and L[k].get("field") is None)
                                         for k in LINKERS):
        return "reference-unusable", vio
    if w is None:
        vio.append((f"x86_64:{name}:crash", f"wild crashed linking {name} with computed value {tgt}: "
                    f"{L['wild']['message']}"))
        return "wild-crash", vio
    refs_ok_fields = all(L[k].get("field_ok", True) for k in ("ld", "lld") if L[k]["accepted"])
    if w and not L["wild"].get("field_ok"):
        vio.append((f"x86_64:{name}:field-content",
                    f"{name}: wild accepts computed value {tgt} (0x{tgt & M64:x}) but the field holds "
                    f"{L['wild'].get('field')} instead of {r['want']}"))
    if ld and lld:
        if not refs_ok_fields:
            return "reference-field-odd", vio
        if not w and t["bits"] == 64 and tgt == (1 << 63) - 1:
            vio.append(("all:no-check-range:i64-max-rejected",
                        f"{name}: computed value i64::MAX = 0x7fffffffffffffff is accepted by GNU ld and "
                        f"ld.lld (field {L['ld']['field']}) but wild fails: {L['wild']['message'][-260:]}"))
        elif not w:
            vio.append((f"x86_64:{name}:{z}-rejected",
                        f"{name}: computed value {tgt} (0x{tgt & M64:x}) is accepted by GNU ld and ld.lld "
                        f"(field {L['ld']['field']}) but wild fails: {L['wild']['message'][-260:]}"))
        return "both-accept", vio
    if not ld and not lld:
        if w:
            vio.append((f"x86_64:{name}:{'above' if tgt >= 0 else 'below'}-range-accepted",
                        f"{name}: computed value {tgt} (0x{tgt & M64:x}) is rejected by GNU ld and ld.lld "
                        f"as overflow but wild links it, field {L['wild'].get('field')}"))
        return "both-reject", vio
    return "references-disagree", vio


def run_e2e(chk):
    stats = {"members": 0, "reference_links": 0, "wild_links": 0, "cells": {}, "skipped_types": {},
             "learnt": {}, "matrix": {}}
    items = []
    learnts = dict(zip([t["name"] for t in E2E_TYPES if t["mode"] != "abs"],
                       wildrun.pmap(learn, [t for t in E2E_TYPES if t["mode"] != "abs"])))
    for ti, t in enumerate(E2E_TYPES):
        learnt = {}
        if t["mode"] != "abs":
            learnt = learnts[t["name"]]
            stats["reference_links"] += 4 if t["mode"] == "pc" else 2
            if isinstance(learnt, str):
                stats["skipped_types"][t["name"]] = learnt
                continue
            stats["learnt"][t["name"]] = {k: hex(v & M64) for k, v in learnt.items()}
        for target in boundary_targets(t["bits"], 3 if chk.thorough else 1):
            items.append((ti, target, learnt))
    results = wildrun.pmap(e2e_member, items)
    samples = []
    for (ti, _target, _l), r in zip(items, results):
        t = E2E_TYPES[ti]
        cell, vio = judge(t, r)
        stats["members"] += 1
        stats["reference_links"] += 2
        stats["wild_links"] += 1
        ck = f"e2e:{t['name']}:{r['zone']}:{cell}:wild-" + \
            {True: "accepts", False: "rejects", None: "crashes"}[r["linkers"]["wild"]["accepted"]]
        stats["cells"][ck] = stats["cells"].get(ck, 0) + 1
        row = stats["matrix"].setdefault(t["name"], [])
        row.append([r["target"]] + ["A" if r["linkers"][k]["accepted"] else
                                    ("R" if r["linkers"][k]["accepted"] is False else "X") for k in LINKERS])
        for key, what in vio:
            chk.violation(key, what, e2e_replay_dict(t, r))
        if len(samples) < 6 and (vio or r["target"] in (0, 255, -129)):
            samples.append({"part": "e2e", "type": t["name"], "computed_value": r["target"],
                            "ld": r["linkers"]["ld"]["accepted"], "lld": r["linkers"]["lld"]["accepted"],
                            "wild": r["linkers"]["wild"]["accepted"], "wild_field": r["linkers"]["wild"].get("field"),
                            "expected_field": r["want"], "defsym": r["linkers"]["wild"]["argv_defsym"]})
    return stats, samples


def replay_e2e(chk, rp):
    t = next((x for x in E2E_TYPES if x["name"] == rp["type"]), None)
    if t is None:
        chk.machinery(f"replay: unknown e2e type {rp['type']}")
    learnt = {}
    if t["mode"] != "abs":
        learnt = learn(t)
        if isinstance(learnt, str):
            chk.machinery(f"replay: {learnt}")
    r = e2e_member((E2E_TYPES.index(t), int(rp["target"]), learnt))
    cell, vio = judge(t, r)
    import json
    print(json.dumps(r, indent=1))
    print(f"cell: {cell}")
    return {"violations": [{"key": k, "what": w} for k, w in vio], "samples": []}


# ---------------------------------------------------------------------------------------------

def main():
    chk = vlib.Check("C12", "exploration")
    build_s = unitx.build(chk, with_wild=True)
    if chk.args.replay:
        rp, _key = unitx.load_replay(chk.args.replay)
        if rp.get("part") == "e2e":
            unitx.finish_replay(chk, replay_e2e(chk, rp))
        unitx.finish_replay(chk, unitx.replay_case(chk, "relrange", chk.args.replay))

    # End to end first: when both parts report the same key the end-to-end instance is recorded.
    e2e, e2e_samples = run_e2e(chk)
    if e2e["members"] < 50:
        chk.machinery(f"e2e family too small ({e2e['members']} members): {e2e['skipped_types']}")

    res = unitx.run(chk, "relrange")
    arch_rank = {"x86_64": 0, "riscv64": 1, "aarch64": 2, "loongarch64": 3, "all": 4}
    unitx.record_violations(chk, res, part="unit",
                            order=lambda k: (arch_rank.get(k.split(":")[0], 9), k))
    if res["types"] < 100:
        chk.machinery(f"relrange saw only {res['types']} relocation types")

    unit_cells = res["cells"]
    chk.coverage = {
        "evaluations": res["evaluations"] + e2e["members"],
        "distinct_nontrivial": len(unit_cells) + len(e2e["cells"]),
        "rule": "unit: one evaluation = one (architecture, r_type, value) on which the real "
                "write_to_buffer ran and was compared with the psABI table; e2e: one evaluation = one "
                "(type, computed value) linked by GNU ld, ld.lld and wild. distinct_nontrivial = number "
                "of distinct (type, outcome) cells that occurred: unit outcomes accepted-in-range / "
                "rejected-outside-range / accepted|rejected-free-zone / rejected-misaligned / "
                "accepted-outside-range / rejected-in-range; e2e outcomes (zone of the value, reference "
                "verdict, wild verdict). Both lists are in 'unit_cells' / 'e2e_cells'",
        "samples": e2e_samples + res["samples"][:6],
        "exhaustive": True,
        "unit": {
            "relocation_types": res["types"],
            "values_per_type": res["values_per_type"],
            "evaluations": res["evaluations"],
            "unmodelled_types": res["unmodelled_types"],
            "modelled_but_absent_in_wild": res["modelled_but_absent_in_wild"],
            "engine_wall_s": res["wall_s"],
        },
        "e2e": {
            "types": [t["name"] for t in E2E_TYPES if t["name"] not in e2e["skipped_types"]],
            "skipped_types": e2e["skipped_types"],
            "members": e2e["members"],
            "values_per_type": "0 and %d values around each of -2^n, -2^(n-1), 2^(n-1), 2^n (64-bit "
                               "types: 8 values incl. i64::MIN / i64::MAX)" % (7 if chk.thorough else 3),
            "reference_links": e2e["reference_links"],
            "wild_links": e2e["wild_links"],
            "learnt_place_or_base": e2e["learnt"],
            "matrix_value_ld_lld_wild": e2e["matrix"],
        },
        "unit_cells": unit_cells,
        "e2e_cells": e2e["cells"],
        "build_s": round(build_s, 1),
    }
    chk.assumptions = [
        "unit: the per-type oracle (engines/src/manual.rs) was transcribed by hand from the psABIs; "
        "where a psABI states no check, or GNU ld 2.40 and lld behave differently, the zone is free "
        "(x86-64: R_X86_64_8/16 must-accept [-2^(n-1), 2^n), may-accept [-2^n, 2^n) = GNU's bitfield "
        "rule; PC8/PC16 must-accept the signed range; RISC-V/LoongArch word and LO12 types: nothing "
        "demanded outside the 32-bit range)",
        "unit: misaligned values (w.r.t. the alignment in wild's table) may be accepted or rejected; "
        "if accepted the field must still hold the psABI's bits",
        "unit: the immediate field starts as zeros inside an 0xA5-filled buffer (what RELA objects "
        "contain); dependence on previous field content is C13's subject",
        "unit: signed MOVW types compare imm16 and bit 30 only (wild documents that it rewrites the "
        "rest of the opcode)",
        "e2e: GNU ld 2.40 and ld.lld 14 as installed are the referees; x86-64 only; types that need a "
        "GOT/PLT/TLS-sequence context other than the ones listed are not expressed",
    ]
    chk.finish()


if __name__ == "__main__":
    main()
