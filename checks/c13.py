#!/usr/bin/env python3
"""C13 - Instruction immediate fields are encoded exactly and locally.

Engine: `unitx immfield` (/verif/engines/src/immfield.rs + manual.rs). For every (instruction
variant, field width) pair used by the relocation tables of linker-utils (AArch64Instruction,
RiscVInstruction, LoongArch64Instruction; plus the c.lui relaxation encoding), the real
`write_to_value`, `read_value` and `RelocationInstruction::bit_mask` are run on
  all 2^w field values (w <= 21 in quick, <= 26 in thorough; wider single fields: boundary values
  in quick) - for the RISC-V formats every setting of the consumed value bits, for the
  two-part %hi/%lo style encodings (U-type, auipc+jalr, pcaddu18i+jirl) all 2^20 high parts x
  boundary low parts + boundary high parts x all low parts
  x negative in {false,true} where the encoder uses it (MOVN/MOVZ selection)
  x the basis of initial words {0, ~0, 1<<i, ~(1<<i)} (a 4-word basis where the product would
  exceed the tier's cap; stated per cell in coverage.cells_detail)
against mask/encoding tables transcribed from the Arm ARM, the RISC-V ISA manual and the LoongArch
reference manual:
  (1) locality      bits outside the manual's immediate field are unchanged
  (2) independence  the field's new content is the same whatever the word held before
  (3) round trip    wild's own decoder gives back the written value (write(read(write(x))) ==
                    write(x), and for one-to-one fields read(write(x)) == x up to sign extension)
  (4) advertised    the mask bit_mask() advertises covers exactly the manual's field
  (5) encoding      the field content is the manual's encoding of the value"""
import os
import sys

sys.path.insert(0, os.path.join(os.path.dirname(os.path.abspath(__file__)), "..", "lib"))
import vlib
import unitx


def main():
    chk = vlib.Check("C13", "exploration")
    build_s = unitx.build(chk)
    if chk.args.replay:
        unitx.finish_replay(chk, unitx.replay_case(chk, "immfield", chk.args.replay))
    res = unitx.run(chk, "immfield")
    class_rank = ["locality", "encoding", "independence", "roundtrip", "decode", "advertised", "panic"]
    # Oracle (4) (the mask `bit_mask()` advertises) goes beyond the property statement, which
    # speaks only of the bits written, their dependence on the value, and decoding. Mismatches
    # are reported in the evidence as observations, not as violations.
    observations = [v for v in res.get("violations", []) if ":advertised-mask" in v["key"]]
    res["violations"] = [v for v in res.get("violations", []) if ":advertised-mask" not in v["key"]]
    unitx.record_violations(chk, res, order=lambda k: (
        next((i for i, c in enumerate(class_rank) if f":{c}" in k), 9), k))
    cells = res["cells"]
    detail = res["cells_detail"]
    if not detail or res["evaluations"] < 1000:
        chk.machinery("immfield enumerated nothing: wild's relocation tables not found?")
    chk.coverage = {
        "evaluations": res["evaluations"],
        "distinct_nontrivial": len(cells),
        "rule": "one evaluation = one (variant, width, field value, negative, initial word) tuple on "
                "which write_to_value and read_value really ran and oracles (1)-(3) were evaluated; "
                "(5) runs once per (value, negative), (4) once per (variant, bit range). "
                "distinct_nontrivial = number of distinct (variant, width, outcome) cells that "
                "occurred, outcome in {evaluated, VIOLATION:<class>, advertised-mask-ok} (listed in "
                "'cells'); per-cell domain sizes and the number of distinct field contents produced "
                "are in 'cells_detail'",
        "samples": res["samples"],
        "exhaustive": True,
        "exhaustive_note": "exhaustive for the domain stated per cell in cells_detail ('domain', "
                           "'basis'): no time or size cap cuts an enumeration short; cells with "
                           "values_exhaustive=false enumerate the stated boundary products / "
                           "boundary values completely, not all field values",
        "cells_with_all_field_values": sum(1 for c in detail if c["values_exhaustive"]),
        "cells": cells,
        "cells_detail": detail,
        "variants_total": len(detail),
        "skipped_variants": res["skipped_variants"],
        "field_definitions": "AArch64: ADR/ADRP immlo[30:29] immhi[23:5]; ADD imm12[21:10]; LDR/STR "
                             "unsigned-offset imm12[21:10]; LDR literal imm19[23:5]; B/BL imm26[25:0]; "
                             "B.cond/CBZ imm19[23:5]; TBZ imm14[18:5]; MOVZ/MOVK imm16[20:5]. For the "
                             "signed MOVW forms (variant Movnz) the allowed bits are everything except "
                             "rd[4:0] and hw[22:21]: the comment in AArch64Instruction::write_to_value "
                             "documents that it rewrites the word to a 64-bit MOVN/MOVZ (aaelf64 itself "
                             "only names imm16 and bit 30); content is checked on imm16 and bit 30. "
                             "RISC-V: I, S, B, U, J, CI(c.lui), CB, CJ per the ISA manual, %hi = "
                             "(x+0x800)>>12. LoongArch: 1RI20 si20[24:5], 2RI12 si12[21:10], 2RI16 "
                             "offs16[25:10] (variant Shift10 used with 16 bits by R_LARCH_B16), 1RI21, "
                             "I26, CALL36 = pcaddu18i si20 + jirl offs16 with +0x20000 rounding. "
                             "R_LARCH_CALL30 (variant Call30): only the union of the two instruction "
                             "fields is known to the oracle; its exact split is not modelled",
        "advertised_mask_observations": [{"key": v["key"], "what": v["what"][:300]}
                                         for v in observations],
        "engine_wall_s": res["wall_s"],
        "build_s": round(build_s, 1),
    }
    chk.assumptions = [
        "the oracle tables in engines/src/manual.rs were transcribed by hand from the manuals; a "
        "transcription error there would show up as a violation on a correct encoder, and every "
        "reported key was inspected by hand (see replays)",
        "two-part encodings and fields wider than the tier's limit are enumerated over the stated "
        "boundary products, not over all 2^32..2^36 values",
        "AArch64Instruction::MachOLow12 is not used by any ELF table entry and its decoder is todo!(); "
        "it is outside this check",
    ]
    chk.finish()


if __name__ == "__main__":
    main()
