#!/usr/bin/env python3
"""C14 - x86-64 GOT and TLS relaxations preserve instruction semantics.

Bounded-exhaustive family: instruction form x register x symbol kind x output kind x
--relax/--no-relax. Every member is a *site*: a few exact instruction bytes (written with elfgen,
no assembler) carrying a GOT / TLS / PLT relocation against one symbol. All sites for one symbol
are packed into one object; one link per (symbol, output kind, relax) by the real wild (server).

Oracle (no linker involved): the generator knows the ORIGINAL meaning of each site ("reg <- [GOT
slot of S]", "reg <- reg OP [slot]", "flags(reg, [slot])", "call/jmp [slot]", "rax <- &tlsvar",
"reg <- tpoff(tlsvar)" ...). The bytes left at the site in the output are decoded with
lib/x86mini.py and executed symbolically in 64-bit arithmetic over linear forms
const + k*B (load bias) + TP (thread pointer) + MOD (this module's TLS block) + addr(sym) +
tpoff(sym) + initial register values; memory operands are read from the output image with its
dynamic relocations applied symbolically (RELATIVE -> +B, GLOB_DAT/JUMP_SLOT/64 -> addr(sym),
TPOFF64/DTPMOD64/DTPOFF64/TLSDESC/IRELATIVE accordingly). Required: the effect equals the original
effect with the slot holding the symbol's final value V (absolute literal; symbol address from the
output .symtab, cross-checked against a unique marker stored at the definition; TP offset from
PT_TLS per the psABI). A preemptible symbol (default visibility in -shared, or imported) must
still be reached through a dynamic symbol reference. A site left unrelaxed is fine when its slot
is right. The same objects are linked by GNU ld and its output must pass the same oracle
(calibration of the decoder and the oracle; classes GNU ld rejects are counted). A link that wild
rejects is a verdict too ("link-error"), but only for inputs that GNU ld links.

Family (thorough): symbols {local / hidden / default function and data, 6 absolute values x
{hidden, default, --defsym}, undefined weak, IFUNC hidden / default, imported function / data, TLS
local / hidden / default} x outputs {static, static-pie, pie (dynamic), shared, dynamic non-PIE}
x {--relax, --no-relax} x forms: GOTPCRELX {mov, test, 8 ALU ops} x 8 regs + call + jmp;
REX_GOTPCRELX the same with all 16 REX bytes (+ call / jmp with REX 40/48/4c); GOTPCREL {mov, add,
cmp} x {no REX, 48, 4c} + call + jmp; PLT32 call / jmp; CODE_4_GOTPCRELX (REX2, W = 0/1, r0..r31);
GOTTPOFF {mov, add} x REX {48, 4c} x 8 regs; CODE_4_GOTTPOFF (r0..r31); CODE_6_GOTTPOFF (EVEX
NDD / NF add, both operand orders, r0..r31); TLSGD and TLSLD in the PLT, no-PLT (call *GOT) and
large-model shapes; GOTPC32_TLSDESC + TLSDESC_CALL. Quick: the same without APX, REX bytes
{40, 44, 48, 4c}, outputs {static, static-pie, pie, shared}, one of the six --defsym values; the
GNU ld calibration runs with --relax only and, in position-independent outputs, on two of the
twelve absolute symbols (thorough: everything wild links, minus APX and REX.B encodings).
C14_SYMS=a,b restricts the symbols (debugging aid; never set by ./check)."""
import hashlib
import itertools
import json
import os
import struct
import subprocess
import sys
import time

sys.path.insert(0, os.path.join(os.path.dirname(os.path.abspath(__file__)), "..", "lib"))
import vlib
import wildrun
import elfread
import x86mini
from elfgen import (ElfObject, SHF_ALLOC, SHF_EXECINSTR, SHF_WRITE, SHF_TLS, SHT_NOBITS,
                    STB_LOCAL, STB_GLOBAL, STB_WEAK, STT_NOTYPE, STT_OBJECT, STT_FUNC, STT_TLS,
                    STT_GNU_IFUNC, STV_DEFAULT, STV_HIDDEN)

M64 = (1 << 64) - 1
R = dict(PLT32=4, GOTPCREL=9, TLSGD=19, TLSLD=20, DTPOFF32=21, GOTTPOFF=22, PLTOFF64=31,
         GOTPC32_TLSDESC=34, TLSDESC_CALL=35, GOTPCRELX=41, REX_GOTPCRELX=42,
         CODE_4_GOTPCRELX=43, CODE_4_GOTTPOFF=44, CODE_6_GOTTPOFF=50)
RNAME = {v: k for k, v in R.items()}
ALU_OPC = {'add': 0x03, 'or': 0x0b, 'adc': 0x13, 'sbb': 0x1b, 'and': 0x23, 'sub': 0x2b,
           'xor': 0x33, 'cmp': 0x3b}
ABS_VALUES = [0x1000, 0x7fffffff, 0x80000000, 0xffffffff, 1 << 32, (1 << 63) + 1]
OUTS = ['static', 'static-pie', 'pie', 'shared', 'dynexe']


# ---------------------------------------------------------------------------------------------
# Symbols

def marker(name):
    return hashlib.sha256(('c14:' + name).encode()).digest()[:8]


def _syms():
    s = {}
    s['loc_f'] = dict(cls='func', where='local', vis='local')
    s['loc_d'] = dict(cls='data', where='local', vis='local')
    s['hid_f'] = dict(cls='func', where='defs', vis='hidden')
    s['hid_d'] = dict(cls='data', where='defs', vis='hidden')
    s['def_f'] = dict(cls='func', where='defs', vis='default')
    s['def_d'] = dict(cls='data', where='defs', vis='default')
    for i, v in enumerate(ABS_VALUES):
        s['absh_%d' % i] = dict(cls='abs', where='defs', vis='hidden', value=v)
        s['absd_%d' % i] = dict(cls='abs', where='defs', vis='default', value=v)
        s['dsym_%d' % i] = dict(cls='abs', where='defsym', vis='default', value=v)
    s['wk_undef'] = dict(cls='weak', where='none', vis='default')
    s['ifn_h'] = dict(cls='ifunc', where='defs', vis='hidden')
    s['ifn_d'] = dict(cls='ifunc', where='defs', vis='default')
    s['imp_f'] = dict(cls='func', where='dso', vis='default')
    s['imp_d'] = dict(cls='data', where='dso', vis='default')
    s['tl_loc'] = dict(cls='tls', where='local', vis='local')
    s['tl_hid'] = dict(cls='tls', where='defs', vis='hidden')
    s['tl_def'] = dict(cls='tls', where='defs', vis='default')
    return s


SYMS = _syms()
DEFS_TEXT = ['hid_f', 'def_f', 'ifn_h', 'ifn_d', '__tls_get_addr']      # 16-byte stride
DEFS_DATA = ['hid_d', 'def_d']
DEFS_TLS = ['tl_pad', 'tl_hid', 'tl_def', 'tl_pad2']                    # 8-byte stride


def applicable(symname, out):
    w = SYMS[symname]['where']
    if w == 'dso':
        return out in ('pie', 'shared', 'dynexe')
    if w == 'defsym':
        return out in ('static', 'dynexe')
    return True


def preemptible(symname, out):
    i = SYMS[symname]
    if i['where'] == 'dso':
        return True
    return out == 'shared' and i['vis'] == 'default' and i['cls'] != 'weak'


def vclass(symname, out):
    i = SYMS[symname]
    p = preemptible(symname, out)
    if i['cls'] == 'abs':
        v = i['value']
        c = 'abs<2^31' if v < 1 << 31 else 'abs-in-[2^31,2^32)' if v < 1 << 32 else 'abs>=2^32'
        return c + ('-preemptible' if p else '')
    if i['cls'] in ('func', 'data'):
        if i['where'] == 'dso':
            return 'imported'
        return 'preemptible' if p else 'addr-' + i['vis']
    if i['cls'] == 'weak':
        return 'undef-weak'
    if i['cls'] == 'ifunc':
        return 'ifunc-preemptible' if p else 'ifunc'
    return 'tls-preemptible' if p else 'tls-' + i['vis']


def build_defs():
    o = ElfObject('x86_64')
    text = b''.join(marker(n) + b'\xcc' * 8 for n in DEFS_TEXT)
    t = o.section('.text.defs', flags=SHF_ALLOC | SHF_EXECINSTR, align=16, data=text)
    for k, n in enumerate(DEFS_TEXT):
        i = SYMS.get(n, dict(cls='func', vis='default'))
        vis = STV_HIDDEN if i['vis'] == 'hidden' else STV_DEFAULT
        typ = STT_GNU_IFUNC if i['cls'] == 'ifunc' else STT_FUNC
        o.symbol(n, section=t, value=16 * k, size=16, type=typ, vis=vis)
        o.symbol('at_' + n, section=t, value=16 * k, size=16, type=STT_FUNC, vis=STV_HIDDEN)
    d = o.section('.data.defs', flags=SHF_ALLOC | SHF_WRITE, align=8,
                  data=b''.join(marker(n) for n in DEFS_DATA))
    for k, n in enumerate(DEFS_DATA):
        vis = STV_HIDDEN if SYMS[n]['vis'] == 'hidden' else STV_DEFAULT
        o.symbol(n, section=d, value=8 * k, size=8, type=STT_OBJECT, vis=vis)
    td = o.section('.tdata', flags=SHF_ALLOC | SHF_WRITE | SHF_TLS, align=16,
                   data=b''.join(marker(n) for n in DEFS_TLS))
    for k, n in enumerate(DEFS_TLS):
        if n in SYMS:
            vis = STV_HIDDEN if SYMS[n]['vis'] == 'hidden' else STV_DEFAULT
            o.symbol(n, section=td, value=8 * k, size=8, type=STT_TLS, vis=vis)
    o.section('.tbss', type=SHT_NOBITS, flags=SHF_ALLOC | SHF_WRITE | SHF_TLS, align=32, size=40)
    for n, i in SYMS.items():
        if i['cls'] == 'abs' and i['where'] == 'defs':
            o.symbol(n, section='abs', value=i['value'],
                     vis=STV_HIDDEN if i['vis'] == 'hidden' else STV_DEFAULT)
    o.note_gnu_stack()
    return o.to_bytes()


def build_dso_obj():
    o = ElfObject('x86_64')
    t = o.section('.text', flags=SHF_ALLOC | SHF_EXECINSTR, align=16, data=b'\xc3' + b'\xcc' * 15)
    o.symbol('imp_f', section=t, value=0, size=1, type=STT_FUNC)
    d = o.section('.data', flags=SHF_ALLOC | SHF_WRITE, align=8, data=bytes(8))
    o.symbol('imp_d', section=d, value=0, size=8, type=STT_OBJECT)
    o.note_gnu_stack()
    return o.to_bytes()


# ---------------------------------------------------------------------------------------------
# Sites

class Site:
    __slots__ = ('sid', 'fam', 'mnem', 'opsize', 'dst', 'areg', 'code', 'relocs', 'kind', 'off',
                 'rbx_got')

    def __init__(self, sid, fam, mnem, kind, code, relocs, opsize=64, dst=None, areg=None,
                 rbx_got=False):
        self.sid, self.fam, self.mnem, self.kind = sid, fam, mnem, kind
        self.code, self.relocs = bytes(code), relocs
        self.opsize, self.dst, self.areg, self.rbx_got = opsize, dst, areg, rbx_got
        self.off = None

    def group(self):
        return '%s:%s' % (self.fam, self.mnem)


def _modrm_rip(reg):
    return (reg & 7) << 3 | 5


def got_sites(sym, thorough):
    """Every GOT-indirection form against a non-TLS symbol. kind 'val': the GOT slot is a source
    operand (dst <- [slot] / dst <- areg OP [slot] / flags); kind 'branch': call / jmp."""
    out = []
    z4 = bytes(4)

    def reg_forms(fam, rtype, prefix, regbase, opsize, tag):
        roff = len(prefix) + 2
        for r3 in range(8):
            reg = regbase | r3
            mr = _modrm_rip(r3)
            forms = [('mov', 0x8b), ('test', 0x85)] + list(ALU_OPC.items())
            for mn, opc in forms:
                out.append(Site('%s:%s:%s:r%d' % (fam, mn, tag, reg), fam, mn, 'val',
                                prefix + bytes([opc, mr]) + z4, [(roff, rtype, sym, -4)],
                                opsize=opsize, dst=None if mn in ('cmp', 'test') else reg,
                                areg=reg))

    def branch_forms(fam, rtype, prefix, tag):
        roff = len(prefix) + 2
        for mn, mr in (('call', 0x15), ('jmp', 0x25)):
            out.append(Site('%s:%s:%s' % (fam, mn, tag), fam, mn, 'branch',
                            prefix + bytes([0xff, mr]) + z4, [(roff, rtype, sym, -4)]))

    reg_forms('GOTPCRELX', R['GOTPCRELX'], b'', 0, 32, 'norex')
    branch_forms('GOTPCRELX', R['GOTPCRELX'], b'', 'norex')
    rexes = range(0x40, 0x50) if thorough else (0x40, 0x44, 0x48, 0x4c)
    for rex in rexes:
        reg_forms('REX_GOTPCRELX', R['REX_GOTPCRELX'], bytes([rex]), (rex & 4) << 1,
                  64 if rex & 8 else 32, 'rex%02x' % rex)
    for rex in ((0x40, 0x48, 0x4c) if thorough else (0x48,)):
        branch_forms('REX_GOTPCRELX', R['REX_GOTPCRELX'], bytes([rex]), 'rex%02x' % rex)
    # Plain GOTPCREL (older assemblers / -mrelax-relocations=no): nothing may change meaning.
    for prefix, base, size, tag in ((b'', 0, 32, 'norex'), (b'\x48', 0, 64, 'rex48'),
                                    (b'\x4c', 8, 64, 'rex4c')):
        roff = len(prefix) + 2
        for r3 in range(8):
            for mn, opc in (('mov', 0x8b), ('add', 0x03), ('cmp', 0x3b)):
                out.append(Site('GOTPCREL:%s:%s:r%d' % (mn, tag, base | r3), 'GOTPCREL', mn, 'val',
                                prefix + bytes([opc, _modrm_rip(r3)]) + z4,
                                [(roff, R['GOTPCREL'], sym, -4)], opsize=size,
                                dst=None if mn == 'cmp' else base | r3, areg=base | r3))
    branch_forms('GOTPCREL', R['GOTPCREL'], b'', 'norex')
    # Direct call / jmp through the PLT.
    for mn, opc in (('call', 0xe8), ('jmp', 0xe9)):
        out.append(Site('PLT32:%s' % mn, 'PLT32', mn, 'branch', bytes([opc]) + z4,
                        [(1, R['PLT32'], sym, -4)]))
    if thorough:
        # APX: REX2-prefixed forms (R_X86_64_CODE_4_GOTPCRELX), registers 0..31, W = 0/1.
        for w in (0, 1):
            for hi in range(4):
                pay = x86mini.rex2_payload(w=w, reg=hi << 3)
                reg_forms('CODE_4_GOTPCRELX', R['CODE_4_GOTPCRELX'], bytes([0xd5, pay]), hi << 3,
                          64 if w else 32, 'rex2_%02x' % pay)
    return out


def tls_sites(sym, thorough, with_ld=True):
    out = []
    z4 = bytes(4)
    tga = '__tls_get_addr'
    for rex, base in ((0x48, 0), (0x4c, 8)):
        for r3 in range(8):
            reg = base | r3
            for mn, opc in (('mov', 0x8b), ('add', 0x03)):
                out.append(Site('GOTTPOFF:%s:rex%02x:r%d' % (mn, rex, reg), 'GOTTPOFF', mn, 'tpoff',
                                bytes([rex, opc, _modrm_rip(r3)]) + z4,
                                [(3, R['GOTTPOFF'], sym, -4)], dst=reg, areg=reg))
    lea_rdi = b'\x48\x8d\x3d' + z4
    large_call = b'\x48\xb8' + bytes(8) + b'\x48\x01\xd8\xff\xd0'
    out.append(Site('TLSGD:std', 'TLSGD', 'std', 'tlsaddr',
                    b'\x66' + lea_rdi + b'\x66\x66\x48\xe8' + z4,
                    [(4, R['TLSGD'], sym, -4), (12, R['PLT32'], tga, -4)], dst=0))
    out.append(Site('TLSGD:noplt', 'TLSGD', 'noplt', 'tlsaddr',
                    b'\x66' + lea_rdi + b'\x66\x48\xff\x15' + z4,
                    [(4, R['TLSGD'], sym, -4), (12, R['GOTPCRELX'], tga, -4)], dst=0))
    out.append(Site('TLSGD:large', 'TLSGD', 'large', 'tlsaddr', lea_rdi + large_call,
                    [(3, R['TLSGD'], sym, -4), (9, R['PLTOFF64'], tga, 0)], dst=0, rbx_got=True))
    if with_ld:
        lea_dtp = b'\x48\x8d\x90' + z4                 # lea x@dtpoff(%rax),%rdx
        out.append(Site('TLSLD:std', 'TLSLD', 'std', 'tlsaddr', lea_rdi + b'\xe8' + z4 + lea_dtp,
                        [(3, R['TLSLD'], sym, -4), (8, R['PLT32'], tga, -4),
                         (15, R['DTPOFF32'], sym, 0)], dst=2))
        out.append(Site('TLSLD:noplt', 'TLSLD', 'noplt', 'tlsaddr',
                        lea_rdi + b'\xff\x15' + z4 + lea_dtp,
                        [(3, R['TLSLD'], sym, -4), (9, R['GOTPCRELX'], tga, -4),
                         (16, R['DTPOFF32'], sym, 0)], dst=2))
        out.append(Site('TLSLD:large', 'TLSLD', 'large', 'tlsaddr', lea_rdi + large_call + lea_dtp,
                        [(3, R['TLSLD'], sym, -4), (9, R['PLTOFF64'], tga, 0),
                         (25, R['DTPOFF32'], sym, 0)], dst=2, rbx_got=True))
    out.append(Site('TLSDESC:std', 'GOTPC32_TLSDESC', 'lea+call', 'tlsdesc',
                    b'\x48\x8d\x05' + z4 + b'\xff\x10',
                    [(3, R['GOTPC32_TLSDESC'], sym, -4), (7, R['TLSDESC_CALL'], sym, 0)], dst=0))
    if thorough:
        for hi in range(4):
            pay = x86mini.rex2_payload(w=1, reg=hi << 3)
            for r3 in range(8):
                reg = hi << 3 | r3
                for mn, opc in (('mov', 0x8b), ('add', 0x03)):
                    out.append(Site('CODE_4_GOTTPOFF:%s:rex2_%02x:r%d' % (mn, pay, reg),
                                    'CODE_4_GOTTPOFF', mn, 'tpoff',
                                    bytes([0xd5, pay, opc, _modrm_rip(r3)]) + z4,
                                    [(4, R['CODE_4_GOTTPOFF'], sym, -4)], dst=reg, areg=reg))
        # EVEX map 4 add: NDD (with and without NF) in both operand orders, and NF without NDD.
        for reg in range(32):
            for opc in (0x01, 0x03):
                for nf in (0, 1):
                    vv = (reg * 7 + 5 + opc) % 32
                    out.append(Site('CODE_6_GOTTPOFF:add:%02x-nd-nf%d:r%d-v%d' % (opc, nf, reg, vv),
                                    'CODE_6_GOTTPOFF', 'add', 'tpoff',
                                    b'\x62' + x86mini.evex_map4(1, reg, vv, 1, nf) +
                                    bytes([opc, _modrm_rip(reg)]) + z4,
                                    [(6, R['CODE_6_GOTTPOFF'], sym, -4)], dst=vv, areg=reg))
            out.append(Site('CODE_6_GOTTPOFF:add:03-nf:r%d' % reg, 'CODE_6_GOTTPOFF', 'add', 'tpoff',
                            b'\x62' + x86mini.evex_map4(1, reg, 0, 0, 1) +
                            bytes([0x03, _modrm_rip(reg)]) + z4,
                            [(6, R['CODE_6_GOTTPOFF'], sym, -4)], dst=reg, areg=reg))
    return out


def sites_for(symname, thorough, out=None):
    if SYMS[symname]['cls'] == 'tls':
        return tls_sites(symname, thorough)
    return got_sites(symname, thorough)


def site_allowed(site, symname, out):
    """Members that have no defined original meaning are not in the family."""
    if site.fam == 'TLSLD' and preemptible(symname, out):
        return False       # local-dynamic code is never generated for a preemptible variable
    return True


def build_sites_obj(symname, sites):
    o = ElfObject('x86_64')
    code = bytearray()
    for s in sites:
        s.off = len(code)
        code += s.code
    end = len(code)
    code += b'\xcc' * 16
    t = o.section('.text', flags=SHF_ALLOC | SHF_EXECINSTR, align=16, data=bytes(code))
    o.symbol('_start', section=t, value=0, type=STT_FUNC)
    o.symbol('sites_end', section=t, value=end, vis=STV_HIDDEN)
    made = {}

    def getsym(name):
        if name in made:
            return made[name]
        i = SYMS.get(name)
        if i is None or i['where'] in ('defs', 'dso', 'defsym'):
            s = o.symbol(name, type=STT_TLS if i and i['cls'] == 'tls' else STT_NOTYPE)
        elif i['where'] == 'none':
            s = o.symbol(name, bind=STB_WEAK)
        elif i['cls'] == 'func':
            sec = o.section('.text.loc', flags=SHF_ALLOC | SHF_EXECINSTR, align=16,
                            data=marker(name) + b'\xcc' * 8)
            s = o.symbol(name, section=sec, size=16, bind=STB_LOCAL, type=STT_FUNC)
        elif i['cls'] == 'data':
            sec = o.section('.data.loc', flags=SHF_ALLOC | SHF_WRITE, align=8, data=marker(name))
            s = o.symbol(name, section=sec, size=8, bind=STB_LOCAL, type=STT_OBJECT)
        else:
            sec = o.section('.tdata', flags=SHF_ALLOC | SHF_WRITE | SHF_TLS, align=8,
                            data=marker('tl_locpad') + marker(name))
            s = o.symbol(name, section=sec, value=8, size=8, bind=STB_LOCAL, type=STT_TLS)
        made[name] = s
        return s

    for s in sites:
        for roff, rtype, name, addend in s.relocs:
            o.reloc(t, s.off + roff, rtype, getsym(name), addend)
    o.note_gnu_stack()
    return o.to_bytes()


# ---------------------------------------------------------------------------------------------
# Linear forms

class Lin:
    """const + sum(coeff * term) in 64-bit arithmetic. bits = 32: only the low 32 bits are
    meaningful (the value was produced by a 32-bit operation and is zero-extended)."""
    __slots__ = ('c', 't', 'bits')

    def __init__(self, c=0, t=None, bits=64):
        self.c, self.t, self.bits = c & M64, dict(t or {}), bits

    def add(self, o, bits=64):
        t = dict(self.t)
        for k, v in o.t.items():
            t[k] = t.get(k, 0) + v
            if t[k] == 0:
                del t[k]
        return Lin(self.c + o.c, t, bits)

    def neg(self):
        return Lin(-self.c, {k: -v for k, v in self.t.items()})

    def key(self, bits=None):
        bits = bits or self.bits
        return (self.c & ((1 << bits) - 1), tuple(sorted(self.t.items(), key=repr)))

    def __repr__(self):
        s = '%#x' % self.c
        for k, v in sorted(self.t.items(), key=repr):
            s += ' %+d*%s' % (v, k if isinstance(k, str) else '%s(%s)' % k)
        return s + ('' if self.bits == 64 else ' [%d bit]' % self.bits)


def term(name, c=0):
    return Lin(c, {name: 1})


class Special:
    """A value that is not a linear form (result of an IFUNC resolver, an ALU result ...)."""
    def __init__(self, *what):
        self.what = what

    def __repr__(self):
        return 'Special%r' % (self.what,)


# ---------------------------------------------------------------------------------------------
# Output image

R_64, R_GLOB_DAT, R_JUMP_SLOT, R_RELATIVE, R_DTPMOD64, R_DTPOFF64, R_TPOFF64, R_TLSDESC, \
    R_IRELATIVE = 1, 6, 7, 8, 16, 17, 18, 36, 37


class Image:
    def __init__(self, path, out):
        self.elf = e = elfread.Elf(path)
        self.out = out
        self.pic = e.e_type == elfread.ET_DYN
        self.is_exe = out != 'shared'
        self.syms = {}
        for s in e.symbols('.symtab'):
            if s.name and s.shndx != elfread.SHN_UNDEF and s.name not in self.syms:
                self.syms[s.name] = s
        self.relocs = {}
        has_dyn = any(p.p_type == elfread.PT_DYNAMIC for p in e.segments)
        if has_dyn:
            dynsyms = e.symbols('.dynsym') if e.dynamic_dict().get(elfread.DT_SYMTAB) else []
            dr = e.dyn_relocs()
            for o, t, si, a in dr['rela'] + dr['jmprel']:
                name = dynsyms[si].name if si and si < len(dynsyms) else None
                self._add(o, t, name, a or 0)
            for o in dr['relr']:
                self._add(o, R_RELATIVE, None, e.read_u64(o))
        else:
            for r in e.relocations():
                self._add(r.offset, r.type, r.sym_name or None, r.addend or 0)
        self.tls = None
        for p in e.segments:
            if p.p_type == elfread.PT_TLS:
                self.tls = (p.p_vaddr, p.p_memsz, max(1, p.p_align))
        self.dup = None

    def _add(self, place, rtype, name, addend):
        if place in self.relocs:
            self.dup = place
        self.relocs[place] = (rtype, name, addend)

    def addr(self, a):
        return Lin(a, {'B': 1} if self.pic else None)

    def sym_addr(self, name):
        s = self.syms.get(name)
        return None if s is None else s.value

    def read(self, addr, n):
        return self.elf.read_vaddr(addr, n)

    def modbase(self):
        """Address of this module's TLS block as a linear form."""
        if self.is_exe:
            va, memsz, align = self.tls
            tp = va + memsz + (-(va + memsz)) % align      # psABI variant II, link-time image
            return Lin(va - tp, {'TP': 1})
        return term('MOD')

    def slot(self, addr):
        """The 8-byte word at addr after dynamic relocation -> Lin | Special."""
        try:
            raw = struct.unpack('<Q', self.read(addr, 8))[0]
        except elfread.ElfError:
            raise Stop('bad-address', 'memory operand at %#x is outside the image' % addr)
        r = self.relocs.get(addr)
        if r is None:
            return Lin(raw)
        t, name, a = r
        if t == R_RELATIVE:
            return Lin(a, {'B': 1})
        if t in (R_64, R_GLOB_DAT, R_JUMP_SLOT):
            if name:
                return Lin(a if t == R_64 else 0, {('addr', name): 1})
            return Lin(a)
        if t == R_IRELATIVE:
            return Special('ifunc', Lin(a, {'B': 1} if self.pic else None).key())
        if t == R_TPOFF64:
            if name:
                return Lin(a, {('tpoff', name): 1})
            return self.modbase().add(Lin(a, {'TP': -1}))
        if t == R_DTPMOD64:
            return Special('dtpmod', name)
        if t == R_DTPOFF64:
            return Special('dtpoff', name, a)
        if t == R_TLSDESC:
            return Special('tlsdesc', name, a)
        return Special('unknown-reloc', t, name, a)


# ---------------------------------------------------------------------------------------------
# Symbolic execution of a site

class Stop(Exception):
    """The site's bytes have no meaning in the supported subset: (problem, detail)."""
    def __init__(self, problem, detail):
        Exception.__init__(self, problem, detail)
        self.problem, self.detail = problem, detail


def init_reg(n):
    return term(('init', n))


def run_site(img, code, addr, rbx_got=False, tls=False):
    """-> dict(regs={reg: value}, flags=(mnem, bits, a, b) | None, branch=(mnem, value) | None,
    insns=[text], forms=[...])."""
    regs = {}
    flags = branch = None
    texts, forms = [], []
    try:
        insns = x86mini.decode_all(code, addr)
    except x86mini.DecodeError as ex:
        raise Stop('undecodable', '%s: %s' % (ex, code.hex()))

    def getreg(n):
        if n in regs:
            return regs[n]
        if n == 3 and rbx_got:          # large code model: %rbx holds the GOT base
            g = img.sym_addr('_GLOBAL_OFFSET_TABLE_')
            if g is None:
                raise Stop('machinery', '_GLOBAL_OFFSET_TABLE_ missing from .symtab')
            return img.addr(g)
        return init_reg(n)

    def rd(o, bits):
        k = o[0]
        if k == 'reg':
            v = getreg(o[1])
            if isinstance(v, Lin) and v.bits < bits:    # zero-extended 32-bit result used as 64
                return Special('zext', v.bits, v.key())
            return v
        if k == 'imm':
            forms.append('imm')
            return Lin(o[1])
        if k == 'rip':
            forms.append('mem')
            return img.slot(o[1])
        if k == 'abs' and o[2] == 'fs' and o[1] == 0:
            forms.append('fs0')
            return term('TP')
        raise Stop('unsupported-operand', repr(o))

    def ea(o):
        if o[0] == 'rip':
            forms.append('lea-rip')
            return img.addr(o[1])
        if o[0] == 'base':
            b = getreg(o[1])
            if not isinstance(b, Lin) or b.bits != 64:
                raise Stop('unsupported-operand', 'lea off a non-linear / truncated base %r' % (b,))
            forms.append('lea-base')
            return b.add(Lin(o[2]))
        raise Stop('unsupported-operand', repr(o))

    def tls_get_addr():
        p = getreg(7)
        if not (isinstance(p, Lin) and set(p.t) <= {'B'}):
            raise Stop('tls-arg', '__tls_get_addr called with rdi = %r' % (p,))
        if p.t.get('B', 0) != (1 if img.pic else 0):
            raise Stop('bias', 'GOT pair address %r does not move with the image' % (p,))
        m, off = img.slot(p.c), img.slot((p.c + 8) & M64)
        forms.append('tls_get_addr')
        if isinstance(m, Lin) and not m.t and m.c == 1 and img.is_exe:
            mod = None
        elif isinstance(m, Special) and m.what[0] == 'dtpmod':
            mod = m.what[1]
        else:
            raise Stop('tls-pair', 'module word of the pair at %#x is %r' % (p.c, m))
        if isinstance(off, Lin) and not off.t:
            o_name, o_add = None, off.c
        elif isinstance(off, Special) and off.what[0] == 'dtpoff':
            o_name, o_add = off.what[1], off.what[2]
        else:
            raise Stop('tls-pair', 'offset word of the pair at %#x is %r' % (p.c + 8, off))
        if mod is None and o_name is None:
            return img.modbase().add(Lin(o_add))
        if mod is not None and (o_name == mod or (o_name is None and o_add == 0)):
            # offset 0 in another module's block: only meaningful together with a name
            if o_name is None:
                raise Stop('tls-pair', 'DTPMOD64 against %s with a constant offset' % mod)
            return Lin(o_add, {'TP': 1, ('tpoff', mod): 1})
        raise Stop('tls-pair', 'pair at %#x: module %r offset %r' % (p.c, m, off))

    for i in insns:
        texts.append(i.text)
        mn, bits = i.mnem, i.opsize
        if mn in ('nop', 'endbr64'):
            continue
        if branch is not None:
            raise Stop('after-branch', 'instruction after the transfer: %s' % i.text)
        if mn in ('mov', 'movabs'):
            if i.dst[0] != 'reg':
                raise Stop('memory-write', i.text)
            v = rd(i.b, bits)
            if isinstance(v, Lin):
                v = Lin(v.c, v.t, bits)
            regs[i.dst[1]] = v
        elif mn == 'lea':
            v = ea(i.b)
            regs[i.dst[1]] = Lin(v.c, v.t, bits)
        elif mn in ALU_OPC or mn == 'test':
            a, b = rd(i.a, bits), rd(i.b, bits)
            if mn in ('cmp', 'test'):
                flags = (mn, bits, a, b)
                continue
            if i.dst[0] != 'reg':
                raise Stop('memory-write', i.text)
            if mn == 'add' and isinstance(a, Lin) and isinstance(b, Lin):
                regs[i.dst[1]] = a.add(b, bits)
            else:
                regs[i.dst[1]] = Special('alu', mn, bits, a, b)
        elif mn in ('call', 'jmp'):
            o = i.b
            if o[0] == 'rel':
                forms.append('rel')
                tgt = img.addr(o[1])
            elif o[0] == 'rip':
                forms.append('mem')
                tgt = img.slot(o[1])
            elif o[0] == 'reg':
                tgt = getreg(o[1])
            elif o[0] == 'base' and o[2] == 0 and mn == 'call':
                # call *(%reg): TLS descriptor call; reg must be rax and point at the descriptor
                p = getreg(o[1])
                if o[1] != 0 or not (isinstance(p, Lin) and set(p.t) <= {'B'}):
                    raise Stop('tlsdesc-call', 'call *(%%%s) with %r' % (x86mini.REG64[o[1]], p))
                d = img.slot(p.c)
                if not (isinstance(d, Special) and d.what[0] == 'tlsdesc'):
                    raise Stop('tlsdesc-slot', 'descriptor at %#x is %r' % (p.c, d))
                forms.append('tlsdesc-call')
                name, a = d.what[1], d.what[2]
                if name:
                    regs[0] = Lin(a, {('tpoff', name): 1})
                else:
                    regs[0] = img.modbase().add(Lin(a, {'TP': -1}))
                continue
            else:
                raise Stop('unsupported-operand', i.text)
            if tls and mn == 'call' and is_symbol(img, tgt, '__tls_get_addr', img.out) is None:
                regs[0] = tls_get_addr()
                for c in (1, 2, 6, 7, 8, 9, 10, 11):
                    regs.pop(c, None)
                continue
            branch = (mn, tgt)
        else:
            raise Stop('unsupported-insn', i.text)
    return dict(regs=regs, flags=flags, branch=branch, insns=texts, forms=forms)


def _stub_slot(img, lin):
    """If `lin` is the address of a PLT-like stub ([endbr64] [bnd] jmp *slot(%rip)), the value in
    its slot, else None."""
    if not isinstance(lin, Lin) or set(lin.t) - {'B'} or lin.t.get('B', 0) != (1 if img.pic else 0):
        return None
    try:
        code = img.read(lin.c, 16)
    except elfread.ElfError:
        return None
    pos = 0
    try:
        for _ in range(2):
            i = x86mini.decode(code, pos, lin.c + pos)
            if i.mnem == 'endbr64':
                pos += i.length
                continue
            if i.mnem == 'jmp' and i.b[0] == 'rip':
                return img.slot(i.b[1])
            return None
    except x86mini.DecodeError:
        return None
    return None


def expected_addr(img, name):
    a = img.sym_addr(name)
    return None if a is None else img.addr(a)


NOTES = {}


def is_symbol(img, v, name, out, bits=64, allow_stub=True, via_slot=False):
    """Does value v denote the final value of symbol `name`? -> None if yes, else (problem,
    detail). via_slot: v was read from a memory word (the indirection is still there)."""
    info = SYMS.get(name, dict(cls='func', where='defs', vis='default'))
    pre = (out == 'shared' and info['vis'] == 'default' and info['cls'] != 'weak') or \
        info['where'] == 'dso'
    symref = term(('addr', name))
    if isinstance(v, Lin) and v.key(bits) == symref.key(bits):
        if info['vis'] in ('default',):
            return None
        return ('dynsym-ref', 'reference by name to non-exported symbol %s' % name)
    if pre:
        if allow_stub:
            s = _stub_slot(img, v)
            if s is not None:
                return is_symbol(img, s, name, out, 64, allow_stub=False, via_slot=True)
        if not via_slot:
            return ('direct-preemptible', 'instruction rewritten to bind preemptible symbol %s '
                    'at link time: %r' % (name, v))
        if info['where'] == 'dso':
            return ('value', 'slot for imported symbol %s holds %r' % (name, v))
        # The GOT / PLT indirection is still in place but its slot is bound to the local
        # definition: no instruction was rewritten, so the property does not speak about it.
        # The local value must still be right.
        NOTES['unrelaxed-local-binding'] = NOTES.get('unrelaxed-local-binding', 0) + 1
    cls = info['cls']
    if cls == 'ifunc':
        res = expected_addr(img, 'at_' + name)
        if res is None:
            return ('machinery', 'no at_%s symbol' % name)
        if isinstance(v, Special) and v.what[0] == 'ifunc':
            return None if v.what[1] == res.key() else \
                ('value', 'IRELATIVE resolver %r, expected %r' % (v.what[1], res))
        if allow_stub:
            s = _stub_slot(img, v)
            if s is not None:
                return is_symbol(img, s, name, out, 64, allow_stub=False, via_slot=True)
        return ('ifunc-direct', 'IFUNC %s used as %r (resolver itself is at %r)' % (name, v, res))
    if cls == 'abs':
        exp = Lin(info['value'])
    elif cls == 'weak':
        exp = Lin(0)
    else:
        exp = expected_addr(img, name)
        if exp is None:
            return ('machinery', 'symbol %s not in the output .symtab' % name)
    if isinstance(v, Lin):
        if v.key(bits) == exp.key(bits):
            return None
        if allow_stub:
            s = _stub_slot(img, v)
            if s is not None and is_symbol(img, s, name, out, 64, allow_stub=False,
                                           via_slot=True) is None:
                return None
        if v.t != exp.t:
            return ('bias', 'got %r, expected %r' % (v, exp))
        if bits == 64 and v.c == (x86mini.sext(exp.c, 32) & M64) and exp.c < 1 << 32:
            return ('sign-extended', 'got %r, expected %r' % (v, exp))
        return ('value', 'got %r, expected %r' % (v, exp))
    return ('value', 'got %r, expected %r' % (v, exp))


def expected_tls(img, name, out):
    """Acceptable linear forms for the ADDRESS of TLS variable `name`."""
    info = SYMS[name]
    acc = []
    if not preemptible(name, out):
        s = img.syms.get(name)
        if s is None or img.tls is None:
            return None
        acc.append(img.modbase().add(Lin(s.value)))
    if info['vis'] == 'default':
        acc.append(Lin(0, {'TP': 1, ('tpoff', name): 1}))
    return acc


def judge(img, site, symname, base):
    """-> (ok: bool, problem, detail, form). form describes what the linker left (for coverage)."""
    out = img.out
    addr = base + site.off
    code = img.read(addr, len(site.code))
    try:
        fx = run_site(img, code, addr, rbx_got=site.rbx_got,
                      tls=site.kind in ('tlsaddr', 'tlsdesc'))
    except Stop as st:
        return (False, st.problem, '%s; bytes %s' % (st.detail, code.hex()), 'stop')
    form = '+'.join(sorted(set(fx['forms']))) or 'reg-only'
    regs, flags, branch = fx['regs'], fx['flags'], fx['branch']
    desc = '%s -> %s' % (code.hex(), '; '.join(fx['insns']))

    def bad(problem, detail):
        return (False, problem, '%s [%s]' % (detail, desc), form)

    if site.kind == 'branch':
        if branch is None or regs:
            return bad('effect', 'expected a control transfer only')
        if branch[0] != site.mnem:
            return bad('effect', 'expected %s, found %s' % (site.mnem, branch[0]))
        r = is_symbol(img, branch[1], symname, out, via_slot='mem' in fx['forms'])
        return bad(*r) if r else (True, None, None, form)

    if site.kind in ('val', 'tpoff'):
        bits = site.opsize
        if branch is not None:
            return bad('effect', 'unexpected control transfer')
        want = set() if site.dst is None else {site.dst}
        if set(regs) != want:
            return bad('register', 'registers written %s, expected %s' % (
                sorted(x86mini.REG64[r] for r in regs), sorted(x86mini.REG64[r] for r in want)))
        a0 = init_reg(site.areg)
        if site.mnem in ('cmp', 'test'):
            if flags is None or flags[0] != site.mnem or flags[1] != bits:
                return bad('effect', 'expected %s%d, found %r' % (site.mnem, bits, flags))
            a, b = flags[2], flags[3]
            if isinstance(a, Lin) and a.key() == a0.key():
                x = b
            elif site.mnem == 'test' and isinstance(b, Lin) and b.key() == a0.key():
                x = a
            else:
                return bad('register', 'compared operands %r, %r; expected %%%s' % (
                    a, b, x86mini.REG64[site.areg]))
        else:
            v = regs[site.dst]
            vb = v.bits if isinstance(v, Lin) else v.what[2] if v.what[0] == 'alu' else bits
            if vb != bits:
                return bad('opsize', 'operand size %d, expected %d' % (vb, bits))
            if site.mnem == 'mov':
                x = v
            elif site.mnem == 'add' and isinstance(v, Lin):
                x = v.add(a0.neg(), bits)
            elif isinstance(v, Special) and v.what[0] == 'alu':
                _, mn, _, a, x = v.what
                if mn != site.mnem:
                    return bad('effect', 'expected %s, found %s' % (site.mnem, mn))
                if not (isinstance(a, Lin) and a.key() == a0.key()):
                    return bad('register', 'first operand %r, expected %%%s' % (
                        a, x86mini.REG64[site.areg]))
            else:
                return bad('effect', 'expected %s, found %r' % (site.mnem, v))
        if site.kind == 'val':
            r = is_symbol(img, x, symname, out, bits, via_slot='mem' in fx['forms'])
            return bad(*r) if r else (True, None, None, form)
        acc = expected_tls(img, symname, out)
        if acc is None:
            return bad('machinery', 'TLS symbol %s / PT_TLS missing' % symname)
        tp = term('TP').neg()
        if isinstance(x, Lin) and any(x.key(64) == e.add(tp).key(64) for e in acc):
            return (True, None, None, form)
        return bad('value', 'TP offset %r, expected one of %r' % (x, [e.add(tp) for e in acc]))

    # TLS address / descriptor sequences: the result register only.
    if branch is not None:
        return bad('effect', 'unexpected control transfer to %r' % (branch[1],))
    if site.dst not in regs:
        return bad('effect', 'result register %s not written' % x86mini.REG64[site.dst])
    v = regs[site.dst]
    acc = expected_tls(img, symname, out)
    if acc is None:
        return bad('machinery', 'TLS symbol %s / PT_TLS missing' % symname)
    if site.kind == 'tlsdesc':
        tp = term('TP').neg()
        acc = [e.add(tp) for e in acc]
    if isinstance(v, Lin) and v.bits == 64 and any(v.key(64) == e.key(64) for e in acc):
        return (True, None, None, form)
    return bad('value', 'result %r, expected one of %r' % (v, acc))


# ---------------------------------------------------------------------------------------------
# Linking

def link_argv(linker, out, relax, objs, outpath, dso, symname):
    a = []
    if out == 'static-pie':
        a += ['-static', '-pie'] + (['--no-dynamic-linker'] if linker == 'ld' else [])
    elif out == 'pie':
        a += ['-pie']
    elif out == 'shared':
        a += ['-shared']
    if not relax:
        a.append('--no-relax')
    a += ['-z', 'noexecstack'] if linker == 'ld' else []
    if SYMS[symname]['where'] == 'defsym':
        a.append('--defsym=%s=%#x' % (symname, SYMS[symname]['value']))
    a += list(objs)
    if out in ('pie', 'shared', 'dynexe'):
        a.append(dso)
    return a + ['-o', outpath]


def check_markers(img, symname):
    """The definition really is where .symtab says (ground truth for V)."""
    i = SYMS[symname]
    if i['cls'] in ('func', 'data') and i['where'] in ('local', 'defs'):
        a = img.sym_addr(symname)
        if a is None:
            return 'symbol %s missing from .symtab' % symname
        if img.read(a, 8) != marker(symname):
            return 'marker of %s not at %#x' % (symname, a)
    elif i['cls'] == 'ifunc':
        a = img.sym_addr('at_' + symname)
        if a is None or img.read(a, 8) != marker(symname):
            return 'marker of %s not at its at_ symbol' % symname
    elif i['cls'] == 'tls':
        s = img.syms.get(symname)
        if s is None or img.tls is None:
            return 'TLS symbol %s or PT_TLS missing' % symname
        if img.read(img.tls[0] + s.value, 8) != marker(symname):
            return 'marker of %s not at PT_TLS+%#x' % (symname, s.value)
    return None


def run_link(job):
    """One link + judgement of all its sites. job: dict(linker, sym, out, relax, thorough, dir,
    select (None | list of sids)). Picklable result."""
    linker, symname, out, relax = job['linker'], job['sym'], job['out'], job['relax']
    sites = [s for s in sites_for(symname, job['thorough']) if site_allowed(s, symname, out)]
    if job.get('select') is not None:
        sel = set(job['select'])
        sites = [s for s in sites if s.sid in sel]
    d = os.path.join(job['dir'], 'w%d' % os.getpid())
    os.makedirs(d, exist_ok=True)
    tag = hashlib.sha256(repr((symname, [s.sid for s in sites])).encode()).hexdigest()[:16]
    sobj = os.path.join(d, 's_%s.o' % tag)
    if not os.path.exists(sobj):
        with open(sobj, 'wb') as f:
            f.write(build_sites_obj(symname, sites))
    else:
        off = 0
        for s in sites:
            s.off = off
            off += len(s.code)
    outpath = os.path.join(d, 'out_%s_%s_%d_%s' % (tag, out, relax, linker))
    argv = link_argv(linker, out, relax, [sobj, job['defs']], outpath, job['dso'], symname)
    res = dict(job=job, n=len(sites), ok=0, failed=None, problems=[], forms={},
               argv=argv, notes={}, sids_ok=[])
    NOTES.clear()
    try:
        os.unlink(outpath)
    except OSError:
        pass
    if linker == 'wild':
        rc, msg = wildrun.server_link(argv, cwd=d)
    else:
        rc, so, se = vlib.run(['ld'] + argv, cwd=d)
        msg = (se or so).decode('utf-8', 'replace')
    if rc != 0:
        res['failed'] = (rc, msg[-1500:])
        res['groups'] = sorted({s.group() for s in sites})
        res['sids'] = [s.sid for s in sites]
        return res
    try:
        img = Image(outpath, out)
        base = img.sym_addr('_start')
        end = img.sym_addr('sites_end')
        if base is None or end is None or end - base != sum(len(s.code) for s in sites):
            res['machinery'] = '_start/sites_end do not bracket the sites (%r, %r)' % (base, end)
            return res
        m = check_markers(img, symname)
        if m:
            res['machinery'] = m
            return res
        for s in sites:
            ok, problem, detail, form = judge(img, s, symname, base)
            k = (s.fam, s.mnem, form)
            res['forms'][k] = res['forms'].get(k, 0) + 1
            if ok:
                res['ok'] += 1
                res['sids_ok'].append(s.sid)
            else:
                res['problems'].append((s.sid, s.fam, s.mnem, problem, detail))
    except (elfread.ElfError, struct.error) as ex:
        res['machinery'] = 'cannot read output: %r' % (ex,)
    finally:
        res['notes'] = dict(NOTES)
        try:
            os.unlink(outpath)
        except OSError:
            pass
    return res


LEVELS = [lambda sid: 'branch' if sid.split(':')[1] in ('call', 'jmp') else 'other',
          lambda sid: sid.split(':')[0],
          lambda sid: ':'.join(sid.split(':')[:2]),
          lambda sid: ':'.join(sid.split(':')[:3])]


def expand_failed(res, linker):
    """Jobs that split a failed link along the next level of the site-id hierarchy that separates
    its sites: control transfers / others, relocation family, family:mnemonic, and (wild only; the
    reference linker is a subprocess) family:mnemonic:prefix = the 8 ModRM.reg values of one
    encoding. A unit that still fails at the last level gets the verdict as a whole."""
    job, sids = res['job'], res['sids']
    lvl = job.get('level', 0)
    maxl = len(LEVELS) if linker == 'wild' else len(LEVELS) - 1
    while lvl < maxl:
        by = {}
        for sid in sids:
            by.setdefault(LEVELS[lvl](sid), []).append(sid)
        lvl += 1
        if len(by) > 1:
            return [dict(job, select=v, level=lvl) for v in by.values()]
    return []


def run_all(pool, jobs, linker):
    """Run jobs; split failed links until every site is in a successful link or in a failed
    smallest unit (marked final)."""
    results, todo = [], jobs
    while todo:
        nxt = []
        for r in pool.map(run_link, todo, chunksize=1):
            if r['failed']:
                more = expand_failed(r, linker)
                if more:
                    nxt += more
                else:
                    r['final'] = True
            results.append(r)
        todo = nxt
    return results


# ---------------------------------------------------------------------------------------------

def quick_symbol(symname):
    i = SYMS[symname]
    return i['where'] != 'defsym' or symname == 'dsym_2'


def plan(thorough):
    outs = OUTS if thorough else ['static', 'static-pie', 'pie', 'shared']
    jobs = []
    only = os.environ.get('C14_SYMS')          # debugging aid: restrict the symbols
    for symname in SYMS:
        if not thorough and not quick_symbol(symname) or only and symname not in only.split(','):
            continue
        for out in outs:
            if not applicable(symname, out):
                continue
            for relax in (True, False):
                jobs.append(dict(linker='wild', sym=symname, out=out, relax=relax))
                if SYMS[symname]['cls'] == 'tls':
                    # Which GOT slots a TLS symbol owns depends on which access models the link
                    # uses for it (initial-exec offset, general-dynamic pair, descriptor pair):
                    # every proper non-empty subset of the three models gets a link of its own.
                    for r in (1, 2):
                        for fams in itertools.combinations(TLS_MODEL_FAMS, r):
                            jobs.append(dict(linker='wild', sym=symname, out=out, relax=relax,
                                             fams=fams))
    return jobs, outs


LD_QUICK_ABS_PIC = ('absh_2', 'absd_2')
TLS_MODEL_FAMS = ('GOTTPOFF', 'TLSGD', 'GOTPC32_TLSDESC')


def ld_plan(thorough, outs):
    """Calibration links by GNU ld. thorough: everything wild links. quick: --relax only, and in
    position-independent outputs (where GNU ld refuses several forms against absolute symbols, so
    that every object has to be split) three of the absolute symbols."""
    jobs = []
    only = os.environ.get('C14_SYMS')
    for symname in SYMS:
        if not thorough and not quick_symbol(symname) or only and symname not in only.split(','):
            continue
        for out in outs:
            if not applicable(symname, out):
                continue
            if not thorough and SYMS[symname]['cls'] == 'abs' and out != 'static' and \
                    (symname not in LD_QUICK_ABS_PIC or out == 'static-pie'):
                continue
            for relax in ((True, False) if thorough else (True,)):
                jobs.append(dict(linker='ld', sym=symname, out=out, relax=relax))
    return jobs


APX_FAMS = ('CODE_4_GOTPCRELX', 'CODE_4_GOTTPOFF', 'CODE_6_GOTTPOFF')


def ld_calibratable(site):
    """GNU ld 2.40 does not know the APX relocation types. It also mis-rewrites a REX prefix with
    REX.B set in front of a RIP-relative operand (`41 8b 05` = mov x(%rip),%eax, which the CPU
    executes with REX.B ignored - checked natively - becomes `41 c7 c0` = mov $x,%r8d): those
    never-emitted encodings are judged for wild only."""
    if site.fam in APX_FAMS:
        return False
    if site.fam == 'REX_GOTPCRELX' and site.code[0] & 0xf1 == 0x41:
        return False
    return True


def strip_apx(job):
    sids = [s.sid for s in sites_for(job['sym'], job['thorough']) if ld_calibratable(s)]
    return dict(job, select=sids)


def kclass(vc, problem):
    """Value class as it appears in a violation key: the magnitude of an absolute value only
    where it is what matters."""
    if problem in ('sign-extended', 'value'):
        return vc
    for m in ('abs<2^31', 'abs-in-[2^31,2^32)', 'abs>=2^32'):
        if vc.startswith(m):
            return 'abs' if problem == 'link-error' else 'abs' + vc[len(m):]
    return vc


def main():
    import multiprocessing
    chk = vlib.Check("C14", "exploration")
    if not chk.args.no_build:
        vlib.build("wild")
    # The relaxation code runs per relocation and does not depend on the thread count; one rayon
    # thread per server keeps 16 servers from fighting over the cores.
    os.environ["RAYON_NUM_THREADS"] = "1"
    thorough = chk.thorough
    t0 = time.time()
    with vlib.scratch("c14") as base:
        defs = os.path.join(base, 'defs.o')
        with open(defs, 'wb') as f:
            f.write(build_defs())
        dsoo = os.path.join(base, 'dso.o')
        with open(dsoo, 'wb') as f:
            f.write(build_dso_obj())
        dso = os.path.join(base, 'libc14dso.so')
        r = subprocess.run(['ld', '-shared', '-soname', 'libc14dso.so', '-o', dso, dsoo],
                           capture_output=True)
        if r.returncode != 0:
            chk.machinery('cannot build the DSO fixture with GNU ld: %s' % r.stderr.decode())
        common = dict(thorough=thorough, dir=base, defs=defs, dso=dso, select=None)

        if chk.args.replay:
            return replay(chk, common)

        wjobs, outs = plan(thorough)
        wjobs = [dict(j, **common) for j in wjobs]
        for j in wjobs:
            if j.get('fams'):
                j['select'] = [x.sid for x in sites_for(j['sym'], thorough) if x.fam in j['fams']]
        if chk.seed:
            import random
            random.Random(chk.seed).shuffle(wjobs)
        ljobs = [strip_apx(dict(j, **common)) for j in ld_plan(thorough, outs)]
        with multiprocessing.Pool(vlib.NPROC) as pool:
            results = run_all(pool, wjobs, 'wild')
            t_wild = time.time() - t0
            lresults = run_all(pool, ljobs, 'ld')
            t_ld = time.time() - t0 - t_wild

            # ------------ GNU ld calibration: its output must pass the oracle
            ld_eval = ld_ok = ld_rejected = 0
            ld_bad = []
            ld_reject_classes = {}
            ld_accepts, ld_rejects = {}, {}
            for res in lresults:
                j = res['job']
                if res.get('machinery'):
                    chk.machinery('GNU ld calibration: %s (%s %s)' % (res['machinery'], j['sym'],
                                                                      j['out']))
                if res['failed']:
                    if res.get('final'):
                        ld_rejected += res['n']
                        ld_rejects.setdefault((j['sym'], j['out']), set()).update(res['sids'])
                        for sid in res['sids']:
                            k = '%s:%s' % (':'.join(sid.split(':')[:2]),
                                           kclass(vclass(j['sym'], j['out']), ''))
                            ld_reject_classes[k] = ld_reject_classes.get(k, 0) + 1
                    continue
                ld_eval += res['n']
                ld_ok += res['ok']
                ld_accepts.setdefault((j['sym'], j['out']), set()).update(res['sids_ok'])
                for sid, fam, mn, problem, detail in res['problems']:
                    ld_bad.append('%s:%s:%s:%s %s/%s relax=%s %s: %s' % (
                        fam, mn, vclass(j['sym'], j['out']), problem, j['sym'], j['out'],
                        j['relax'], sid, detail))
            if ld_bad:
                cls = {}
                for b in ld_bad:
                    w = b.split(' ')
                    k = w[0] + ' ' + ':'.join(w[3].split(':')[2:3])
                    cls.setdefault(k, []).append(b)
                for k, v in sorted(cls.items()):
                    print('CALIBRATION: %d x %s e.g. %s' % (len(v), k, v[0][:400]), file=sys.stderr)
                chk.machinery('the oracle rejects %d site(s) of GNU ld output (first: %s)' % (
                    len(ld_bad), ld_bad[0][:300]))

            # ------------ wild verdicts
            evaluations = n_ok = n_link_err = n_err_noref = n_err_both = 0
            formset, forms_left, notes = set(), {}, {}
            seen_keys = {}
            link_err_classes = {}
            samples = []
            for res in results:
                j = res['job']
                vc = vclass(j['sym'], j['out'])
                if res.get('machinery'):
                    chk.machinery('%s (%s %s relax=%s)' % (res['machinery'], j['sym'], j['out'],
                                                           j['relax']))
                if res['failed']:
                    if not res.get('final'):
                        continue
                    # A smallest unit (the ModRM.reg variants of one encoding) that wild rejects.
                    rc, msg = res['failed']
                    fam, mn = res['sids'][0].split(':')[:2]
                    evaluations += res['n']
                    if rc != 1:
                        key = '%s:%s:%s:crash' % (fam, mn, kclass(vc, 'crash'))
                        seen_keys.setdefault(key, (res, res['sids'][0], 'wild exit %r: %s' % (
                            rc, msg[-300:])))
                        continue
                    unit = set(res['sids'])
                    if unit <= ld_accepts.get((j['sym'], j['out']), set()):
                        n_link_err += res['n']
                        key = '%s:%s:%s:link-error' % (fam, mn, kclass(vc, 'link-error'))
                        link_err_classes[key] = link_err_classes.get(key, 0) + res['n']
                        seen_keys.setdefault(key, (res, res['sids'][0], msg))
                    elif unit & ld_rejects.get((j['sym'], j['out']), set()):
                        n_err_both += res['n']
                    else:
                        n_err_noref += res['n']
                    continue
                evaluations += res['n']
                n_ok += res['ok']
                for k, n in res['notes'].items():
                    notes[k] = notes.get(k, 0) + n
                for (fam, mn, form), n in res['forms'].items():
                    formset.add((fam, mn, vc, form))
                    forms_left[form] = forms_left.get(form, 0) + n
                for sid, fam, mn, problem, detail in res['problems']:
                    if problem == 'machinery':
                        chk.machinery('%s %s: %s' % (j['sym'], sid, detail))
                    key = '%s:%s:%s:%s' % (fam, mn, kclass(vc, problem), problem)
                    seen_keys.setdefault(key, (res, sid, detail))
                if res['n'] > 30 and len(samples) < 5 and \
                        j['sym'] in ('absh_2', 'tl_hid', 'def_f', 'wk_undef') and j['relax']:
                    s0 = [s for s in sites_for(j['sym'], thorough)][len(samples) * 7]
                    samples.append(dict(symbol=j['sym'], output=j['out'], relax=j['relax'],
                                        sites_in_link=res['n'], sites_ok=res['ok'],
                                        example_site=s0.sid, original_bytes=s0.code.hex(),
                                        relocations=[(o, RNAME.get(t, t), n, a)
                                                     for o, t, n, a in s0.relocs],
                                        argv=[os.path.basename(a) for a in res['argv']]))
            # Confirm the first instance of every key with the site alone in its object.
            confirm = [dict(res['job'], select=[sid], key=key, level=99)
                       for key, (res, sid, detail) in sorted(seen_keys.items())]
            cres = pool.map(run_link, confirm, chunksize=1) if confirm else []
        for cj, cr in zip(confirm, cres):
            key = cj['key']
            res, sid, detail = seen_keys[key]
            j = res['job']
            vc = vclass(j['sym'], j['out'])
            site = [s for s in sites_for(j['sym'], thorough) if s.sid == sid][0]
            if key.endswith(':link-error') or key.endswith(':crash'):
                iso = bool(cr['failed'])
                what = 'wild rejects an input that GNU ld links (and whose GNU ld output passes ' \
                       'the oracle): %s' % ' '.join(str(detail)[-500:].split())
            else:
                iso = any('%s:%s:%s:%s' % (f, m, kclass(vc, pr), pr) == key
                          for _, f, m, pr, _ in cr['problems'])
                what = detail
            rep = dict(sym=j['sym'], out=j['out'], relax=j['relax'], thorough=thorough, sid=sid,
                       original_bytes=site.code.hex(),
                       relocs=[(o, RNAME.get(t, t), n, a) for o, t, n, a in site.relocs],
                       argv=cr['argv'], reproduced_in_isolation=iso)
            if not iso:
                what = '(NOT reproduced with the site alone in its object) ' + what
            chk.violation(key, '%s %s relax=%s site %s: %s' % (j['sym'], j['out'], j['relax'],
                                                               sid, what), rep)
        nsyms = len([s for s in SYMS if thorough or quick_symbol(s)])
        chk.coverage = {
            "evaluations": evaluations,
            "distinct_nontrivial": len(formset),
            "rule": "one evaluation = one site (instruction form x register x symbol) in one wild "
                    "link (output kind x relax); distinct_nontrivial = distinct (relocation "
                    "family, mnemonic, value class, form the linker left: imm / lea-rip / rel / "
                    "mem (unrelaxed, slot checked) / TLS sequence shape) tuples observed",
            "samples": samples,
            "exhaustive": True,
            "sites_per_output_and_relax": sum(len(sites_for(s, thorough)) for s in SYMS
                                              if thorough or quick_symbol(s)),
            "symbols": nsyms, "outputs": outs,
            "wild_links": len(results), "wild_sites_ok": n_ok,
            "wild_link_error_sites": n_link_err,
            "wild_link_error_sites_also_rejected_by_ld": n_err_both,
            "wild_link_error_sites_without_ld_reference": n_err_noref,
            "wild_link_error_classes": link_err_classes,
            "forms_left_by_wild": forms_left,
            "outside_property_counts": notes,
            "ld_calibration_links": len(lresults), "ld_sites_judged": ld_eval,
            "ld_sites_ok": ld_ok, "ld_sites_in_rejected_links": ld_rejected,
            "ld_reject_classes": ld_reject_classes,
            "violation_keys": len(seen_keys),
            "wall_wild_s": round(t_wild, 1), "wall_ld_s": round(t_ld, 1),
        }
    chk.assumptions = [
        "REX.B / REX.X are not decoded for a RIP-relative operand (Intel SDM 2.2.1.6)",
        "APX (REX2 / EVEX map 4) forms are judged by a decoder written from the APX specification "
        "only: GNU ld 2.40 and this CPU cannot cross-check them",
        "flags differences between `add $imm,%r` and `lea imm(%r),%r` are ignored (the psABI "
        "sanctions that rewrite)",
        "symbol addresses come from the output .symtab, cross-checked against a marker stored at "
        "every definition",
        "a link error is reported only for inputs GNU ld links and whose GNU ld output passes the "
        "same oracle (quick tier: for the symbols in the GNU ld subset)",
    ]
    chk.finish()


def replay(chk, common):
    with open(chk.args.replay) as f:
        rp = json.load(f)['replay']
    os.environ["RAYON_NUM_THREADS"] = "1"
    job = dict(common, linker='wild', sym=rp['sym'], out=rp['out'], relax=rp['relax'],
               thorough=rp.get('thorough', True), select=[rp['sid']])
    res = run_link(job)
    print('wild argv:', ' '.join(res['argv']))
    vc = vclass(rp['sym'], rp['out'])
    if res.get('machinery'):
        chk.machinery(res['machinery'])
    # The same single-site object through the reference linker (shows whether the input is one
    # GNU ld accepts, and what a correct output looks like to the oracle).
    lres = run_link(dict(job, linker='ld'))
    print('GNU ld: %s' % ('rejects: ' + ' '.join(lres['failed'][1].split())[-300:]
                           if lres['failed'] else 'links; oracle problems: %r' % (lres['problems'],)))
    if res['failed']:
        fam, mn = rp['sid'].split(':')[:2]
        if not lres['failed'] and not lres['problems']:
            chk.violation('%s:%s:%s:link-error' % (fam, mn, kclass(vc, 'link-error')),
                          ' '.join(res['failed'][1][-400:].split()), rp)
        else:
            print('wild rejects the input; no GNU ld reference for it')
    for sid, fam, mn, problem, detail in res['problems']:
        chk.violation('%s:%s:%s:%s' % (fam, mn, kclass(vc, problem), problem), detail, rp)
    if not res['failed'] and not res['problems']:
        print('wild: site passes the oracle')
    chk.coverage = {"evaluations": 2, "distinct_nontrivial": 2,
                    "rule": "replay of one recorded site: the site alone in its object, linked "
                            "by wild and by GNU ld, both outputs judged",
                    "samples": [rp], "exhaustive": False}
    chk.finish()


if __name__ == "__main__":
    main()
