#!/usr/bin/env python3
"""C15 - Linker-script input-section patterns match as in GNU ld.

Bounded-exhaustive, end to end: one relocatable object (raw ELF writer, lib/minielf.py) holds one
4-byte SHF_ALLOC section per *name* of the name universe (all strings over {. t x *} up to a
length bound, plus `.tx.`-prefixed names); every *pattern* of the pattern universe (all token
strings over {. t x * ? [tx] [!t] [^.] \\*} up to a length bound, plus the same strings behind the
literal prefix `.tx.`) is put into a real linker script

    SECTIONS { .out1 : { *(PATTERN) } .rest : { <sink> } }

which the real wild binary links (in-process server). Which names ended up in `.out1` is read from
the output file's section contents. Families: single rule; two rules `.out1 : {*(P1)} .out2 :
{*(P2)}` for all overlapping ordered pairs of a smaller pattern set; `KEEP(*(P))` under
--gc-sections with every section unreferenced; file patterns `a*.o(P)`, `[b]*(P)`, `a1.o(P)`,
`?1.o(P)` with two objects.

References: (a) libc fnmatch(pattern, name, 0) through ctypes, applied rule by rule, first match
wins; (b) GNU ld 2.40 on the same member, for one member per (family x pattern class x wild
outcome) cell plus every member that is written out as a violation replay. GNU ld is the referee:
a (member, name) pair on which GNU ld and fnmatch disagree is excluded and counted; a member of a
pattern class in which GNU ld contradicted fnmatch anywhere is only decided if GNU ld ran on it.
"""
import ctypes
import itertools
import json
import os
import struct
import sys
import time

sys.path.insert(0, os.path.join(os.path.dirname(os.path.abspath(__file__)), "..", "lib"))
import vlib
import wildrun
import minielf
import ldref

TOKENS = [".", "t", "x", "*", "?", "[tx]", "[!t]", "[^.]", "\\*"]
KIND = {".": "L", "t": "L", "x": "L", "*": "S", "?": "Q", "[tx]": "C", "[!t]": "N", "[^.]": "X",
        "\\*": "E"}
KIND_NAME = {"S": "star", "Q": "question", "C": "class", "N": "negclass-bang",
             "X": "negclass-caret", "E": "escape", "L": "literal"}
NAME_ALPHA = ".tx*"
PREFIX = (".", "t", "x", ".")
FILES = ["a1.o", "b1.o"]
# `_start` lives in a 4-byte section `.start` that a pattern may legitimately match (`*`, `.*`,
# `??????`): its content reads as an id with file number 0xFF and is skipped.
START_CODE = b"\xc3\xcc\xcc\xff"
FILE_PATTERNS = ["a*.o", "[b]*", "a1.o", "?1.o"]

TIERS = {
    # L: max name length; PL: max tail length of `.tx.`-prefixed names; T: max pattern tokens;
    # PT: max tokens behind the prefix; Q: (max tokens, max prefixed tokens) of the pair set;
    # K: same for the KEEP and file families; ld_class: granularity of the GNU ld subset;
    # ld_cap: maximum number of GNU ld links of the main round (a cap that is hit is reported).
    "quick": dict(L=5, PL=3, T=4, PT=3, Q=(1, 1), K=(2, 2), ld_cap=1800, validate=40,
                  ld_class={"single": "set", "pair": "set", "keep": "set", "file": "set"}),
    # thin5: of the 59,049 five-token strings only those with at most ONE non-literal token are
    # kept (2,673); every shorter string and every prefixed string (<= 4 tokens behind `.tx.`) is
    # kept. Measured cost forced this: a wild link over the 5,781-name object costs ~4x the quick
    # tier's, a GNU ld link ~5x.
    "thorough": dict(L=6, PL=4, T=5, PT=4, Q=(2, 1), K=(2, 2), ld_cap=6000, validate=60, thin5=1,
                     ld_class={"single": "set", "pair": "kinds", "keep": "set", "file": "set"}),
}

# --------------------------------------------------------------------------------------------
# universes


def build_names(L, PL):
    names = [b""]
    for n in range(1, L + 1):
        names += ["".join(t).encode() for t in itertools.product(NAME_ALPHA, repeat=n)]
    seen = set(names)
    for n in range(0, PL + 1):
        for t in itertools.product(NAME_ALPHA, repeat=n):
            nm = ("".join(PREFIX) + "".join(t)).encode()
            if nm not in seen:
                seen.add(nm)
                names.append(nm)
    return names


def token_strings(lo, hi):
    for n in range(lo, hi + 1):
        yield from itertools.product(TOKENS, repeat=n)


def pattern_set(T, PT, thin5=None):
    """All token strings of length 1..T, and PREFIX + all token strings of length 0..PT; as a list
    of token tuples without duplicates, in enumeration order. thin5=k drops the 5-token strings
    with more than k non-literal tokens."""
    out, seen = [], set()
    for toks in itertools.chain(token_strings(1, T), (PREFIX + t for t in token_strings(0, PT))):
        if thin5 is not None and len(toks) == 5 and toks[:4] != PREFIX and \
                sum(1 for x in toks if KIND[x] != "L") > thin5:
            continue
        if toks not in seen:
            seen.add(toks)
            out.append(toks)
    return out


def text(toks):
    return "".join(toks)


def sig(toks):
    return "".join(KIND[t] for t in toks)


def window_class(toks):
    """Kinds of the tokens that start within the first four pattern bytes, then the set of kinds
    of the remaining tokens, then the number of tokens."""
    pos, head, tail = 0, [], set()
    for t in toks:
        if pos < 4:
            head.append(KIND[t])
        else:
            tail.add(KIND[t])
        pos += len(t)
    return "".join(head) + "/" + "".join(sorted(tail)) + f"/{len(toks)}"


def set_class(toks):
    """Kind of the first token, set of kinds, number of tokens, and where escapes sit relative to
    the wildcards (GNU ld 2.40 compares the literal head and tail of a pattern bytewise and hands
    only the middle to fnmatch, so an escape means different things in the three places)."""
    ks = [KIND[t] for t in toks]
    wild = [i for i, k in enumerate(ks) if k not in "LE"]
    esc = set()
    for i, k in enumerate(ks):
        if k == "E":
            esc.add("only" if not wild else "pre" if i < wild[0] else
                    "post" if i > wild[-1] else "mid")
    return ks[0] + "/" + "".join(sorted(set(ks))) + f"/{len(toks)}/" + "+".join(sorted(esc))


def pclass(toks, mode):
    if mode == "fine" or (mode == "fine4" and len(toks) <= 4):
        return sig(toks)
    if mode == "set":
        return "s:" + set_class(toks)
    if mode == "kinds":
        c = set_class(toks).split("/")
        return "k:" + c[1] + "/" + c[3] + ("/short" if len(text(toks)) < 4 else "")
    return "w:" + window_class(toks)


def wild_matcher_kind(pat):
    """What libwild/src/glob_match.rs:analyze_glob_pattern makes of the pattern (used only to
    *name* violation keys, never for a verdict)."""
    if not any(c in pat for c in "*?\\[]"):
        return "exact"
    kind, i = "exact", 0
    while i < len(pat):
        c = pat[i]
        if c == "\\":
            if kind == "exact":
                kind = "escaped-exact"
            i += 1
        elif c == "*":
            return "glob"
        elif c in "[]?":
            kind = "glob"
        i += 1
    return kind


def effective_prefix_len(pat):
    k = wild_matcher_kind(pat)
    if k == "escaped-exact":
        n, i = 0, 0
        while i < len(pat):
            if pat[i] == "\\" and i + 1 < len(pat):
                i += 1
            n += 1
            i += 1
        return n
    return len(pat)


# --------------------------------------------------------------------------------------------
# the model: libc fnmatch

_libc = ctypes.CDLL(None)
_fnmatch = _libc.fnmatch
_fnmatch.argtypes = [ctypes.c_char_p, ctypes.c_char_p, ctypes.c_int]
_fnmatch.restype = ctypes.c_int

G = {}          # per-run globals, set before the pools are forked
_MM = {}


def matchmask(pat):
    """Bit i set <=> fnmatch(pat, NAMES[i], 0) == 0."""
    m = _MM.get(pat)
    if m is None:
        p = pat.encode()
        m = 0
        fn = _fnmatch
        for i, nm in enumerate(G["names"]):
            if fn(p, nm, 0) == 0:
                m |= 1 << i
        if len(_MM) > 50000:
            _MM.clear()
        _MM[pat] = m
    return m


def file_matches(fp, fname):
    return _fnmatch(fp.encode(), fname.encode(), 0) == 0


def member_files(m):
    return FILES if m["fam"] == "file" else FILES[:1]


def model(m):
    """Expected {output section: bitmask over (file, name)}: rule by rule, first match wins."""
    n = len(G["names"])
    files = member_files(m)
    taken, out = 0, {}
    for i, pat in enumerate(m["pats"]):
        mm = matchmask(pat)
        full = 0
        for f, fname in enumerate(files):
            if file_matches(m["fp"], fname):
                full |= mm << (f * n)
        out[f".out{i + 1}"] = full & ~taken
        taken |= full
    return out


# --------------------------------------------------------------------------------------------
# scripts, objects, linking


def esc_exact(name):
    return name.decode().replace("*", "\\*")


def wild_sink(names):
    """A catch-all wild can digest: every name of at least four bytes as an exact (escaped)
    pattern. (`*(*)` panics in wild - see the findings - and thousands of orphan output sections
    cost wild ~0.5 s per link.)"""
    return "*(" + " ".join(esc_exact(n) for n in names if len(n) >= 4) + ")"


LD_SINK = "*(*)"


def descr(fp, pat, keep):
    s = f"{fp}({pat})"
    return f"KEEP({s})" if keep else s


def script_text(m, sink):
    parts = [f".out{i + 1} : {{ {descr(m['fp'], p, m['keep'])} }}" for i, p in enumerate(m["pats"])]
    return "SECTIONS { " + " ".join(parts) + " .rest : { " + sink + " } }\n"


def write_objects(base, names):
    for f, fname in enumerate(FILES):
        secs = [(nm, struct.pack("<I", (f << 24) | (i + 1))) for i, nm in enumerate(names)]
        data = minielf.write_object(secs, start_in=b".start" if f == 0 else None,
                                    start_code=START_CODE)
        with open(os.path.join(base, fname), "wb") as fh:
            fh.write(data)


def read_out(path, n, nfiles):
    """{'.out1': mask, '.out2': mask} from an output file, or a string describing garbage."""
    try:
        with open(path, "rb") as fh:
            data = fh.read()
        secs = minielf.read_sections(data)
    except (OSError, ValueError, struct.error, IndexError) as ex:
        return f"unreadable output: {ex}"
    out = {}
    for nm, _typ, _flg, content, _addr in secs:
        if nm in (b".out1", b".out2"):
            if len(content) % 4:
                return f"{nm.decode()} has size {len(content)}"
            mask = 0
            for (v,) in struct.iter_unpack("<I", content):
                f, i = v >> 24, (v & 0xFFFFFF) - 1
                if v == 0xFFCCCCC3:          # START_CODE: the `.start` section
                    continue
                if f >= nfiles or not 0 <= i < n:
                    return f"{nm.decode()} holds unknown id {v:#x}"
                bit = 1 << (f * n + i)
                if mask & bit or any(o & bit for o in out.values()):
                    return f"{nm.decode()} holds id {v:#x} twice"
                mask |= bit
            out[nm.decode()] = out.get(nm.decode(), 0) | mask
    return out


def link_argv(m, script, out):
    return ["--gc-sections" if m["gc"] else "--no-gc-sections", "-T", script, *member_files(m),
            "-o", out]


def wild_job(idx):
    m = G["members"][idx]
    d = ldref.workdir(G["base"])
    sp, out = os.path.join(d, "s.ld"), os.path.join(d, "w.out")
    with open(sp, "w") as fh:
        fh.write(script_text(m, G["wsink"]))
    try:
        os.unlink(out)
    except OSError:
        pass
    rc, msg = ldref.wild_link(link_argv(m, sp, out), G["base"])
    got = read_out(out, len(G["names"]), len(member_files(m))) if rc == 0 else {}
    return idx, rc, msg[:300], got, model(m)


def ld_job(job):
    idx, sinkname = job
    m = G["members"][idx]
    d = ldref.workdir(G["base"])
    sp, out = os.path.join(d, "l.ld"), os.path.join(d, "l.out")
    with open(sp, "w") as fh:
        fh.write(script_text(m, G["wsink"] if sinkname == "wild" else LD_SINK))
    try:
        os.unlink(out)
    except OSError:
        pass
    rc, err = ldref.gnu_ld(link_argv(m, sp, out), G["base"])
    got = read_out(out, len(G["names"]), len(member_files(m))) if rc == 0 else {}
    return idx, sinkname, rc, err[:300], got


# --------------------------------------------------------------------------------------------
# members


def make_members(t, names):
    members = []

    def add(fam, toks_list, fp="*", keep=False, gc=False):
        members.append(dict(fam=fam, toks=[tuple(t) for t in toks_list],
                            pats=[text(t) for t in toks_list], fp=fp, keep=keep, gc=gc))

    singles = pattern_set(t["T"], t["PT"], t.get("thin5"))
    for toks in singles:
        add("single", [toks])
    G["names"] = names
    qset = pattern_set(*t["Q"])
    for a in qset:
        ma = matchmask(text(a))
        for b in qset:
            if a != b and ma & matchmask(text(b)):
                add("pair", [a, b])
    kset = pattern_set(*t["K"])
    for toks in kset:
        add("keep", [toks], keep=True, gc=True)
    for fp in FILE_PATTERNS:
        for toks in kset:
            add("file", [toks], fp=fp)
    return members


def cell_class(m, modes):
    return (m["fam"], m["fp"], tuple(pclass(t, modes[m["fam"]]) for t in m["toks"]))


# --------------------------------------------------------------------------------------------
# verdicts


def pattern_cause(pat, toks, missing, extra):
    """A structural cause class for a wrong match set of one pattern, or None."""
    kind = wild_matcher_kind(pat)
    if kind != "glob":
        return None
    pos = 0
    for tk in toks:
        if pos >= 4:
            break
        if KIND[tk] != "L":
            if extra == 0:
                return f"nomatch:wildcard-in-first-4-bytes:{KIND_NAME[KIND[tk]]}"
            return None
        pos += len(tk)
    if "\\" in pat and extra == 0:
        return "nomatch:escape-in-glob-pattern"
    return None


def verdict(m, rc, msg, got, exp, decided):
    """Returns (key, what) for a violation, or None. `decided` is the mask of (file, name) bits
    on which the reference is trusted (all out sections)."""
    pats = m["pats"]
    if rc == 101:
        if "Prefixes of length less than 4" in msg:
            short = [p for p in pats if effective_prefix_len(p) < 4]
            kind = wild_matcher_kind(short[0]) if short else "unexplained"
            return (f"panic:prefix-shorter-than-4:{kind}",
                    f"wild panics ({msg}) on script with pattern(s) {pats}")
        return (f"panic:other:{msg[:80]}", f"wild panics ({msg}) on pattern(s) {pats}")
    if rc == 1:
        if "Invalid Glob Pattern" in msg and any("**" in p for p in pats):
            return ("reject:consecutive-stars",
                    f"wild rejects pattern(s) {pats} with '{msg.strip()}'; GNU ld accepts them")
        return (f"reject:other:{msg.strip()[:60]}", f"wild rejects pattern(s) {pats}: {msg.strip()}")
    if rc != 0:
        return (f"crash:rc={rc}", f"wild ended with {rc} on pattern(s) {pats}: {msg}")
    if isinstance(got, str):
        return ("output:garbled", f"{got} for pattern(s) {pats}")
    for i, pat in enumerate(pats):
        sec = f".out{i + 1}"
        e, o = exp.get(sec, 0), got.get(sec, 0)
        missing, extra = e & ~o & decided, o & ~e & decided
        if not missing and not extra:
            continue
        direction = "missing" if not extra else ("extra" if not missing else "missing+extra")
        what = (f"{sec} of `{script_text(m, '...').strip()}`"
                f"{' under --gc-sections' if m['gc'] else ''}: {bin(missing).count('1')} "
                f"section(s) the reference places there are absent, {bin(extra).count('1')} "
                f"are there that the reference places elsewhere")
        cause = pattern_cause(pat, m["toks"][i], missing, extra)
        if cause:
            return cause, what
        if m["fam"] == "pair" and i == 0 and missing and not extra and \
                missing & got.get(".out2", 0) == missing:
            return (f"order:second-rule-took-sections-of-first:{sig(m['toks'][0])}:"
                    f"{sig(m['toks'][1])}", what)
        fam = m["fam"] + (f":{m['fp']}" if m["fam"] == "file" else "")
        return f"mismatch:{fam}:{sec}:{sig(m['toks'][i])}:{direction}", what
    return None


def names_of(mask, names, limit=40):
    n, out = len(names), []
    i = 0
    while mask and len(out) < limit:
        if mask & 1:
            out.append(f"{FILES[i // n]}:{names[i % n].decode()!r}" if i >= n
                       else repr(names[i % n].decode()))
        mask >>= 1
        i += 1
    return out


# --------------------------------------------------------------------------------------------
# replay


def replay(path):
    with open(path) as fh:
        rep = json.load(fh)["replay"]
    names = build_names(rep["names_spec"]["L"], rep["names_spec"]["PL"])
    G["names"] = names
    m = rep["member"]
    m["toks"] = [tuple(t) for t in m["toks"]]
    with vlib.scratch("c15r") as base:
        write_objects(base, names)
        sp = os.path.join(base, "s.ld")
        with open(sp, "w") as fh:
            fh.write(rep["script"])
        argv = link_argv(m, "s.ld", "w.out")
        rc, _o, err = wildrun.link_subprocess(argv, cwd=base)
        err = err.decode("utf-8", "replace")
        got = read_out(os.path.join(base, "w.out"), len(names), len(member_files(m))) \
            if rc == 0 else {}
        lrc, lerr = ldref.gnu_ld(link_argv(m, "s.ld", "l.out"), base)
        lgot = read_out(os.path.join(base, "l.out"), len(names), len(member_files(m))) \
            if lrc == 0 else {}
        exp = model(m)
        print(f"script: {rep['script'][:200].strip()}{'...' if len(rep['script']) > 200 else ''}")
        print(f"argv:   {' '.join(argv)}   (objects regenerated from names_spec)")
        print(f"wild:   rc={rc} {err.strip()[:300]}")
        print(f"GNU ld: rc={lrc} {lerr.strip()[:300]}")
        bad = False
        for sec in sorted(set(exp) | (set(got) if isinstance(got, dict) else set())):
            e = exp.get(sec, 0)
            w = got.get(sec, 0) if isinstance(got, dict) else None
            g = lgot.get(sec, 0) if isinstance(lgot, dict) else None
            print(f"{sec}: fnmatch model {bin(e).count('1')} sections {names_of(e, names, 12)}")
            print(f"{sec}: GNU ld        {'-' if g is None else bin(g).count('1')} sections "
                  f"{'' if g is None else names_of(g, names, 12)}")
            print(f"{sec}: wild          {'-' if w is None else bin(w).count('1')} sections "
                  f"{'' if w is None else names_of(w, names, 12)}")
            if lrc == 0 and (w is None or w != g):
                bad = True
        if lrc == 0 and rc != 0:
            bad = True
        print("REPRODUCED: wild differs from GNU ld" if bad else "not reproduced")
        return 1 if bad else 0


# --------------------------------------------------------------------------------------------


def main():
    chk = vlib.Check("C15", "exploration")
    if chk.args.replay:
        sys.exit(replay(chk.args.replay))
    if not chk.args.no_build:
        vlib.build("wild")
    t = TIERS[chk.tier]
    names = build_names(t["L"], t["PL"])
    n = len(names)
    G["names"] = names
    G["wsink"] = wild_sink(names)
    members = make_members(t, names)
    G["members"] = members
    timing = {}
    with vlib.scratch("c15") as base:
        G["base"] = base
        write_objects(base, names)

        # ---- phase 1: wild + model on every member
        t0 = time.time()
        res = wildrun.pmap(wild_job, range(len(members)), chunksize=16)
        timing["wild_s"] = round(time.time() - t0, 1)
        print(f"c15: {len(members)} members x {n} names; wild phase {timing['wild_s']}s",
              file=sys.stderr)
        W = {idx: (rc, msg, got, exp) for idx, rc, msg, got, exp in res}
        full = {i: (1 << (n * len(member_files(m)))) - 1 for i, m in enumerate(members)}

        def raw_key(i):
            rc, msg, got, exp = W[i]
            v = verdict(members[i], rc, msg, got, exp, full[i])
            return v[0] if v else "ok"

        rawkeys = [raw_key(i) for i in range(len(members))]

        # ---- phase 2: GNU ld on one member per (family x pattern class x wild outcome) cell
        cells = {}
        for i, m in enumerate(members):
            cells.setdefault((cell_class(m, t["ld_class"]), rawkeys[i]), i)
        chosen = sorted(cells.values())
        capped = len(chosen) > t["ld_cap"]
        if capped:
            chosen = chosen[:t["ld_cap"]]
        LD = {}

        def run_ld(jobs):
            for idx, sinkname, rc, err, got in vlib.pmap(ld_job, jobs, chunksize=4):
                if rc == "timeout":
                    chk.machinery(f"GNU ld timed out on {members[idx]['pats']}")
                LD[(idx, sinkname)] = (rc, err, got)

        t0 = time.time()
        run_ld([(i, "ld") for i in chosen])
        # the sink must not matter to GNU ld's .out1/.out2: validated on a spread subset
        step = max(1, len(chosen) // t["validate"])
        vsub = chosen[::step]
        run_ld([(i, "wild") for i in vsub])
        timing["gnu_ld_s"] = round(time.time() - t0, 1)
        print(f"c15: GNU ld on {len(chosen)} of {len(cells)} cells (+{len(vsub)} sink checks) "
              f"{timing['gnu_ld_s']}s", file=sys.stderr)
        for i in vsub:
            a, b = LD[(i, "ld")], LD[(i, "wild")]
            if (a[0] == 0) != (b[0] == 0) or a[2] != b[2]:
                chk.machinery(f"GNU ld's .out1/.out2 depend on the sink for {members[i]['pats']} "
                              f"(assumption behind the two sinks is false): {a[:2]} vs {b[:2]}")

        # ---- phase 3: verdicts
        def decided_mask(i, ldres):
            """bits on which GNU ld placed the section exactly where the fnmatch model does"""
            rc, _err, got = ldres
            if rc != 0 or isinstance(got, str):
                return 0
            exp = W[i][3]
            d = full[i]
            for sec in set(exp) | set(got):
                d &= ~(exp.get(sec, 0) ^ got.get(sec, 0))
            return d

        def judge():
            # classes in which GNU ld contradicted fnmatch on some name / rejected some script
            divergent, rejecting, covered = set(), set(), set()
            for (i, sinkname), r in LD.items():
                covered.add(cell_class(members[i], t["ld_class"]))
                if r[0] != 0:
                    rejecting.add(cell_class(members[i], t["ld_class"]))
                elif decided_mask(i, r) != full[i]:
                    divergent.add(cell_class(members[i], t["ld_class"]))
            out = {}
            for i, m in enumerate(members):
                r = LD.get((i, "wild")) or LD.get((i, "ld"))
                cc = cell_class(m, t["ld_class"])
                rc, msg, got, exp = W[i]
                if r is not None:
                    accepted = r[0] == 0
                    dec = decided_mask(i, r)
                elif cc not in covered:
                    accepted, dec = False, 0      # GNU ld cap hit: class without any GNU ld run
                else:
                    accepted = cc not in rejecting
                    dec = 0 if (cc in divergent or not accepted) else full[i]
                if not accepted:
                    v, dec = None, 0        # outside the property: GNU ld rejects the script
                elif rc != 0:
                    v = verdict(m, rc, msg, got, exp, dec)   # crash / rejection by wild
                else:
                    v = verdict(m, rc, msg, got, exp, dec) if dec else None
                out[i] = (v, dec, r is not None)
            return out, divergent

        verdicts, divergent = judge()
        # Every key that is reported has a member on which GNU ld ran with the *identical* script
        # (wild's sink) and that still violates. Members of a key for which no such member can be
        # found are not reported (undecided, counted).
        t0 = time.time()
        tried = set()
        for _round in range(6):
            bykey = {}
            for i, (v, _dec, _ran) in verdicts.items():
                if v:
                    bykey.setdefault(v[0], []).append(i)
            need = []
            for key, idxs in bykey.items():
                # the lowest-numbered (simplest) member of the key is the one to be written out
                lo = min(idxs)
                if (lo, "wild") not in LD and lo not in tried:
                    need.append((lo, "wild"))
            if not need:
                break
            tried.update(i for i, _s in need)
            run_ld(need)
            verdicts, divergent = judge()
        bykey = {}
        for i, (v, dec, ran) in verdicts.items():
            if v:
                bykey.setdefault(v[0], []).append(i)
        unconfirmed = {k: len(v) for k, v in bykey.items()
                       if not any((i, "wild") in LD for i in v)}
        for key in unconfirmed:
            for i in bykey.pop(key):
                verdicts[i] = (None, 0, verdicts[i][2])
        timing["confirm_s"] = round(time.time() - t0, 1)
        print(f"c15: confirmation {timing['confirm_s']}s, {len(bykey)} keys, "
              f"{len(unconfirmed)} unconfirmed", file=sys.stderr)

        # ---- report
        for key in sorted(bykey):
            idxs = bykey[key]
            first = min(i for i in idxs if (i, "wild") in LD)
            for i in [first] + [j for j in idxs if j != first]:
                m = members[i]
                rc, msg, got, exp = W[i]
                v, dec, ran = verdicts[i]
                if i != first:
                    chk.violation(key, v[1], {"see": "first member of this key"})
                    continue
                lrc, lerr, lgot = LD[(i, "wild")]
                rep = {"names_spec": {"L": t["L"], "PL": t["PL"], "alphabet": NAME_ALPHA,
                                      "prefix": "".join(PREFIX), "count": n},
                       "member": {k: m[k] for k in ("fam", "toks", "pats", "fp", "keep", "gc")},
                       "script": script_text(m, G["wsink"]),
                       "argv": link_argv(m, "s.ld", "out"),
                       "wild": {"rc": rc, "message": msg},
                       "gnu_ld": {"rc": lrc, "message": lerr},
                       "members_with_this_key": len(idxs)}
                for sec in sorted(exp):
                    gmask = lgot.get(sec, 0) if isinstance(lgot, dict) else 0
                    wmask = got.get(sec, 0) if isinstance(got, dict) else 0
                    rep[sec] = {"fnmatch_model": names_of(exp[sec], names),
                                "gnu_ld": names_of(gmask, names),
                                "wild": names_of(wmask, names) if rc == 0 else None,
                                "counts": {"model": bin(exp[sec]).count("1"),
                                           "gnu_ld": bin(gmask).count("1"),
                                           "wild": bin(wmask).count("1")}}
                chk.violation(key, v[1], rep)

    # ---- evidence
    decided_pairs = sum(bin(dec).count("1") for _v, dec, _r in verdicts.values())
    total_pairs = sum(bin(full[i]).count("1") for i in range(len(members)))
    excluded_members = sum(1 for _v, dec, _r in verdicts.values() if dec == 0)
    nontrivial = set()
    matchsets = set()
    for i, m in enumerate(members):
        e1 = W[i][3].get(".out1", 0)
        if e1 and e1 != full[i]:
            nontrivial.add((m["fam"], m["fp"], tuple(m["pats"])))
            matchsets.add((m["fam"], m["fp"], e1, W[i][3].get(".out2", 0)))
    fam_counts = {}
    for m in members:
        fam_counts[m["fam"]] = fam_counts.get(m["fam"], 0) + 1
    key_counts = {k: len(v) for k, v in sorted(bykey.items())}
    samples = []
    for i in (0, len(members) // 3, len(members) // 2, len(members) - 1):
        m = members[i]
        samples.append({"family": m["fam"], "script": script_text(m, "<sink>").strip(),
                        "gc": m["gc"], "objects": member_files(m),
                        "model_out1": names_of(W[i][3].get(".out1", 0), names, 8),
                        "wild_rc": W[i][0], "verdict": verdicts[i][0][0] if verdicts[i][0] else "ok",
                        "gnu_ld_ran": verdicts[i][2]})
    ld_runs = len(LD)
    ld_rejects = sum(1 for r in LD.values() if r[0] != 0)
    chk.coverage = {
        "evaluations": len(members),
        "distinct_nontrivial": len(matchsets),
        "rule": "every member = one linker script linked by the real wild; members enumerate ALL "
                f"token strings of length 1..{t['T']} over {TOKENS} and `.tx.` + all token strings "
                f"of length 0..{t['PT']} (single rule), all overlapping ordered pairs of the set "
                f"(<= {t['Q'][0]} tokens, prefixed <= {t['Q'][1]}), KEEP under --gc-sections and 4 "
                f"file patterns x the set (<= {t['K'][0]} tokens, prefixed <= {t['K'][1]}); each is "
                f"decided for ALL {n} section names (strings of length 0..{t['L']} over "
                f"'{NAME_ALPHA}' and `.tx.` + tails of length 0..{t['PL']}). distinct_nontrivial = "
                "distinct (family, file pattern, expected .out1 set, expected .out2 set) with a "
                "non-empty, non-universal .out1",
        "samples": samples,
        "exhaustive": not capped,
        "members_by_family": fam_counts,
        "section_names": n,
        "member_name_pairs": total_pairs,
        "member_name_pairs_decided": decided_pairs,
        "member_name_pairs_excluded_gnu_ld_vs_fnmatch": total_pairs - decided_pairs,
        "members_fully_excluded": excluded_members,
        "distinct_members_nontrivial": len(nontrivial),
        "gnu_ld_links": ld_runs,
        "gnu_ld_rejected_scripts": ld_rejects,
        "gnu_ld_cells": len(cells),
        "gnu_ld_cap_hit": capped,
        "gnu_ld_subset_rule": f"one member per (family, file pattern, pattern class "
                              f"{t['ld_class']}, wild outcome) cell, plus the replay member of "
                              "every key with the identical script",
        "pattern_classes_where_gnu_ld_contradicts_fnmatch": len(divergent),
        "sink_validation_members": len(vsub),
        "violating_members_by_key": key_counts,
        "keys_dropped_unconfirmed_by_gnu_ld": unconfirmed,
        "timing": timing,
    }
    chk.assumptions = [
        "GNU ld 2.40 is the referee; libc fnmatch decides members GNU ld was not run on, but only "
        "in pattern classes where every GNU ld run agreed with fnmatch on every name",
        "wild gets a sink of exact names (`*(*)` panics in wild), GNU ld gets `*(*)` in the main "
        "round; GNU ld's .out1/.out2 were checked to be identical under both sinks on a spread "
        "subset, and every reported key is confirmed by GNU ld on wild's exact script",
        "sections are decided independently of each other (all names share one object)",
        "section names shorter than 4 bytes have no sink rule in wild (they become orphans)",
    ]
    chk.finish()


if __name__ == "__main__":
    main()
