#!/usr/bin/env python3
"""C16 - Linker-script expressions evaluate as in GNU ld.

Bounded-exhaustive, end to end through real linker scripts. Every expression of the enumerated
sets is evaluated by GNU ld 2.40 in batch (`vN = <expr> ;` assignments in one script, values read
back from the output's symbol table) - that value V is the reference. The real wild binary then
links scripts of `ASSERT((<expr>) == V, "eN")` lines (in-process server): all must pass. When a
link fails the diagnostic names the first failing line; it is recorded, everything up to and
including it is dropped and the rest is linked again.

Sets (operators = those wild's parser accepts, probed at run time):
 (1)  depth-1 trees: `(a op b)`, `op a`, MIN(a,b), MAX(a,b), ALIGN(a) over the 11 literals L
 (1b) depth-2 trees `((a op1 b) op2 c)`, `(a op1 (b op2 c))` over the 5-literal subset S
 (2)  flat strings `a op1 b op2 c` over S (precedence, associativity); thorough: also
      `a op1 b op2 c op3 d` over {1,2,3}
 (3)  unary placements: `ua a op ub b` (ua, ub in {none,-,~,!}) over S x S, and `u1 u2 a` over L
 ASSERT semantics: `ASSERT(<expr>, "mN")` must fail iff V == 0, with `mN` in the diagnostic.

An expression GNU ld rejects (division by zero, SIGFPE on INT64_MIN/-1) is dropped; one that wild
rejects (parse error, or an evaluation error such as "ALIGN(0) is invalid") is outside the
property ("for every expression wild accepts") and counted.
"""
import itertools
import json
import os
import re
import sys
import time

sys.path.insert(0, os.path.join(os.path.dirname(os.path.abspath(__file__)), "..", "lib"))
import vlib
import wildrun
import minielf
import ldref

M64 = (1 << 64) - 1
LITS = [0, 1, 2, 3, 7, 63, 64, 65, 0x7FFFFFFFFFFFFFFF, 0x8000000000000000, 0xFFFFFFFFFFFFFFFF]
SUB5 = [0, 1, 2, 3, 0xFFFFFFFFFFFFFFFF]
SUB3 = [1, 2, 3]
BINOPS = ["+", "-", "*", "/", "%", "<<", ">>", "&", "|", "^", "&&", "||", "==", "!=", "<", "<=",
          ">", ">="]
UNOPS = ["-", "~", "!"]
FUNCS2 = ["MIN", "MAX"]

START_OBJ = None   # bytes of an object defining _start, built once

# --------------------------------------------------------------------------------------------
# text, tokens, a parser with a selectable precedence table, an evaluator (MODEL - used to
# pre-sort expressions GNU ld would die on and to NAME the cause of a mismatch; never a verdict)


def lit(v):
    return str(v) if v <= 65 else f"0x{v:X}"


TOK_RE = re.compile(r"0[xX][0-9A-Fa-f]+|\d+|<<|>>|<=|>=|==|!=|&&|\|\||[-+*/%&|^<>~!(),?:]|[A-Z]+")

GNU_PREC = {"||": 2, "&&": 3, "|": 4, "^": 5, "&": 6, "==": 7, "!=": 7, "<": 8, ">": 8, "<=": 8,
            ">=": 8, "<<": 9, ">>": 9, "+": 10, "-": 10, "*": 11, "/": 11, "%": 11}
# libwild/src/linker_script.rs: || < && < one non-associative comparison < | < ^ < & < shift ...
WILD_PREC = {"||": 2, "&&": 3, "==": 4, "!=": 4, "<": 4, ">": 4, "<=": 4, ">=": 4, "|": 5, "^": 6,
             "&": 7, "<<": 9, ">>": 9, "+": 10, "-": 10, "*": 11, "/": 11, "%": 11}


class ParseError(Exception):
    pass


class EvalError(Exception):
    pass


def tokenize(text):
    return TOK_RE.findall(text)


def parse(toks, prec, nonassoc_level=None):
    """Returns a tree: int | ('u', op, x) | ('b', op, l, r, token index of op) | ('f', name, args)
    | ('t', c, a, b)."""
    pos = [0]

    def peek():
        return toks[pos[0]] if pos[0] < len(toks) else None

    def take(expected=None):
        t = peek()
        if t is None or (expected is not None and t != expected):
            raise ParseError(f"expected {expected} at {pos[0]}")
        pos[0] += 1
        return t

    def primary():
        t = take()
        if t == "(":
            e = ternary()
            take(")")
            return e
        if t[0].isdigit():
            return int(t, 0)
        if t in ("MIN", "MAX", "ALIGN"):
            take("(")
            args = [ternary()]
            while peek() == ",":
                take()
                args.append(ternary())
            take(")")
            return ("f", t, args)
        raise ParseError(f"unexpected {t}")

    def unary():
        if peek() in ("-", "~", "!"):
            op = take()
            return ("u", op, unary())
        return primary()

    def binary(minprec):
        left = unary()
        while True:
            op = peek()
            p = prec.get(op)
            if p is None or p < minprec:
                return left
            idx = pos[0]
            take()
            right = binary(p + 1)
            left = ("b", op, left, right, idx)
            if p == nonassoc_level and prec.get(peek()) == p:
                raise ParseError("non-associative")

    def ternary():
        c = binary(1)
        if peek() == "?":
            take()
            a = ternary()
            take(":")
            b = ternary()
            return ("t", c, a, b)
        return c

    e = ternary()
    if pos[0] != len(toks):
        raise ParseError("trailing tokens")
    return e


def sgn(x):
    return x - (1 << 64) if x >> 63 else x


def ev(t, signed_div=True, align0_error=False):
    if isinstance(t, int):
        return t
    if t[0] == "u":
        v = ev(t[2], signed_div, align0_error)
        return {"-": (-v) & M64, "~": ~v & M64, "!": int(v == 0)}[t[1]]
    if t[0] == "t":
        return ev(t[2] if ev(t[1], signed_div, align0_error) else t[3], signed_div, align0_error)
    if t[0] == "f":
        args = [ev(a, signed_div, align0_error) for a in t[2]]
        if t[1] == "MIN":
            return min(args)
        if t[1] == "MAX":
            return max(args)
        if align0_error and args[0] == 0:
            raise EvalError("align0")
        return 0            # ALIGN(n) with the location counter at 0
    op = t[1]
    a, b = ev(t[2], signed_div, align0_error), ev(t[3], signed_div, align0_error)
    if op == "+":
        return (a + b) & M64
    if op == "-":
        return (a - b) & M64
    if op == "*":
        return (a * b) & M64
    if op in ("/", "%"):
        if b == 0:
            raise EvalError("div0")
        if not signed_div:
            return a // b if op == "/" else a % b
        sa, sb = sgn(a), sgn(b)
        if sa == -(1 << 63) and sb == -1:
            raise EvalError("overflow")
        q = abs(sa) // abs(sb)
        if (sa < 0) != (sb < 0):
            q = -q
        return (q if op == "/" else sa - q * sb) & M64
    if op == "<<":
        return (a << (b & 63)) & M64
    if op == ">>":
        return a >> (b & 63)
    if op == "&":
        return a & b
    if op == "|":
        return a | b
    if op == "^":
        return a ^ b
    if op == "&&":
        return int(a != 0 and b != 0)
    if op == "||":
        return int(a != 0 or b != 0)
    return int({"==": a == b, "!=": a != b, "<": a < b, "<=": a <= b, ">": a > b,
                ">=": a >= b}[op])


def model_value(text, prec=GNU_PREC, signed_div=True, nonassoc=None):
    """(value, None) or (None, reason)."""
    try:
        return ev(parse(tokenize(text), prec, nonassoc), signed_div), None
    except ParseError as ex:
        return None, f"parse:{ex}"
    except EvalError as ex:
        return None, str(ex)


def binary_nodes(t, out):
    if isinstance(t, tuple):
        if t[0] == "b":
            out[t[4]] = t
            binary_nodes(t[2], out)
            binary_nodes(t[3], out)
        elif t[0] == "u":
            binary_nodes(t[2], out)
        elif t[0] == "f":
            for a in t[2]:
                binary_nodes(a, out)
        elif t[0] == "t":
            for a in t[1:]:
                binary_nodes(a, out)
    return out


def contains(t, idx):
    return idx in binary_nodes(t, {})


def grouping_differences(text):
    """Operator pairs of a flat string that the two precedence tables nest differently (one is
    above the other in one tree and below it, or beside it, in the other), nearest pair first.
    Returns a list of (opx, opy) in canonical order."""
    toks = tokenize(text)
    try:
        tg, tw = parse(toks, GNU_PREC), parse(toks, WILD_PREC, 4)
    except ParseError:
        return []
    ng, nw = binary_nodes(tg, {}), binary_nodes(tw, {})
    idxs = sorted(set(ng) & set(nw))

    def relation(nodes, i, j):
        if contains(nodes[i], j):
            return "i-above-j"
        if contains(nodes[j], i):
            return "j-above-i"
        return "beside"

    found = []
    for a, i in enumerate(idxs):
        for j in idxs[a + 1:]:
            if relation(ng, i, j) != relation(nw, i, j):
                found.append((j - i, i, j))
    out = []
    for _d, i, j in sorted(found):
        pair = tuple(sorted([toks[i], toks[j]], key=lambda o: (-GNU_PREC[o], o)))
        if pair not in out:
            out.append(pair)
    return out


def operand_class(v):
    if v == 0:
        return "0"
    if v < 64:
        return "small"
    if v < 1 << 62:
        return "ge64"
    if v < 1 << 63:
        return "maxpos"
    return "msb"


def value_key(text):
    toks = tokenize(text)
    try:
        t = parse(toks, GNU_PREC)
    except ParseError:
        return "value:expr:unparsed"
    if isinstance(t, tuple) and t[0] == "b" and isinstance(t[2], int) and isinstance(t[3], int):
        return f"value:{t[1]}:{operand_class(t[2])}:{operand_class(t[3])}"
    if isinstance(t, tuple) and t[0] == "u" and isinstance(t[2], int):
        return f"value:unary{t[1]}:{operand_class(t[2])}"
    if isinstance(t, tuple) and t[0] == "f" and all(isinstance(a, int) for a in t[2]):
        return f"value:{t[1]}:" + ":".join(operand_class(a) for a in t[2])
    ops = sorted({x for x in toks if x in GNU_PREC or x in ("MIN", "MAX", "ALIGN", "~", "!", "?")})
    return "value:expr:" + ",".join(ops)


# --------------------------------------------------------------------------------------------
# enumeration


def gen_sets(binops, unops, funcs, align_ok, ternary_ok, thorough):
    """Yields (set name, expression text)."""
    for a in LITS:
        for b in LITS:
            for op in binops:
                yield "1:binary", f"({lit(a)} {op} {lit(b)})"
            for f in funcs:
                yield "1:func", f"{f}({lit(a)}, {lit(b)})"
        for op in unops:
            yield "1:unary", f"{op}{lit(a)}"
        if align_ok:
            yield "1:func", f"ALIGN({lit(a)})"
    if ternary_ok:
        for c, a, b in itertools.product(SUB5, repeat=3):
            yield "1:ternary", f"({lit(c)} ? {lit(a)} : {lit(b)})"
    for op1 in binops:
        for op2 in binops:
            for a, b, c in itertools.product(SUB5, repeat=3):
                yield "1b:left", f"(({lit(a)} {op1} {lit(b)}) {op2} {lit(c)})"
                yield "1b:right", f"({lit(a)} {op1} ({lit(b)} {op2} {lit(c)}))"
                yield "2:flat3", f"{lit(a)} {op1} {lit(b)} {op2} {lit(c)}"
    una = [""] + list(unops)
    for op in binops:
        for ua in una:
            for ub in una:
                if not ua and not ub:
                    continue
                for a, b in itertools.product(SUB5, repeat=2):
                    yield "3:unary-in-binary", f"{ua}{lit(a)} {op} {ub}{lit(b)}"
    for u1 in unops:
        for u2 in unops:
            for a in LITS:
                yield "3:unary-unary", f"{u1}{u2}{lit(a)}"
    if thorough:
        for op1, op2, op3 in itertools.product(binops, repeat=3):
            for a, b, c, d in itertools.product(SUB3, repeat=4):
                yield "2:flat4", f"{lit(a)} {op1} {lit(b)} {op2} {lit(c)} {op3} {lit(d)}"


# --------------------------------------------------------------------------------------------
# GNU ld in batch

G = {}


def _ld_values(lines, d):
    """lines: list of expression texts. Returns (rc, err, {index: value})."""
    sp, out = os.path.join(d, "g.ld"), os.path.join(d, "g.out")
    with open(sp, "w") as fh:
        fh.write("".join(f"v{i} = {e} ;\n" for i, e in enumerate(lines)))
    try:
        os.unlink(out)
    except OSError:
        pass
    rc, err = ldref.gnu_ld(["-T", sp, G["obj"], "-o", out], d)
    if rc != 0:
        return rc, err, {}
    with open(out, "rb") as fh:
        syms = minielf.read_symbols(fh.read())
    vals = {}
    for i in range(len(lines)):
        s = syms.get(f"v{i}".encode())
        if s is None:
            return "missing", f"v{i} not in the symbol table", {}
        vals[i] = s[0]
    return 0, "", vals


def ld_batch(items):
    """items: list of (id, text). Returns ({id: value}, {id: reason it was dropped}, links)."""
    d = ldref.workdir(G["base"])
    values, dropped, links = {}, {}, 0
    stack = [list(items)]
    while stack:
        cur = stack.pop()
        while cur:
            rc, err, vals = _ld_values([t for _i, t in cur], d)
            links += 1
            if rc == 0:
                for k, (i, _t) in enumerate(cur):
                    values[i] = vals[k]
                break
            m = re.search(r"g\.ld:(\d+)", err)
            if m and rc == 1:
                k = int(m.group(1)) - 1
                dropped[cur[k][0]] = err.strip()[:80]
                del cur[k]
                continue
            if len(cur) == 1:
                dropped[cur[0][0]] = f"GNU ld exit {rc} {err.strip()[:60]}"
                break
            half = len(cur) // 2
            stack.append(cur[half:])
            cur = cur[:half]
    return values, dropped, links


# --------------------------------------------------------------------------------------------
# wild: scripts of ASSERT lines


def wild_batch(items):
    """items: list of (id, assert_expression_text, message). Returns ({id: (status, detail)},
    links). status: pass | fail | eval-error | parse-reject | panic | weird."""
    d = ldref.workdir(G["base"])
    sp, out = os.path.join(d, "w.ld"), os.path.join(d, "w.out")
    status, links = {}, 0
    stack = [list(items)]
    while stack:
        cur = stack.pop()
        while cur:
            with open(sp, "w") as fh:
                fh.write("".join(f'ASSERT({e}, "{msg}")\n' for _i, e, msg in cur))
            rc, msg = ldref.wild_link(["-T", sp, G["obj"], "-o", out], d)
            links += 1
            if rc == 0:
                for i, _e, _m in cur:
                    status[i] = ("pass", "")
                break
            if rc == 1:
                m = re.search(r"parse error at line (\d+)", msg)
                if m and "Failed to parse linker script" in msg:
                    k = int(m.group(1)) - 1
                    if not 0 <= k < len(cur):
                        status.update({i: ("weird", msg[:200]) for i, _e, _m in cur})
                        break
                    status[cur[k][0]] = ("parse-reject", "")
                    del cur[k]
                    continue
                m = re.search(re.escape(sp) + r":(\d+): (.*)", msg, re.S)
                if m and 1 <= int(m.group(1)) <= len(cur):
                    k = int(m.group(1)) - 1
                    rest = m.group(2)
                    for i, _e, _m in cur[:k]:
                        status[i] = ("pass", "")
                    if rest.startswith("Failed to evaluate ASSERT"):
                        cause = rest.split("Caused by:")[-1].strip().split("\n")[0]
                        status[cur[k][0]] = ("eval-error", cause)
                    elif rest.split("\n")[0].strip() == cur[k][2]:
                        status[cur[k][0]] = ("fail", rest.split("\n")[0].strip())
                    else:
                        status[cur[k][0]] = ("weird", rest[:200])
                    cur = cur[k + 1:]
                    continue
                status.update({i: ("weird", msg[:200]) for i, _e, _m in cur})
                break
            if len(cur) == 1:
                status[cur[0][0]] = ("panic" if rc == 101 else "weird", f"rc={rc} {msg[:200]}")
                break
            half = len(cur) // 2
            stack.append(cur[half:])
            cur = cur[:half]
    return status, links


def chunks(seq, n):
    return [seq[i:i + n] for i in range(0, len(seq), n)]


def run_wild(items, size):
    status, links = {}, 0
    for st, ln in wildrun.pmap(wild_batch, chunks(items, size), chunksize=1):
        status.update(st)
        links += ln
    return status, links


def run_ld(items, size):
    values, dropped, links = {}, {}, 0
    for v, dr, ln in vlib.pmap(ld_batch, chunks(items, size), chunksize=1):
        values.update(v)
        dropped.update(dr)
        links += ln
    return values, dropped, links


def start_object():
    return minielf.write_object([], start_in=b".text")


# --------------------------------------------------------------------------------------------


def replay(path):
    with open(path) as fh:
        rep = json.load(fh)["replay"]
    with vlib.scratch("c16r") as base:
        G["base"], G["obj"] = base, os.path.join(base, "s.o")
        with open(G["obj"], "wb") as fh:
            fh.write(start_object())
        bad = False
        if "gnu_script" in rep:
            with open(os.path.join(base, "g.ld"), "w") as fh:
                fh.write(rep["gnu_script"])
            rc, err = ldref.gnu_ld(["-T", "g.ld", "s.o", "-o", "g.out"], base)
            val = None
            if rc == 0:
                with open(os.path.join(base, "g.out"), "rb") as fh:
                    val = minielf.read_symbols(fh.read())[b"v0"][0]
            print(f"GNU ld: `{rep['gnu_script'].strip()}` -> rc={rc} {err.strip()} "
                  f"v0={'-' if val is None else hex(val)} (recorded {rep.get('gnu_ld_value')})")
            if val is None or hex(val) != rep.get("gnu_ld_value"):
                print("GNU ld does not reproduce the recorded value")
                return 0
        if "gnu_assert_script" in rep:
            with open(os.path.join(base, "ga.ld"), "w") as fh:
                fh.write(rep["gnu_assert_script"])
            rc, err = ldref.gnu_ld(["-T", "ga.ld", "s.o", "-o", "ga.out"], base)
            print(f"GNU ld: `{rep['gnu_assert_script'].strip()}` -> rc={rc} {err.strip()[:200]}")
        with open(os.path.join(base, "w.ld"), "w") as fh:
            fh.write(rep["wild_script"])
        rc, _o, err = wildrun.link_subprocess(["-T", "w.ld", "s.o", "-o", "w.out"], cwd=base)
        err = err.decode("utf-8", "replace").strip()
        print(f"wild:   `{rep['wild_script'].strip()}` -> rc={rc} {err[:300]}")
        exp_ok = rep.get("wild_must", "pass") == "pass"
        if exp_ok and rc != 0:
            bad = True
        if not exp_ok and (rc == 0 or rep.get("message", "") not in err):
            bad = True
        print("REPRODUCED: wild differs from GNU ld" if bad else "not reproduced")
        return 1 if bad else 0


def main():
    chk = vlib.Check("C16", "exploration")
    if chk.args.replay:
        sys.exit(replay(chk.args.replay))
    if not chk.args.no_build:
        vlib.build("wild")
    timing = {}
    with vlib.scratch("c16") as base:
        G["base"], G["obj"] = base, os.path.join(base, "s.o")
        with open(G["obj"], "wb") as fh:
            fh.write(start_object())

        # ---- which operators / functions does wild's parser accept?
        probes = [(f"b{op}", f"(3 {op} 2) || 1", "p") for op in BINOPS]
        probes += [(f"u{op}", f"({op}2) || 1", "p") for op in UNOPS]
        probes += [(f"f{f}", f"{f}(3, 2) || 1", "p") for f in FUNCS2]
        probes += [("fALIGN", "ALIGN(8) || 1", "p"), ("t?:", "(1 ? 2 : 3) || 1", "p")]
        accepted, rejected_syntax = set(), []
        for pid, e, msg in probes:
            st, _ = wild_batch([(pid, e, msg)])
            if st[pid][0] == "pass":
                accepted.add(pid)
            elif st[pid][0] == "parse-reject":
                rejected_syntax.append(pid[1:])
            else:
                chk.machinery(f"probe {e!r}: {st[pid]}")
        # ... and which of those does the referee know? (GNU ld 2.40 has no `^`)
        no_reference = []
        for pid, e, _msg in probes:
            if pid in accepted:
                vals, _drp, _ln = ld_batch([(pid, e)])
                if pid not in vals:
                    accepted.discard(pid)
                    no_reference.append(pid[1:])
        binops = [op for op in BINOPS if f"b{op}" in accepted]
        unops = [op for op in UNOPS if f"u{op}" in accepted]
        funcs = [f for f in FUNCS2 if f"f{f}" in accepted]
        if len(binops) < 10:
            chk.machinery(f"wild accepts only {binops}")

        # ---- enumerate
        exprs, sets = [], []
        seen = set()
        for sname, e in gen_sets(binops, unops, funcs, "fALIGN" in accepted, "t?:" in accepted,
                                 chk.thorough):
            if e not in seen:
                seen.add(e)
                exprs.append(e)
                sets.append(sname)
        del seen
        n = len(exprs)

        # ---- GNU ld: reference values. Expressions the model predicts GNU ld dies on are kept
        # out of the big batches (one error fails a whole link) and verified in a second pass.
        t0 = time.time()
        safe, risky, plain = [], [], []
        model_vals = {}
        for i, e in enumerate(exprs):
            mv, why = model_value(e)
            model_vals[i] = mv
            if mv is None:
                risky.append((i, e))
            elif "/" in e or "%" in e:
                safe.append((i, e))
            else:
                plain.append((i, e))
        V, dropped, ld_links = run_ld(plain, 4000)
        v2, d2, l2 = run_ld(safe, 500)
        V.update(v2)
        dropped.update(d2)
        ld_links += l2
        # predicted failures: GNU ld must fail on each of them alone (a spread subset: <= 3000
        # thorough, <= 150 quick); the others are dropped on the model's word and counted
        step = max(1, len(risky) // (3000 if chk.thorough else 150))
        verify = risky[::step]
        v3, d3, l3 = run_ld(verify, 1)
        ld_links += l3
        V.update(v3)                       # the model was wrong: GNU ld has a value - use it
        dropped.update(d3)
        unverified_drop = len(risky) - len(verify)
        timing["gnu_ld_s"] = round(time.time() - t0, 1)
        model_disagree = [(exprs[i], hex(V[i]), hex(model_vals[i])) for i in V
                          if model_vals[i] is not None and model_vals[i] != V[i]]
        model_disagree += [(exprs[i], hex(V[i]), "error") for i in v3]

        # ---- wild: every expression with a reference value
        t0 = time.time()
        items = [(i, f"({exprs[i]}) == 0x{V[i]:x}", f"e{i}") for i in sorted(V)]
        W, wild_links = run_wild(items, 200)
        timing["wild_s"] = round(time.time() - t0, 1)
        for i, (st, det) in W.items():
            if st == "weird":
                chk.machinery(f"unexpected diagnostic for {exprs[i]!r}: {det}")

        # ---- name the cause of every mismatch with one more round of wild links
        t0 = time.time()
        fails = sorted(i for i, (st, _d) in W.items() if st == "fail")
        hyp_items, hyp_of = [], {}
        for i in fails:
            e = exprs[i]
            cands = []
            for name, prec, sd, na in (("signed-division", GNU_PREC, False, None),
                                       ("precedence", WILD_PREC, True, 4),
                                       ("precedence+division", WILD_PREC, False, 4)):
                cv, _why = model_value(e, prec, sd, na)
                if cv is not None and cv != V[i] and cv not in [c for _n, c in cands]:
                    cands.append((name, cv))
            for k, (name, cv) in enumerate(cands):
                hid = (i, k)
                hyp_of[hid] = name
                hyp_items.append((hid, f"({e}) == 0x{cv:x}", f"h{i}_{k}"))
        H, l4 = run_wild(hyp_items, 100)
        wild_links += l4
        keys = {}
        for i in fails:
            e = exprs[i]
            explained = [hyp_of[h] for h in hyp_of if h[0] == i and H.get(h, ("", ""))[0] == "pass"]
            if "signed-division" in explained:
                keys[i] = ("signed-division", "wild's value is the one unsigned division gives")
            elif explained:
                pairs = grouping_differences(e)
                if pairs:
                    keys[i] = (f"precedence:{pairs[0][0]}:{pairs[0][1]}",
                               f"wild's value is the one obtained by grouping `{pairs[0][0]}` and "
                               f"`{pairs[0][1]}` the other way round"
                               + (" (and dividing unsigned)" if explained[0] != "precedence" else ""))
                else:
                    keys[i] = (value_key(e), "wild's value differs")
            else:
                keys[i] = (value_key(e), "wild's value differs (not explained by unsigned "
                                         "division or by wild's precedence table)")
        # a panic is a crash on an accepted expression
        for i, (st, det) in W.items():
            if st == "panic":
                keys[i] = (f"panic:{det[:80]}", "wild panics evaluating the ASSERT")
        timing["classify_s"] = round(time.time() - t0, 1)

        # ---- ASSERT semantics on depth-1 members whose value wild got right
        t0 = time.time()
        d1 = [i for i in sorted(V) if sets[i].startswith("1:") and W[i][0] == "pass"]
        if not chk.thorough:
            zeros = [i for i in d1 if V[i] == 0]
            nonz = [i for i in d1 if V[i] != 0]
            d1 = sorted(zeros[::max(1, len(zeros) // 150)] + nonz[::max(1, len(nonz) // 150)])
        a_items = [(i, exprs[i], f"m{i}") for i in d1]
        # expected to pass: in batches; expected to fail: one link each
        A, l5 = run_wild([it for it in a_items if V[it[0]] != 0], 100)
        A0, l6 = run_wild([it for it in a_items if V[it[0]] == 0], 1)
        A.update(A0)
        wild_links += l5 + l6
        assert_viol = {}
        for i in d1:
            st, det = A[i]
            if V[i] != 0 and st != "pass":
                assert_viol[i] = ("assert:fails-on-nonzero" if st == "fail" else f"assert:{st}",
                                  f"ASSERT({exprs[i]}, ...) -> {st} {det}; value is {V[i]:#x}")
            elif V[i] == 0 and st == "pass":
                assert_viol[i] = ("assert:passes-on-zero",
                                  f"ASSERT({exprs[i]}, ...) passes although the value is 0")
            elif V[i] == 0 and st != "fail":
                assert_viol[i] = (f"assert:{st}", f"ASSERT({exprs[i]}, ...) -> {st} {det}")
        # the referee has the same ASSERT semantics (spot check: 8 zero, 8 non-zero members)
        gz = [i for i in d1 if V[i] == 0][:8]
        gn = [i for i in d1 if V[i] != 0][:8]
        d = ldref.workdir(base)
        for i in gz + gn:
            with open(os.path.join(d, "ga.ld"), "w") as fh:
                fh.write(f'ASSERT({exprs[i]}, "m{i}")\n')
            rc, err = ldref.gnu_ld(["-T", "ga.ld", G["obj"], "-o", "ga.out"], d)
            ld_links += 1
            if (rc != 0) != (V[i] == 0) or (rc != 0 and f"m{i}" not in err):
                chk.machinery(f"GNU ld's ASSERT({exprs[i]}) -> rc={rc} {err[:100]} with "
                              f"value {V[i]:#x}")
        timing["assert_s"] = round(time.time() - t0, 1)

        # ---- every reported key is re-established on its first member with the real binaries
        first = {}
        for i in sorted(keys):
            first.setdefault(keys[i][0], i)
        for key, i in first.items():
            if key.startswith("panic:"):
                continue
            vals, drp, _ = ld_batch([(i, exprs[i])])
            rc, _o, err = (None, None, b"")
            with open(os.path.join(d, "c.ld"), "w") as fh:
                fh.write(f'ASSERT(({exprs[i]}) == 0x{V[i]:x}, "e{i}")\n')
            rc, _o, err = wildrun.link_subprocess(["-T", "c.ld", G["obj"], "-o", "c.out"], cwd=d)
            if vals.get(i) != V[i] or rc == 0 or f"e{i}".encode() not in err:
                chk.machinery(f"key {key}: member {exprs[i]!r} does not reproduce alone "
                              f"(GNU ld {vals} {drp}, wild rc={rc} {err[-200:]})")

    # ---- report
    for i in sorted(keys):
        key, why = keys[i]
        e = exprs[i]
        what = f"`{e}`: GNU ld computes {V[i]:#x}; wild's ASSERT(({e}) == {V[i]:#x}) fails: {why}"
        if first.get(key) == i:
            rep = {"expr": e, "set": sets[i], "gnu_script": f"v0 = {e} ;\n",
                   "gnu_ld_value": hex(V[i]),
                   "wild_script": f'ASSERT(({e}) == 0x{V[i]:x}, "e0")\n', "wild_must": "pass",
                   "wild": {"rc": 1, "message": W[i][1]},
                   "wild_value_confirmed_by": [
                       {"hypothesis": hyp_of[h], "wild_accepts": txt}
                       for (h, txt, _m) in hyp_items if h[0] == i and H[h][0] == "pass"],
                   "members_with_this_key": sum(1 for k in keys.values() if k[0] == key)}
            chk.violation(key, what, rep)
        else:
            chk.violation(key, what, {"see": "first member of this key"})
    seen_a = set()
    for i in sorted(assert_viol):
        key, what = assert_viol[i]
        rep = {"expr": exprs[i], "gnu_script": f"v0 = {exprs[i]} ;\n", "gnu_ld_value": hex(V[i]),
               "gnu_assert_script": f'ASSERT({exprs[i]}, "m0")\n',
               "wild_script": f'ASSERT({exprs[i]}, "m0")\n', "message": "m0",
               "wild_must": "pass" if V[i] != 0 else "fail"} if key not in seen_a else {}
        seen_a.add(key)
        chk.violation(key, what, rep)

    by_status = {}
    for i, (st, det) in W.items():
        k = st if st != "eval-error" else f"eval-error:{det}"
        by_status[k] = by_status.get(k, 0) + 1
    err_examples = {}
    for i, (st, det) in sorted(W.items()):
        if st in ("eval-error", "parse-reject"):
            lst = err_examples.setdefault(f"{st}:{det}" if det else st, [])
            if len(lst) < 6:
                lst.append(f"{exprs[i]}  (GNU ld: {V[i]:#x})")
    by_set = {}
    for i in V:
        by_set[sets[i]] = by_set.get(sets[i], 0) + 1
    key_counts = {}
    for k, _w in keys.values():
        key_counts[k] = key_counts.get(k, 0) + 1
    decided = [i for i in V if W[i][0] in ("pass", "fail", "panic")]
    samples = []
    for i in (decided[0], decided[len(decided) // 3], decided[len(decided) // 2], decided[-1]):
        samples.append({"set": sets[i], "gnu_ld": f"v{i} = {exprs[i]} ;  -> {V[i]:#x}",
                        "wild": f'ASSERT(({exprs[i]}) == 0x{V[i]:x}, "e{i}")', "result": W[i][0]})
    chk.coverage = {
        "evaluations": len(decided) + len(d1),
        "distinct_nontrivial": len({(exprs[i], V[i]) for i in decided if not exprs[i].isdigit()}),
        "rule": "every expression of sets (1) depth-1 trees over 11 literals, (1b) both "
                "parenthesisations of a op1 b op2 c over 5 literals, (2) flat a op1 b op2 c over 5 "
                "literals" + (" and flat a op1 b op2 c op3 d over {1,2,3}" if chk.thorough else "")
                + ", (3) unary placements; operators = all that wild's parser accepted in a "
                "probe; reference value from GNU ld for every single expression; one decided "
                "evaluation = one ASSERT((expr) == V) evaluated by wild. distinct_nontrivial = "
                "distinct (expression, GNU ld value) pairs decided (every expression has at "
                "least one operator)",
        "samples": samples,
        "exhaustive": True,
        "expressions_enumerated": n,
        "operators_accepted_by_wild": binops + [f"unary{u}" for u in unops] + funcs
                                      + (["ALIGN"] if "fALIGN" in accepted else []),
        "syntax_rejected_by_wild": rejected_syntax,
        "operators_without_reference_gnu_ld_rejects": no_reference,
        "gnu_ld_values": len(V),
        "gnu_ld_distinct_values": len(set(V.values())),
        "gnu_ld_rejected_verified": len(dropped),
        "dropped_on_model_prediction_unverified": unverified_drop,
        "gnu_ld_links": ld_links,
        "wild_links": wild_links,
        "wild_outcomes": by_status,
        "expressions_with_value_by_set": by_set,
        "outside_property_wild_rejects": sum(v for k, v in by_status.items()
                                             if k == "parse-reject" or k.startswith("eval-error")),
        "outside_property_examples": err_examples,
        "assert_semantics_members": len(d1),
        "model_vs_gnu_ld_disagreements": len(model_disagree),
        "model_vs_gnu_ld_examples": model_disagree[:5],
        "violating_members_by_key": dict(sorted(key_counts.items())),
        "timing": timing,
    }
    chk.assumptions = [
        "GNU ld 2.40 is the referee for every value; the Python evaluator only pre-sorts "
        "expressions GNU ld dies on and names causes (its disagreements with GNU ld are counted)",
        "top-level `vN = expr;` and top-level `ASSERT(expr, ...)` evaluate expr in the same context "
        "(location counter 0, .text at address 0 in GNU ld's output)",
        "wild evaluates the ASSERTs of a script in order and reports the first failing one with "
        "its line number (checked: every diagnostic's message is the one of the line it names)",
        "`(expr) == V` is evaluated correctly by wild when expr is (covered by set (1): == over "
        "all literal pairs)",
    ]
    chk.finish()


if __name__ == "__main__":
    main()
