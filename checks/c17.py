#!/usr/bin/env python3
"""C17 - The exit status reflects whether the output was written.

Exhaustive fault enumeration on the real wild process: every phase point a link passes x every
fault kind x fork / no-fork x threads, plus every natural error, plus (thorough) every single
syscall-level deviation on the output path injected with strace. Oracle: the wait status of the
process the build system started, and the bytes at the output path at the moment it exited.

  (A) exit status 0  =>  the output path holds the complete output (byte-identical to the
      fault-free baseline of the same configuration);
  (B) a fault that fired in the linking process before `exit:Unmap output file` => status != 0.

Violation keys (one root cause = a handful of keys):
  fork+signal:<fault>            fork mode, the child was killed by the signal the fault raises
                                 (abort, segv, kill9, term, allocfail; panic-abort = a panic in a
                                 detached rayon task, which rayon turns into abort()) and the
                                 parent exited 0
  fork+child-exit0:no-done-byte  fork mode, the child exited 0 without sending the done byte
  exit0:<mode>:panic:<stage>     a panic at a point of top-level phase <stage> ended in status 0
  exit0:<mode>:error:<scenario>  a natural error ended in status 0
  exit0:<mode>:strace:<syscall>:<deviation>   a syscall deviation ended in status 0, output incomplete
  exit0:<mode>:no-fault          a run in which no fault fired exited 0 with an incomplete output
  changed-after-exit:<mode>      status 0, output complete at exit, but modified afterwards
  hang:<mode>:<fault or scenario>   no exit status within the time limit
"""
import collections
import json
import os
import sys
import time

sys.path.insert(0, os.path.join(os.path.dirname(os.path.abspath(__file__)), "..", "lib"))
import vlib
import faultenum as fe

QUICK_FAULTS = ("panic", "abort", "kill9", "exit0")
ERROR_INPUT_SCENARIOS = ("missing-input", "corrupt-object", "duplicate-symbol", "undefined-symbol",
                         "script-assert", "reloc-overflow")


def mode_name(case):
    return "fork" if case["fork"] else "nofork"


def strace_took_effect(st, res):
    """Exactly one deviation: one injected error, or the kill."""
    if st["what"].startswith("signal="):
        return bool(res.get("strace_killed"))
    return res.get("strace_injected") == 1


def judge(case, res, baseline_sha, ld_fails):
    """Returns (class, violation) where violation is None or (key, what, observed, expected)."""
    rc = res["rc"]
    mode = mode_name(case)
    scen, fault, st = case.get("scenario"), case.get("fault"), case.get("strace")
    label = scen or (fault and f"{fault[1]}@{fault[0]}") or \
        (st and f"strace:{st['syscall']}:{st['what']}:when={st['when']}") or "no-fault"
    cfg = fe.cfg_name(case)
    ae = res["at_exit"]
    complete = ae.get("type") == "file" and ae.get("sha") == baseline_sha
    if scen in ERROR_INPUT_SCENARIOS:
        if not ld_fails.get((scen, case["prog"])):
            return "scenario-excluded", None
        complete = False        # ground truth (GNU ld): these inputs have no valid output
    observed = {"exit_status": rc, "output_at_exit": ae, "output_settled": res["settled"],
                "stderr": res["stderr"], "fired": res.get("fired"),
                "fired_in_parent": res.get("fired_in_parent"), "stage": res.get("stage"),
                "before_unmap": res.get("before_unmap")}
    if rc == "timeout":
        what = fault[1] if fault else label
        return "hang", (f"hang:{mode}:{what}", f"{cfg} {label}: no exit status within "
                        f"{fe.TIMEOUT}s", observed, "the process exits")
    if fault and res.get("fired") and res.get("fired_in_parent"):
        return "parent-fault-excluded", None
    if fault and fault[1] == "exit0":
        # A child calling exit(0) before reporting success is not one of the failures the property
        # lists (error, panic, allocation failure, signal), and wild has a deliberate instance of
        # it (save-dir's skip-linking mode). Enumerated and counted, never a verdict.
        return "child-exit0-excluded", None
    if st and not strace_took_effect(st, res):
        return "strace-not-exactly-one", None
    fired = bool(fault and res.get("fired"))
    bad = None
    if rc == 0 and not complete:
        bad = (f"exit status 0 but the output path holds "
               f"{'no file' if not ae['exists'] else 'a file that is not the complete output'}")
    elif rc == 0 and fired and res["before_unmap"]:
        bad = "exit status 0 although the fault hit the linking process before the output was unmapped"
    elif rc == 0 and res["settled"].get("sha") != ae.get("sha"):
        return "violation", (f"changed-after-exit:{mode}", f"{cfg} {label}: output complete at "
                             f"exit but changed afterwards", observed,
                             "the output is final when wild exits 0")
    if bad is None:
        if fault and not fired:
            return "fault-not-reached", None
        if rc == 0:
            return "ok-zero-complete", None
        return "ok-nonzero", None
    if scen:
        key = f"exit0:{mode}:error:{scen}"
    elif st and st["what"] == "signal=KILL" and case["fork"]:
        key = "fork+signal:kill9"
    elif st:
        key = f"exit0:{mode}:strace:{st['syscall']}:{st['what']}"
    elif not fired:
        key = f"exit0:{mode}:no-fault"
    elif fault[1] in fe.SIGNAL_FAULTS and case["fork"]:
        key = f"fork+signal:{fault[1]}"
    elif fault[1] == "panic" and case["fork"] and fe.RAYON_ABORT in res["stderr"]:
        # A panic inside a detached rayon task: rayon aborts the process (SIGABRT).
        key = "fork+signal:panic-abort"
    elif fault[1] == "exit0" and case["fork"]:
        key = "fork+child-exit0:no-done-byte"
    else:
        key = f"exit0:{mode}:{fault[1]}:{res.get('stage')}"
    if case.get("penv"):
        key += ":" + case["penv"]
    return "violation", (key, f"{cfg} {label}: {bad} (stderr: {res['stderr'][-120:]!r})",
                         observed, "non-zero exit status, or exit status 0 with the complete output")


def ld_ground_truth(base):
    """GNU ld on the same inputs: the error scenarios must have no valid output."""
    res = {}
    for prog in fe.PROGRAMS:
        for scen in ERROR_INPUT_SCENARIOS:
            case = dict(prog=prog, scenario=scen, fork=False, threads=1, wmode="default")
            out = os.path.join(base, f"ld.{prog}.{scen}.out")
            rc, _, _ = vlib.run(fe.ld_argv(case, out), cwd=base)
            res[(scen, prog)] = rc not in (0, "timeout")
    return res


def replay(chk, path):
    with open(path) as f:
        rec = json.load(f)
    rp = rec["replay"]
    with vlib.scratch("c17r") as base:
        fe.materialize(base)
        case = dict(rp["case"])
        if case.get("fault"):
            case["fault"] = tuple(case["fault"])
        base_case = {k: v for k, v in case.items() if k not in ("fault", "scenario", "strace", "id")}
        b = fe.run_case(dict(base_case, id="rb"))
        res = fe.run_case(dict(case, id="rr"))
        ld = ld_ground_truth(base)
        cls, v = judge(case, res, b["at_exit"].get("sha"), ld)
    print(f"replay {rec['key']}: argv={res['argv']} env={res['env']}")
    print(f"  recorded: {json.dumps(rp['observed'])[:400]}")
    print(f"  observed: exit_status={res['rc']} output_at_exit={res['at_exit']} class={cls}")
    if v:
        print(f"VIOLATION property=C17 replay={path}\n  key={v[0]} {v[1]}")
        sys.exit(vlib.EXIT_VIOLATION)
    print("not reproduced")
    sys.exit(vlib.EXIT_OK)


def main():
    chk = vlib.Check("C17", "fault_enumeration")
    if not chk.args.no_build:
        vlib.build("wild")
    if chk.args.replay:
        replay(chk, chk.args.replay)
    t0 = time.time()
    wall_cap = 800 if chk.thorough else 52
    threads = (4, 1) if chk.thorough else (4,)
    configs = [dict(prog=p, fork=f, threads=t, wmode="default", prior="absent")
               for t in threads for p in ("exe", "so") for f in (True, False)]
    with vlib.scratch("c17") as base:
        fe.materialize(base)
        cal = fe.calibrate()
        if [k for k in cal["unusable"] if k != "segv"]:
            chk.machinery(f"fault hooks do not behave as named: {cal}")
        ld = ld_ground_truth(base)
        try:
            info = fe.learn(configs, reps=3 if chk.thorough else 2)
        except fe.Machinery as ex:
            chk.machinery(str(ex))
        # --- plan, most informative first
        natural, firsts, rest = [], [], []
        for cfg in configs:
            for scen in fe.SCENARIOS:
                S = fe.SCENARIOS[scen]
                natural.append(dict(cfg, scenario=scen, prior=S.get("fixed_prior", "absent")))
            faults = fe.FAULTS if chk.thorough else QUICK_FAULTS
            for point in info[fe.cfg_key(cfg)]["points"]:
                first = fe.is_enter_first(point)
                if not chk.thorough and not first:
                    continue
                for fault in faults:
                    if fault == "exit0" and not cfg["fork"]:
                        continue    # the injected fault would itself be "exit status 0"
                    if fault in cal["unusable"]:
                        continue
                    c = dict(cfg, fault=(point, fault))
                    if fault == "segv" and cal["segv_external"]:
                        c["segv_external"] = True
                    (firsts if first else rest).append(c)
        # Inherited process environment x (natural errors, success, signal/panic faults at the
        # first points of the child) in fork mode.
        for cfg in configs:
            if not cfg["fork"] or cfg["threads"] != 4:
                continue
            for penv in ("sigchld-ignored", "stdio-closed"):
                natural.append(dict(cfg, penv=penv))
                for scen in fe.SCENARIOS:
                    S = fe.SCENARIOS[scen]
                    natural.append(dict(cfg, scenario=scen, penv=penv,
                                        prior=S.get("fixed_prior", "absent")))
                pts = [pt for pt in info[fe.cfg_key(cfg)]["points"] if fe.is_enter_first(pt)]
                for point in pts[::max(1, len(pts) // 6)][:6] + ["child:after-fork#1"]:
                    for fault in ("panic", "kill9", "abort"):
                        if fault in cal["unusable"]:
                            continue
                        firsts.append(dict(cfg, fault=(point, fault), penv=penv))
        st_cases, st_table = [], {}
        if chk.thorough:
            st_cfgs = [c for c in configs if c["threads"] == 4]
            try:
                st_cases, st_table = fe.strace_cases(st_cfgs, base)
            except fe.Machinery as ex:
                chk.machinery(str(ex))
        plan = natural + firsts + st_cases + rest
        results, not_run = fe.run_plan(plan, wall_cap, t0, seed=chk.seed,
                                       batch=500 if chk.thorough else 200)
        # --- evaluate
        classes = collections.Counter()
        by_fault = collections.defaultdict(collections.Counter)
        nontrivial = set()
        samples, sample_seen = [], set()
        viol = {}
        for case, res in results:
            sha = info[fe.cfg_key(dict(case, prior="absent"))]["sha"]
            cls, v = judge(case, res, sha, ld)
            classes[cls] += 1
            fault, scen, st = case.get("fault"), case.get("scenario"), case.get("strace")
            kind = (fault and fault[1]) or (scen and "error:" + scen) or (st and "strace") or "none"
            by_fault[f"{mode_name(case)}:{kind}"][cls if not v else "violation"] += 1
            if cls in ("ok-nonzero", "ok-zero-complete", "violation", "hang"):
                nontrivial.add((fe.cfg_name(case), json.dumps(fault or scen or st)))
            if (cls, kind) not in sample_seen and len(samples) < 12 and \
                    (fault is None or res.get("fired")):
                sample_seen.add((cls, kind))
                samples.append({"config": fe.cfg_name(case), "fault": fault, "scenario": scen,
                                "strace": st, "exit_status": res["rc"], "class": cls,
                                "stage": res.get("stage"),
                                "output_exists_at_exit": res["at_exit"]["exists"]})
            if v:
                key, what, observed, expected = v
                e = viol.setdefault(key, {"n": 0, "first": None, "cfgs": set()})
                e["n"] += 1
                e["cfgs"].add(fe.cfg_name(case))
                if e["first"] is None:
                    e["first"] = (what, fe.replay_record(case, res, observed, expected))
        for key, e in sorted(viol.items()):
            what, rec = e["first"]
            chk.violation(key, f"[{e['n']} cases in {len(e['cfgs'])} configurations] {what}", rec)
        npoints = {fe.key_name(k): len(v["points"]) for k, v in info.items()}
        chk.coverage = {
            "evaluations": len(results),
            "distinct_nontrivial": len(nontrivial),
            "rule": "one evaluation = one real wild process run in a fresh directory. Members: "
                    "(configuration, phase point learnt from the fault-free run of that "
                    "configuration, fault kind) + (configuration, natural error) + (thorough) "
                    "(configuration, syscall on the output path, occurrence, deviation). "
                    "Non-trivial = distinct member whose fault was observed (in the run's own "
                    "phase log) to fire in the linking process, or whose natural error / "
                    "deviation took effect, so that an oracle verdict was produced.",
            "samples": samples,
            "exhaustive": not_run == 0,
            "capped": not_run > 0, "members_not_run_because_of_wall_cap": not_run,
            "plan": {"natural_errors": len(natural), "faults_at_first_enter_points": len(firsts),
                     "faults_at_other_points": len(rest), "strace_deviations": len(st_cases)},
            "classes": dict(classes),
            "by_mode_and_fault": {k: dict(v) for k, v in sorted(by_fault.items())},
            "phase_points_per_configuration": npoints,
            "point_sets_stable": all(v["stable"] for v in info.values()),
            "violation_keys": {k: {"cases": e["n"], "configurations": sorted(e["cfgs"])}
                               for k, e in sorted(viol.items())},
            "ld_confirms_error_scenarios": {f"{s}/{p}": ok for (s, p), ok in sorted(ld.items())},
            "strace_syscalls_on_output_path": st_table,
            "fault_calibration": cal,
            "thinned": ("nothing" if chk.thorough else
                        "quick tier: threads=4 only; only the first occurrence of every enter / "
                        "explicit point (no exit points, no repeated occurrences); faults "
                        "panic, abort, kill9, exit0 (not segv, term, allocfail); no strace "
                        "deviations"),
            "excluded": "faults that fire in the fork-mode parent (counted as "
                        "parent-fault-excluded); exit0 in --no-fork mode (the fault is the status)",
        }
    chk.assumptions = [
        "the fault-free output of a configuration is the complete output (two runs agree)",
        "GNU ld failing on the same inputs is the ground truth that an error scenario has no "
        "valid output",
        "faults are injected only at phase points (timing-phase boundaries and the explicit "
        "hooks); strace deviations only on syscalls that touch the output path",
        "the hook's `segv` (raise(SIGSEGV)) is swallowed by the Rust runtime's SIGSEGV handler; "
        "when the calibration run shows that, SIGSEGV is sent from outside while the process is "
        "paused at the point (see fault_calibration)",
    ]
    chk.finish()


if __name__ == "__main__":
    main()
