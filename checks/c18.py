#!/usr/bin/env python3
"""C18 - A failed link leaves no output file produced by that link.

Exhaustive enumeration of failing links of the real wild process: every natural error, a panic at
every phase point, (thorough) every single syscall deviation on the output path, x prior state of
the output path {absent, older valid output, unrelated file, read-only file, an executable that
is being executed} x write mode
{default, --update-in-place, --no-update-in-place} x threads {1,4} x fork / no-fork.

Oracle (no linker involved): snapshot (exists, inode, size, mtime_ns, sha256) of the output path
before the link, when the started process exits, and after all of its descendants are gone.
    exit status != 0  =>  the path is absent, or its (inode, bytes, mtime) equal the pre-link snapshot.

Faults that kill the linking process with a signal (kill9, abort, segv, term, allocfail=abort, and
strace's SIGKILL) cannot run any clean-up: they are enumerated and counted in the class
`uncatchable`, never reported as violations. Panics and natural errors count.

Violation keys:  leftover-after:<cause>:<effect class>
  cause  = natural error name (script-assert, reloc-overflow, inputs-changed, ...)
         | panic@<stage>, stage = top-level phase open on the main thread when the panic was
           injected (Layout, Write output file, ...) or `post-write` after `exit:Write output file`
         | strace:<syscall>:<errno>
  effect class = new-file           created (nothing was there before) or replaced (another inode)
               | modified-in-place  rewritten (same inode, other bytes) or touched (same inode and
                                    bytes, other mtime)
Prior state, write mode, threads, fork mode and the exact effect of all occurrences are listed in
the message and in the evidence (`violation_keys`), not in the key: one missing clean-up is
2 effect classes x a few causes, and a leftover after any *other* cause is a new key.
"""
import collections
import json
import os
import sys
import time

sys.path.insert(0, os.path.join(os.path.dirname(os.path.abspath(__file__)), "..", "lib"))
import vlib
import faultenum as fe

UNCATCHABLE = ("kill9", "abort", "segv", "term", "allocfail")
EFFECT_CLASS = {"created": "new-file", "replaced": "new-file",
                "rewritten": "modified-in-place", "touched": "modified-in-place"}


def judge(case, res):
    """Returns (class, violation); violation = None or (key, what, observed, expected)."""
    rc = res["rc"]
    scen, fault, st = case.get("scenario"), case.get("fault"), case.get("strace")
    cfg = fe.cfg_name(case)
    label = scen or (fault and f"{fault[1]}@{fault[0]}") or \
        (st and f"strace:{st['syscall']}:{st['what']}:when={st['when']}") or "no-fault"
    if rc == "timeout":
        return "hang", None
    if fault and res.get("fired") and res.get("fired_in_parent"):
        return "parent-fault-excluded", None
    if fault and not res.get("fired"):
        return "fault-not-reached", None
    if st:
        kill = st["what"].startswith("signal=")
        if not (res.get("strace_killed") if kill else res.get("strace_injected") == 1):
            return "strace-not-exactly-one", None
    if rc == 0:
        return "exit-zero", None
    eff_exit = fe.effect(res["before"], res["at_exit"])
    eff = fe.effect(res["before"], res["settled"]) or eff_exit
    signal_fault = (fault and fault[1] in fe.SIGNAL_FAULTS) or \
        (st and st["what"].startswith("signal="))
    if signal_fault:
        kind = fault[1] if fault else "strace-KILL"
        return f"uncatchable:{kind}:{'leftover-' + eff if eff else 'clean'}", None
    if eff is None:
        return ("clean-untouched" if res["settled"]["exists"] else "clean-absent"), None
    if scen:
        cause = scen
    elif fault:
        cause = f"{fault[1]}@{'post-write' if res.get('after_write') else res.get('stage')}"
    else:
        cause = f"strace:{st['syscall']}:{st['what'].split('=')[-1]}"
    key = f"leftover-after:{cause}:{EFFECT_CLASS[eff]}"
    observed = {"exit_status": rc, "before": res["before"], "at_exit": res["at_exit"],
                "settled": res["settled"], "effect": eff, "stderr": res["stderr"],
                "stage": res.get("stage"), "fired_on_main_thread": res.get("fired_main")}
    what = (f"{cfg} {label}: exit status {rc}, but the output path was {eff} by this link "
            f"(before: {_short(res['before'])}; after: {_short(res['settled'])})")
    return "violation", (key, what, observed,
                         "output path absent, or (inode, bytes, mtime) equal to the pre-link snapshot")


def _short(s):
    if not s["exists"]:
        return "absent"
    return f"{s['type']} ino={s['ino']} size={s['size']} sha={str(s.get('sha'))[:8]} mode={s['mode']}"


def replay(chk, path):
    with open(path) as f:
        rec = json.load(f)
    rp = rec["replay"]
    with vlib.scratch("c18r") as base:
        fe.materialize(base)
        case = dict(rp["case"])
        if case.get("fault"):
            case["fault"] = tuple(case["fault"])
        res = fe.run_case(dict(case, id="rr"))
        cls, v = judge(case, res)
    print(f"replay {rec['key']}: argv={res['argv']} env={res['env']} prior={case['prior']}")
    print(f"  recorded: {json.dumps(rp['observed'])[:500]}")
    print(f"  observed: exit_status={res['rc']} before={_short(res['before'])} "
          f"after={_short(res['settled'])} class={cls}")
    if v:
        print(f"VIOLATION property=C18 replay={path}\n  key={v[0]} {v[1]}")
        sys.exit(vlib.EXIT_VIOLATION)
    print("not reproduced")
    sys.exit(vlib.EXIT_OK)


def cfgs(progs, forks, threads, wmodes, priors):
    return [dict(prog=p, fork=f, threads=t, wmode=w, prior=pr)
            for p in progs for f in forks for t in threads for w in wmodes for pr in priors]


def dedup(configs):
    seen, out = set(), []
    for c in configs:
        if fe.cfg_key(c) not in seen:
            seen.add(fe.cfg_key(c))
            out.append(c)
    return out


def main():
    chk = vlib.Check("C18", "fault_enumeration")
    if not chk.args.no_build:
        vlib.build("wild")
    if chk.args.replay:
        replay(chk, chk.args.replay)
    t0 = time.time()
    P4, W3 = fe.PRIORS, fe.WMODES
    if chk.thorough:
        wall_cap = 800
        # panic at EVERY phase point:
        panic_cfgs = dedup(
            cfgs(["exe"], [True], [4], W3, P4) +                           # full prior x mode
            cfgs(["so"], [True], [4], ["default"], P4) +
            cfgs(["so"], [True], [4], ["inplace"], ["absent", "older"]) +
            cfgs(["exe"], [False], [4], W3, ["older"]) +
            cfgs(["exe"], [False], [4], ["default"], ["absent"]) +
            cfgs(["so"], [False], [4], ["default"], ["absent", "older"]) +
            cfgs(["exe"], [True], [1], ["default"], ["absent", "older", "readonly"]) +
            cfgs(["exe"], [True], [1], ["inplace", "noinplace"], ["older"]) +
            cfgs(["so"], [True], [1], ["default"], ["absent", "older"]) +
            cfgs(["exe"], [False], [1], ["default"], ["older"]))
        panic_first_only = []
        natural_cfgs = cfgs(["exe", "so"], [True, False], [4, 1], W3, P4) + \
            cfgs(["exe", "so"], [True, False], [4, 1], W3, ["busy"])         # full product
        unc_cfgs = cfgs(["exe"], [False, True], [4], ["default"], ["older"])
        unc_faults, unc_all_points = UNCATCHABLE, True
        strace_cfgs = cfgs(["exe", "so"], [False], [4], W3, ["absent", "older"]) + \
            cfgs(["exe"], [True], [4], ["default"], ["older"])
        thinned = ("panic at every phase point in 32 of the 96 configurations: threads 4: "
                   "exe/fork x 4 priors x 3 modes; so/fork x default x 4 priors + inplace x "
                   "{absent, older} (--no-update-in-place is the default mode of shared "
                   "objects); exe/no-fork x "
                   "older x 3 modes + absent/default; so/no-fork x default x {absent, older}. "
                   "threads 1: exe/fork x default x {absent, older, readonly} + older x "
                   "{inplace, noinplace}; "
                   "so/fork x default x {absent, older}; exe/no-fork/default/older. Natural "
                   "errors: full product (96 configurations). Uncatchable faults: exe, threads "
                   "4, default mode, prior 'older': no-fork = kill9 at every point + the other 4 "
                   "at the first occurrence of every enter / explicit point; fork = kill9 at "
                   "first occurrences. strace deviations: no-fork, threads 4, 3 modes x {absent, "
                   "older}, both programs, + exe/fork/default/older.")
    else:
        wall_cap = 52
        # panic at the first occurrence of every enter / explicit point:
        panic_cfgs = []
        panic_first_only = dedup(
            cfgs(["exe"], [True], [4], ["default"], P4) +
            cfgs(["exe"], [True], [4], ["inplace", "noinplace"], ["older"]) +
            cfgs(["exe"], [False], [1], ["inplace", "noinplace"], ["older"]) +
            cfgs(["so"], [True], [4], ["default"], ["older"]))
        natural_cfgs = dedup(
            cfgs(["exe"], [True], [4, 1], W3, P4) +
            cfgs(["so"], [True], [4], ["default", "inplace"], P4) +
            cfgs(["exe"], [False], [4], ["default"], ["absent", "older"]) +
            cfgs(["exe"], [True, False], [4], ["default", "inplace"], ["busy"]))
        unc_cfgs = cfgs(["exe"], [False], [4], ["default"], ["older"])
        unc_faults, unc_all_points = ("kill9",), False
        strace_cfgs = []
        thinned = ("quick tier: panic only at the first occurrence of every enter / explicit "
                   "point (no exit points, no repeats), in 9 of the 96 configurations: "
                   "exe/fork/t4/default x 4 priors, exe/fork/t4 x {inplace, noinplace} x older, "
                   "exe/no-fork/t1 x {inplace, noinplace} x older, so/fork/t4/default/older. Natural errors: the 3 that fail after "
                   "the output was created run in 34 configurations (exe/fork: full prior x "
                   "mode x threads; so/fork/t4: 4 priors x {default, inplace}; exe/no-fork/t4/"
                   "default x {absent, older}); the 7 early ones only in exe+so/fork/t4 x {default, inplace} x "
                   "{absent, older} and exe/t4 x {default, inplace} x busy (an executable that is running). Uncatchable: kill9 only, first-occurrence points, "
                   "exe/no-fork/t4/default/older. No strace deviations.")
    with vlib.scratch("c18") as base:
        fe.materialize(base)
        cal = fe.calibrate()
        if [k for k in cal["unusable"] if k != "segv"]:
            chk.machinery(f"fault hooks do not behave as named: {cal}")
        fault_cfgs = dedup(panic_cfgs + panic_first_only + unc_cfgs)
        try:
            info = fe.learn(fault_cfgs, reps=2)
        except fe.Machinery as ex:
            chk.machinery(str(ex))
        natural, panics, unc = [], [], []
        for cfg in natural_cfgs:
            for scen, S in fe.SCENARIOS.items():
                if "fixed_prior" in S:
                    if cfg["prior"] != "absent":
                        continue        # these scenarios define the prior state themselves
                    natural.append(dict(cfg, scenario=scen, prior=S["fixed_prior"]))
                elif chk.thorough or S["late"] or \
                        (cfg["wmode"] in ("default", "inplace") and cfg["threads"] == 4 and
                         (cfg["fork"] or cfg["prior"] == "busy") and
                         cfg["prior"] in ("absent", "older", "busy")):
                    natural.append(dict(cfg, scenario=scen))
        for cfg in panic_cfgs:
            for point in info[fe.cfg_key(cfg)]["points"]:
                panics.append(dict(cfg, fault=(point, "panic")))
        for cfg in panic_first_only:
            for point in info[fe.cfg_key(cfg)]["points"]:
                if fe.is_enter_first(point):
                    panics.append(dict(cfg, fault=(point, "panic")))
        for cfg in unc_cfgs:
            for point in info[fe.cfg_key(cfg)]["points"]:
                first = fe.is_enter_first(point)
                # (in fork mode these runs exit 0 today - see C17 - so only first occurrences)
                if (unc_all_points and not cfg["fork"]) or first:
                    for fault in unc_faults:
                        if fault in cal["unusable"]:
                            continue
                        if fault != "kill9" and (cfg["fork"] or not first):
                            continue
                        c = dict(cfg, fault=(point, fault))
                        if fault == "segv" and cal["segv_external"]:
                            c["segv_external"] = True
                        unc.append(c)
        st_cases, st_table = [], {}
        if strace_cfgs:
            try:
                st_cases, st_table = fe.strace_cases(strace_cfgs, base)
            except fe.Machinery as ex:
                chk.machinery(str(ex))
        plan = natural + st_cases + panics + unc
        results, not_run = fe.run_plan(plan, wall_cap, t0, seed=chk.seed,
                                       batch=500 if chk.thorough else 200)
        # --- evaluate
        classes = collections.Counter()
        uncatchable = collections.defaultdict(collections.Counter)
        nontrivial = set()
        matrix = collections.defaultdict(collections.Counter)   # natural error -> outcome per cfg
        samples, viol = [], {}
        sample_classes = set()
        for case, res in results:
            cls, v = judge(case, res)
            fault, scen, st = case.get("fault"), case.get("scenario"), case.get("strace")
            if cls.startswith("uncatchable:"):
                _, kind, outcome = cls.split(":", 2)
                uncatchable[kind][outcome] += 1
                classes["uncatchable"] += 1
            else:
                classes[cls] += 1
            if res["rc"] not in (0, "timeout") and cls not in ("parent-fault-excluded",
                                                              "strace-not-exactly-one"):
                nontrivial.add((fe.cfg_name(case), json.dumps(fault or scen or st)))
            if scen:
                matrix[scen][cls if not v else v[2]["effect"]] += 1
            if cls not in sample_classes and len(samples) < 10:
                sample_classes.add(cls)
                samples.append({"config": fe.cfg_name(case), "fault": fault, "scenario": scen,
                                "strace": st, "exit_status": res["rc"], "class": cls,
                                "before": _short(res["before"]), "after": _short(res["settled"])})
            if v:
                key, what, observed, expected = v
                e = viol.setdefault(key, {"n": 0, "first": None, "cfgs": collections.Counter(),
                                          "effects": collections.Counter()})
                e["n"] += 1
                e["effects"][observed["effect"]] += 1
                e["cfgs"][fe.cfg_name(case)] += 1
                # Prefer a replay in the most ordinary configuration.
                rank = (case["wmode"] != "default", not case["fork"], case["threads"] != 4,
                        case["prog"] != "exe")
                if e["first"] is None or rank < e["first"][0]:
                    e["first"] = (rank, what, fe.replay_record(case, res, observed, expected))
        for key, e in sorted(viol.items()):
            _, what, rec = e["first"]
            dims = collections.Counter()
            for c in e["cfgs"]:
                prog, fk, th, wm, pr = c.split("/")
                dims[f"prior={pr}"] += 1
                dims[f"mode={wm}"] += 1
            chk.violation(key, f"[{e['n']} cases in {len(e['cfgs'])} configurations: "
                               f"{dict(e['effects'])} {dict(dims)}] {what}", rec)
        chk.coverage = {
            "evaluations": len(results),
            "distinct_nontrivial": len(nontrivial),
            "rule": "one evaluation = one real wild process run in a fresh directory with the "
                    "stated prior state of the output path. Members: (configuration, natural "
                    "error) + (configuration, phase point of that configuration's fault-free "
                    "run, panic | uncatchable fault) + (thorough) (configuration, syscall on the "
                    "output path, occurrence, deviation). Non-trivial = distinct member that "
                    "really exited non-zero with the fault observed in the linking process (the "
                    "antecedent of the property holds).",
            "samples": samples,
            "exhaustive": not_run == 0,
            "capped": not_run > 0, "members_not_run_because_of_wall_cap": not_run,
            "plan": {"natural_errors": len(natural), "panics": len(panics),
                     "uncatchable_faults": len(unc), "strace_deviations": len(st_cases),
                     "configurations_with_faults": len(fault_cfgs),
                     "configurations_with_natural_errors": len(natural_cfgs)},
            "classes": dict(classes),
            "uncatchable": {k: dict(v) for k, v in sorted(uncatchable.items())},
            "natural_error_outcomes": {k: dict(v) for k, v in sorted(matrix.items())},
            "violation_keys": {k: {"cases": e["n"], "effects": dict(e["effects"]),
                                   "configurations": dict(e["cfgs"])}
                               for k, e in sorted(viol.items())},
            "strace_syscalls_on_output_path": st_table,
            "fault_calibration": cal,
            "point_sets_stable": all(v["stable"] for v in info.values()),
            "configurations_whose_fault_free_link_fails": sorted(
                fe.key_name(k) for k, v in info.items() if v["baseline_fails"]),
            "thinned": thinned,
            "excluded": "faults that fire in the fork-mode parent (parent-fault-excluded); runs "
                        "that exit 0 (antecedent false; in fork mode this includes every child "
                        "killed by a signal, see C17)",
            "prior_state_readonly": f"run as uid {fe.UNPRIV} so that permissions are enforced",
        }
    chk.assumptions = [
        "the property is about what is at the output path; `<output>.delete` and other files "
        "are C19's business",
        "an inode number is not reused within one run (tmpfs allocates them monotonically)",
        "faults are injected only at phase points; strace deviations only on syscalls that "
        "touch the output path",
    ]
    chk.finish()


if __name__ == "__main__":
    main()
