#!/usr/bin/env python3
"""C19 - A link touches only its declared outputs.

Fault / history enumeration (family F, `dirsnapshot`). Every member of a stated product of
configurations is run as a REAL wild process (the property is about the files a wild process
touches) in a private scratch tree:

    <case>/in/    the input objects (mtime one hour in the past)
    <case>/w/     the working directory: prior output, look-alike siblings, bystanders
    <case>/tmp/   $TMPDIR for the link (must stay empty)

A full recursive snapshot (names, file types, link counts, sha256, mtimes, symlink targets) is taken
before the link and after the link *and every process it forked* has exited. Oracle: the set of
created / modified / deleted paths is a subset of {output path} + the side files the options ask
for. Everything else is a violation, keyed by the role of the touched path.

Part A  product of single links (names x siblings x side files x prior x mode x threads x outcome x
        kind); quick tier thins it (see `quick_cases`), thorough tier runs all of it.
Part B  two concurrent links whose outputs share a stem (foo.x / foo.y), driven through the pause
        points around the background file creator; all orders of the steps that touch the shared
        name `foo.delete`.
Part D  (thorough) an injected panic at the first passage of every phase point the main thread
        passes (learned from the phase log of the same case), for four write-path configurations.
Part C  one link with the background "remove old output" task held back until the process exits,
        and an injected crash at each creator point (the histories in which the renamed old output
        can be left behind).
"""
import itertools
import json
import os
import shutil
import stat
import subprocess
import sys
import time

sys.path.insert(0, os.path.join(os.path.dirname(os.path.abspath(__file__)), "..", "lib"))
import vlib
from liverun import spawn_wild, wait_all_exited, run_wild

# ------------------------------------------------------------------------------------------------
# Programs

SRC_NEW = """
.section .text._start,"ax",@progbits
.globl _start
_start:
  lea keepme(%rip), %rax
  mov $60,%eax
  xor %edi,%edi
  syscall
.section .text.unused,"ax",@progbits
.globl unused_fn
unused_fn:
  ret
.section .data.keep,"aw",@progbits
keepme:
  .long 0x19191919
"""

# An older, larger program: what the prior output holds.
SRC_OLD = """
.section .text._start,"ax",@progbits
.globl _start
_start:
  lea oldblob(%rip), %rax
  mov $60,%eax
  mov $7,%edi
  syscall
.section .data.old,"aw",@progbits
oldblob:
  .fill 6000, 1, 0x4f
"""

# Natural error found during layout (before the output file is created).
SRC_UNDEF = """
.section .text._start,"ax",@progbits
.globl _start
_start:
  call nosuch_symbol_c19
  mov $60,%eax
  xor %edi,%edi
  syscall
"""

# Natural error found while writing (after the output file has been created): a 32-bit absolute
# relocation against a --defsym value that does not fit.
SRC_OVERFLOW = """
.section .text._start,"ax",@progbits
.globl _start
_start:
  lea keepme(%rip), %rax
  mov $60,%eax
  xor %edi,%edi
  syscall
.section .data.keep,"aw",@progbits
keepme:
  .long bigabs_c19
"""

SOURCES = {"new.o": SRC_NEW, "old.o": SRC_OLD, "undef.o": SRC_UNDEF, "overflow.o": SRC_OVERFLOW}

NAMES = ["out", "out.so", "libx.so.1", "a.b.c", ".hidden", "dir.d/out"]
SIB_SINGLE = ["stem.delete", "name.delete", "stem.tmp", "name~", "stem.txt"]
SIBS_FULL = ["none"] + SIB_SINGLE + ["symlink", "hardlink"]
SIBS_PACKED = ["none", "pack", "symlink", "hardlink"]
SIDES = ["none", "depfile", "layout+trace", "gcstats", "savedir"]
PRIORS = ["absent", "present"]
MODES = ["default", "inplace", "unlink"]
THREADS = [1, 4]
OUTCOMES = ["ok", "err-early", "err-late", "panic"]
KINDS = ["exe", "shared"]
FORKS = ["fork", "nofork"]
PANIC_POINT = "enter:Write data to file"   # main thread; the output file exists by then

MODE_FLAG = {"default": [], "inplace": ["--update-in-place"], "unlink": ["--no-update-in-place"]}


# ------------------------------------------------------------------------------------------------
# Path arithmetic as done by Rust's std::path (what wild uses to derive names)

def split_name(path):
    d, _, n = path.rpartition("/")
    return (d + "/" if d else ""), n


def rust_stem_ext(name):
    """(file_stem, extension or None) of a file name, as std::path::Path computes them."""
    if name == "..":
        return name, None
    i = name.rfind(".")
    if i <= 0:
        return name, None
    return name[:i], name[i + 1:]


def with_extension(path, ext):
    d, n = split_name(path)
    stem, _ = rust_stem_ext(n)
    return d + stem + ("." + ext if ext else "")


def layout_path(out):
    return out + ".layout"          # linker_layout::layout_path: always appends


def trace_path(out):
    _, n = split_name(out)
    _, ext = rust_stem_ext(n)
    return with_extension(out, (ext or "") + ".trace")   # linker_trace::trace_path


def sibling_paths(name):
    """role -> path (relative to w/) of the look-alike siblings of output `name`."""
    return {"<stem>.delete": with_extension(name, "delete"),
            "<name>.delete": name + ".delete",
            "<stem>.tmp": with_extension(name, "tmp"),
            "<name>~": name + "~",
            "<stem>.txt": with_extension(name, "txt")}


SIB_ROLE = {"stem.delete": "<stem>.delete", "name.delete": "<name>.delete",
            "stem.tmp": "<stem>.tmp", "name~": "<name>~", "stem.txt": "<stem>.txt"}


# ------------------------------------------------------------------------------------------------
# Snapshots

def snapshot(root):
    """path (relative) -> record. Never follows symlinks."""
    snap = {}

    def walk(d, rel):
        with os.scandir(d) as it:
            entries = sorted(it, key=lambda e: e.name)
        for e in entries:
            p = os.path.join(d, e.name)
            r = rel + e.name
            st = os.lstat(p)
            if stat.S_ISDIR(st.st_mode):
                snap[r] = ("d", st.st_mode & 0o7777, st.st_mtime_ns)
                walk(p, r + "/")
            elif stat.S_ISLNK(st.st_mode):
                snap[r] = ("l", os.readlink(p), st.st_mtime_ns)
            elif stat.S_ISREG(st.st_mode):
                snap[r] = ("f", st.st_nlink, st.st_size, vlib.file_sha(p), st.st_mtime_ns,
                           st.st_mode & 0o7777, st.st_ino)
            else:
                snap[r] = ("o", st.st_mode, st.st_mtime_ns)

    walk(root, "")
    return snap


def describe(rec):
    if rec is None:
        return "absent"
    if rec[0] == "f":
        return f"file(nlink={rec[1]},size={rec[2]},sha={rec[3][:10]},ino={rec[6]})"
    if rec[0] == "l":
        return f"symlink->{rec[1]}"
    if rec[0] == "d":
        return "dir"
    return "other"


def diff_snap(before, after, ignore_dir_mtime_of=()):
    """List of (path, change, detail). change: created | deleted | content | type | nlink | mtime |
    mode. Directory mtimes are compared only for directories in which nothing may legitimately be
    created (callers pass the others in `ignore_dir_mtime_of`)."""
    out = []
    for p in sorted(set(before) | set(after)):
        b, a = before.get(p), after.get(p)
        if b is None:
            out.append((p, "created", describe(a)))
        elif a is None:
            out.append((p, "deleted", describe(b)))
        elif b[0] != a[0]:
            out.append((p, "type", f"{describe(b)} => {describe(a)}"))
        elif b[0] == "f":
            if b[3] != a[3] or b[2] != a[2]:
                out.append((p, "content", f"{describe(b)} => {describe(a)}"))
            elif b[6] != a[6]:
                out.append((p, "replaced", f"{describe(b)} => {describe(a)}"))
            elif b[4] != a[4]:
                out.append((p, "mtime", f"{b[4]} => {a[4]}"))
            elif b[1] != a[1]:
                out.append((p, "nlink", f"{b[1]} => {a[1]}"))
            elif b[5] != a[5]:
                out.append((p, "mode", f"{oct(b[5])} => {oct(a[5])}"))
        elif b[0] == "l":
            if b[1] != a[1]:
                out.append((p, "content", f"{describe(b)} => {describe(a)}"))
        elif b[0] == "d":
            if p not in ignore_dir_mtime_of and b[2] != a[2]:
                out.append((p, "dir-mtime", "directory entries changed"))
            elif b[1] != a[1]:
                out.append((p, "mode", f"{oct(b[1])} => {oct(a[1])}"))
    return out


# ------------------------------------------------------------------------------------------------
# One case of part A

_OLD = {}


def old_output(kind, base):
    """Bytes of an older output of the given kind (linked once per process, by wild itself)."""
    if kind not in _OLD:
        d = os.path.join(base, f"old.{kind}.{os.getpid()}")
        os.makedirs(d, exist_ok=True)
        obj = vlib.assemble(SRC_OLD)
        argv = (["-shared"] if kind == "shared" else []) + [obj, "-o", "old.out", "--no-fork"]
        rc, _, err = run_wild(argv, d, {})
        if rc != 0:
            raise RuntimeError(f"cannot link the old output: {rc} {err!r}")
        with open(os.path.join(d, "old.out"), "rb") as f:
            _OLD[kind] = f.read()
        shutil.rmtree(d, ignore_errors=True)
    return _OLD[kind]


def write_file(path, data, mode=0o644, age=3600):
    with open(path, "wb") as f:
        f.write(data if isinstance(data, bytes) else data.encode())
    os.chmod(path, mode)
    t = time.time() - age
    os.utime(path, (t, t), follow_symlinks=False)


def effective_mode(case, w):
    """The FileWriteMode wild's documented rules select (file_writer.rs default_file_write_mode)."""
    if case["mode"] == "unlink":
        return "unlink"
    if case["mode"] == "inplace":
        return "inplace"
    if case["kind"] == "shared":
        return "unlink"
    return "inplace" if os.path.exists(os.path.join(w, case["name"])) else "unlink"


def case_command(case):
    """(argv, env additions, input object names) for a case; paths relative to w/."""
    outcome = case["outcome"]
    obj = {"ok": "new.o", "panic": "new.o", "err-early": "undef.o", "err-late": "overflow.o"}[outcome]
    argv = []
    if case["kind"] == "shared":
        argv += ["-shared", "-z", "defs"]
    argv += ["../in/" + obj, "-o", case["name"], f"--threads={case['threads']}"]
    argv += MODE_FLAG[case["mode"]]
    if outcome == "err-late":
        argv += ["--defsym=bigabs_c19=0x123456789"]
    if case.get("fork", "fork") == "nofork":
        argv += ["--no-fork"]
    env = {}
    side = case["side"]
    if side == "depfile":
        argv += ["--dependency-file=link.d"]
    elif side == "layout+trace":
        env["WILD_WRITE_LAYOUT"] = "1"
        env["WILD_WRITE_TRACE"] = "1"
    elif side == "gcstats":
        argv += ["--write-gc-stats=gc.txt"]
    elif side == "savedir":
        env["WILD_SAVE_DIR"] = "sd"
    if outcome == "panic":
        env["WILD_VERIF_AT"] = case.get("panic_at", PANIC_POINT)
        env["WILD_VERIF_DO"] = case.get("panic_do", "panic")
    return argv, env, [obj]


def allowed_paths(case):
    """Paths (relative to w/) the options of this case entitle wild to create / modify / delete.
    Returns (set of exact paths, tuple of directory prefixes)."""
    name = case["name"]
    exact = {name}
    prefixes = ()
    side = case["side"]
    if side == "depfile":
        exact.add("link.d")
    elif side == "layout+trace":
        exact.add(layout_path(name))
        exact.add(trace_path(name))
    elif side == "gcstats":
        exact.add("gc.txt")
    elif side == "savedir":
        exact.add("sd")
        prefixes = ("sd/",)
    return exact, prefixes


def setup_case(case, root, base):
    """Create the scratch tree. Returns dict with role map."""
    w, ind, tmp = (os.path.join(root, x) for x in ("w", "in", "tmp"))
    for d in (w, ind, tmp, os.path.join(w, "sub"), os.path.join(w, "dir.d")):
        os.makedirs(d)
    for n, src in SOURCES.items():
        shutil.copyfile(vlib.assemble(src), os.path.join(ind, n))
        t = time.time() - 3600
        os.utime(os.path.join(ind, n), (t, t))
    name = case["name"]
    roles = {}
    # Bystanders that resemble nothing.
    write_file(os.path.join(w, "bystander.txt"), "bystander\n")
    write_file(os.path.join(w, "sub", "inner.txt"), "inner\n")
    write_file(os.path.join(w, "dir.d", "other.bin"), "other\n")
    roles.update({"bystander.txt": "bystander", "sub/inner.txt": "bystander",
                  "dir.d/other.bin": "bystander", "sub": "bystander-dir"})
    sib = case["sibling"]
    sp = sibling_paths(name)
    want = []
    if sib == "pack":
        want = list(sp)
    elif sib in SIB_ROLE:
        want = [SIB_ROLE[sib]]
    for role in want:
        p = sp[role]
        if p not in roles:
            write_file(os.path.join(w, p), f"SENTINEL {role} of {name}\n")
            roles[p] = role
    old = old_output(case["kind"], base) if case["prior"] == "present" else None
    outp = os.path.join(w, name)
    if sib == "symlink":
        # The output path is a symlink to a sentinel file (which holds the prior output, or is
        # missing when there is no prior output).
        os.symlink("sentinel.bin", outp)
        tgt = os.path.join(os.path.dirname(outp), "sentinel.bin")
        if old is not None:
            write_file(tgt, old, 0o755)
        roles[os.path.relpath(tgt, w)] = "symlink-target"
    elif old is not None:
        write_file(outp, old, 0o755)
        if sib == "hardlink":
            os.link(outp, os.path.join(w, "hl.bin"))
            roles["hl.bin"] = "hardlink"
    # Age the directories too, so that a directory mtime change is attributable to the link.
    t = time.time() - 3600
    for d in (os.path.join(w, "sub"), os.path.join(w, "dir.d"), ind, tmp, w):
        os.utime(d, (t, t))
    return {"w": w, "in": ind, "tmp": tmp, "roles": roles, "old": old}


def role_of(path, roles, name=None):
    if path in roles:
        return roles[path]
    if name is not None:
        for role, p in sibling_paths(name).items():
            if p == path:
                return role
    n = path.rsplit("/", 1)[-1]
    for suffix in (".delete", ".tmp", ".layout", ".trace", "~"):
        if n.endswith(suffix):
            return "*" + suffix
    return "other"


def evaluate(case, ctx, before, after, rc, stderr):
    """Returns (violations [(key, what)], counters dict, touched list)."""
    w = ctx["w"]
    name = case["name"]
    exact, prefixes = allowed_paths(case)
    viol, counts = [], {}
    eff = ctx["eff"]
    outcome = case["outcome"]
    # Directories whose entry list may change legitimately: parents of allowed paths.
    okdirs = set()
    for p in exact:
        okdirs.add(p.rpartition("/")[0])
    touched = []
    for area in ("w", "in", "tmp"):
        d = diff_snap(before[area], after[area], ignore_dir_mtime_of=okdirs if area == "w" else ())
        for path, change, detail in d:
            touched.append(f"{area}/{path}:{change}")
            if area == "in":
                if change == "nlink" and case["side"] == "savedir":
                    counts["input_nlink_by_savedir"] = 1   # save-dir hard-links its copies
                    continue
                viol.append((f"input-touched:{change}:mode={eff}",
                             f"input file in/{path} {change}: {detail}"))
                continue
            if area == "tmp":
                viol.append((f"leftover:TMPDIR:mode={eff}:outcome={outcome}",
                             f"file left in $TMPDIR: tmp/{path} {change}: {detail}"))
                continue
            if path in exact or any(path.startswith(pre) for pre in prefixes):
                continue
            role = role_of(path, ctx["roles"], name)
            if role == "hardlink":
                # Another name of the OLD OUTPUT's inode. Losing a link is inherent in replacing the
                # output. A content change means wild rewrote the old inode in place: the file
                # that changed IS the (old) output file, seen through its other name. GNU ld and
                # lld unlink first and never do this; whether it breaches the statement depends on
                # reading "file" as a path or as an inode, so it is counted, not raised.
                if change == "nlink":
                    continue
                counts[f"alias:hardlink-rewritten-in-place:mode={eff}"] = 1
                continue
            if role == "symlink-target":
                # The file the output symlink pointed at. Same reasoning: counted, not raised.
                counts[f"alias:symlink-written-through:mode={eff}:{change}"] = 1
                continue
            if change == "created":
                old = ctx["old"]
                same_as_old = (old is not None and after["w"][path][0] == "f"
                               and after["w"][path][3] == vlib.sha(old))
                what = (f"stray file w/{path} left behind ({detail})"
                        + ("; it holds the renamed old output" if same_as_old else ""))
                # Since the fix for the <stem>.delete clobbering, the old output is renamed to
                # `<output>.<pid>.delete` before it is removed.
                import re as _re
                renamed_old = _re.fullmatch(_re.escape(os.path.basename(name)) + r"\.\d+\.delete",
                                            os.path.basename(path)) is not None
                if renamed_old:
                    role = "<renamed-old-output>"
                if (same_as_old and role == "<stem>.delete") or renamed_old:
                    # The old output, renamed by the background creator and never removed.
                    cause = case.get("cause") or (
                        "crash-before-remove-task" if outcome == "panic" else
                        "exit-before-remove-task")
                    if cause == "crash-before-remove-task":
                        # An injected crash (a panic on a rayon worker aborts the process; one on
                        # the main thread races with the remove task): no cleanup can be
                        # demanded of a crashed process. Counted, like DESIGN's `uncatchable`.
                        counts[f"crash-leftover:{role}:mode={eff}"] = 1
                    else:
                        viol.append((f"leftover:{role}:mode={eff}:{cause}", what))
                else:
                    viol.append((f"leftover:{role}:mode={eff}:outcome={outcome}", what))
            elif change == "deleted":
                viol.append((f"sibling-clobbered:{role}:mode={eff}",
                             f"pre-existing file w/{path} ({detail}) no longer exists after "
                             f"linking -o {name}"))
            elif change == "dir-mtime":
                viol.append((f"dir-touched:{role}:mode={eff}",
                             f"entries of directory w/{path} changed"))
            else:
                old = ctx["old"]
                rec = after["w"][path]
                if (role == "<stem>.delete" and old is not None and rec[0] == "f"
                        and rec[3] == vlib.sha(old)):
                    # Same destruction as the deleted sibling, seen when the process ended
                    # between the rename and the background remove: the sibling's bytes were
                    # replaced by the renamed old output.
                    viol.append((f"sibling-clobbered:{role}:mode={eff}",
                                 f"pre-existing file w/{path} was overwritten by the renamed old "
                                 f"output of -o {name} ({detail})"))
                else:
                    viol.append((f"sibling-modified:{role}:{change}:mode={eff}",
                                 f"pre-existing file w/{path} {change}: {detail}"))
    # Sanity of the harness itself (not verdicts): outcome as planned.
    planned_ok = outcome == "ok"
    if case.get("any_rc") and not isinstance(rc, str):
        return viol, counts, touched
    if planned_ok and rc != 0:
        counts["MACHINERY"] = f"case planned to succeed exited {rc}: {stderr[-300:]!r}"
    if not planned_ok and rc == 0:
        counts["MACHINERY"] = f"case planned to fail ({outcome}) exited 0"
    if isinstance(rc, str):
        counts["MACHINERY"] = f"wild did not finish: {rc}"
    return viol, counts, touched


def run_case(arg):
    case, base = arg
    root = os.path.join(base, f"c.{os.getpid()}")
    shutil.rmtree(root, ignore_errors=True)
    os.makedirs(root)
    try:
        ctx = setup_case(case, root, base)
        ctx["eff"] = effective_mode(case, ctx["w"])
        argv, env, _ = case_command(case)
        env["TMPDIR"] = ctx["tmp"]
        before = {a: snapshot(ctx[a]) for a in ("w", "in", "tmp")}
        rc, out, err = run_wild(argv, ctx["w"], env)
        after = {a: snapshot(ctx[a]) for a in ("w", "in", "tmp")}
        viol, counts, touched = evaluate(case, ctx, before, after, rc,
                                         err.decode("utf-8", "replace"))
        return {"case": case, "rc": rc, "viol": viol, "counts": counts, "touched": touched,
                "eff": ctx["eff"], "argv": argv,
                "env": {k: v for k, v in env.items() if k != "TMPDIR"},
                "stderr": err.decode("utf-8", "replace")[-300:]}
    finally:
        shutil.rmtree(root, ignore_errors=True)


# ------------------------------------------------------------------------------------------------
# Enumeration of part A

def applicable(case):
    # A hard link to the old output needs an old output.
    if case["sibling"] == "hardlink" and case["prior"] == "absent":
        return False
    return True


def make_case(name, sibling, side, prior, mode, threads, outcome, kind, fork="fork"):
    return dict(name=name, sibling=sibling, side=side, prior=prior, mode=mode, threads=threads,
                outcome=outcome, kind=kind, fork=fork)


def dedup_cases(cases):
    """Siblings that coincide for a name (e.g. <stem>.delete == <name>.delete for `out`) are one
    case."""
    seen, out = set(), []
    for c in cases:
        sib = c["sibling"]
        if sib in SIB_ROLE:
            sp = sibling_paths(c["name"])
            sibkey = sp[SIB_ROLE[sib]]
        else:
            sibkey = "@" + sib
        k = (c["name"], sibkey, c["side"], c["prior"], c["mode"], c["threads"], c["outcome"],
             c["kind"], c["fork"])
        if k in seen:
            continue
        seen.add(k)
        out.append(c)
    return out


def thorough_cases():
    """Stages, in the order they are run (so that a run cut short by the wall cap is still broad):
    1 the quick set; 2 the FULL product of all axes, the five name-like siblings being present
    together in one directory (sibling axis = none / pack / symlink / hardlink); 3 each name-like
    sibling alone x name x prior x mode x threads x kind x the outcomes that reach the file writer,
    side-file option rotated; 4 --no-fork, write-path axes in full and the rest rotated."""
    staged = [(1, c) for c in rotated_cases(FORKS, per_core=1)]
    staged += [(2, make_case(*t)) for t in itertools.product(
        NAMES, SIBS_PACKED, SIDES, PRIORS, MODES, THREADS, OUTCOMES, KINDS)]
    i = 0
    for name, sib, prior, mode, th, kind in itertools.product(
            NAMES, SIB_SINGLE, PRIORS, MODES, THREADS, KINDS):
        for outcome in ("ok", "err-late", "panic"):
            staged.append((3, make_case(name, sib, SIDES[i % len(SIDES)], prior, mode, th, outcome,
                                        kind)))
            i += 1
    staged += [(4, c) for c in rotated_cases(["nofork"], per_core=2)]
    for st, c in staged:
        c["stage"] = st
    out = []
    for st in (1, 2, 3, 4):
        out += spread([c for s_, c in staged if s_ == st])
    return dedup_cases([c for c in out if applicable(c)])


def rotated_cases(forks, per_core):
    """Full product of the axes that select the write path (sibling x prior x mode x threads x kind
    x fork) and of the output name; the (side, outcome) pair is rotated so that every
    (side, outcome), (name, side), (name, outcome) combination occurs, and each core combination
    meets `per_core` different (side, outcome) pairs per name."""
    so = list(itertools.product(SIDES, OUTCOMES))   # 20 pairs
    cases = []
    for ci, core in enumerate(itertools.product(SIBS_PACKED, PRIORS, MODES, THREADS, KINDS, forks)):
        sib, prior, mode, th, kind, fork = core
        for ni, name in enumerate(NAMES):
            for k in range(per_core):
                side, outcome = so[(ci * 7 + ni * 3 + k * 11) % len(so)]
                cases.append(make_case(name, sib, side, prior, mode, th, outcome, kind, fork))
    return cases


def spread(cases):
    """A fixed permutation (stride) of the enumeration order, so that a run that hits its wall
    cap has still met every value of every axis. Not a sample: every member is run when no cap is
    hit."""
    n = len(cases)
    stride = next(p for p in (389, 397, 401, 409, 419, 421) if n % p)
    return [cases[(i * stride) % n] for i in range(n)]


def quick_cases():
    cases = spread(rotated_cases(FORKS, per_core=1))
    for c in cases:
        c["stage"] = 1
    return dedup_cases([c for c in cases if applicable(c)])


# ------------------------------------------------------------------------------------------------
# Part B: two concurrent links sharing a stem, and part C: the remove task vs process exit

def read_phaselog(path):
    ev = []
    try:
        with open(path) as f:
            for line in f:
                parts = line.rstrip("\n").split("\t")
                if len(parts) >= 2:
                    ev.append((parts[0].split("#")[0], parts[1]))
    except OSError:
        pass
    return ev


def wait_for(path, timeout=30):
    t0 = time.time()
    while not os.path.exists(path):
        if time.time() - t0 > timeout:
            return False
        time.sleep(0.002)
    return True


def setup_shared_dir(root, base, outs, kind, present):
    w, ind, tmp = (os.path.join(root, x) for x in ("w", "in", "tmp"))
    for d in (w, ind, tmp):
        os.makedirs(d)
    for n, src in SOURCES.items():
        shutil.copyfile(vlib.assemble(src), os.path.join(ind, n))
    write_file(os.path.join(w, "bystander.txt"), "bystander\n")
    old = old_output(kind, base)
    for o, pres in zip(outs, present):
        if pres:
            # Distinguishable old outputs.
            write_file(os.path.join(w, o), old + f"OLD:{o}".encode(), 0o755)
    return w, ind, tmp, old


def run_pair(arg):
    """run_pair_once, retried when the machine was too slow for the pause protocol."""
    r = None
    for _ in range(3):
        r = run_pair_once(arg)
        if not r["machinery"]:
            break
    return r


def run_pair_once(arg):
    """One history of two concurrent links foo.x / foo.y. spec: points (pause point of each link or
    None), first (which link is started first and allowed to reach its pause point first),
    release (order in which the links are released; the first released link runs to its end before
    the other is released when `serial` is set)."""
    spec, base = arg
    root = os.path.join(base, f"p.{os.getpid()}")
    shutil.rmtree(root, ignore_errors=True)
    os.makedirs(root)
    try:
        outs = ["foo.x", "foo.y"]
        kind = spec["kind"]
        w, ind, tmp, old = setup_shared_dir(root, base, outs, kind, spec["present"])
        plog = os.path.join(root, "phaselog")
        before = snapshot(w)
        procs = [None, None]
        machinery = None
        pdirs = [os.path.join(root, f"pause{i}") for i in (0, 1)]
        for d in pdirs:
            os.makedirs(d)

        def start(i):
            argv = (["-shared"] if kind == "shared" else []) + \
                ["../in/new.o", "-o", outs[i], "--threads=4", "--no-update-in-place"]
            env = {"TMPDIR": tmp, "WILD_VERIF_PHASELOG": plog}
            if spec["points"][i]:
                env["WILD_VERIF_AT"] = spec["points"][i]
                env["WILD_VERIF_DO"] = "pause:" + pdirs[i]
            procs[i] = spawn_wild(argv, w, env)

        def reached(i):
            if spec["points"][i] is None:
                return True
            return wait_for(os.path.join(pdirs[i], "reached"), 45)

        def release(i):
            nonlocal machinery
            try:
                age = time.time() - os.stat(os.path.join(pdirs[i], "reached")).st_mtime
            except OSError:
                age = 0
            if age > 50:
                machinery = f"link {i} was paused for {age:.0f}s: the pause hook gives up at 60s"
            open(os.path.join(pdirs[i], "go"), "w").close()

        def finish(i):
            p, fd = procs[i]
            try:
                _, err = p.communicate(timeout=90)
            except subprocess.TimeoutExpired:
                p.kill()
                p.communicate()
                os.close(fd)
                return "timeout", ""
            if not wait_all_exited(fd, 90):
                return "descendant-timeout", ""
            return p.returncode, err.decode("utf-8", "replace")

        order = [spec["first"], 1 - spec["first"]]
        rcs = [None, None]
        for i in order:
            start(i)
            if not reached(i):
                machinery = f"link {i} never reached {spec['points'][i]}"
            if spec["points"][i] is None:
                rcs[i] = finish(i)
        for i in spec["release"]:
            if rcs[i] is None:
                release(i)
                if spec["serial"]:
                    rcs[i] = finish(i)
        for i in (0, 1):
            if rcs[i] is None:
                rcs[i] = finish(i)
        after = snapshot(w)
        after_tmp = snapshot(tmp)
        # Realised order of the steps that touch the shared name.
        pids = {}
        steps = []
        for name, pid in read_phaselog(plog):
            if name in ("creator:after-rename", "creator:before-remove-old", "creator:after-create"):
                pids.setdefault(pid, len(pids))
                steps.append((name, pid))
        # Map pid -> link index by start order is not reliable with fork; use first appearance.
        viol = []
        for p, change, detail in diff_snap(before, after, ignore_dir_mtime_of={""}):
            if p in outs:
                continue
            role = "<stem>.delete" if p == "foo.delete" else role_of(p, {"bystander.txt": "bystander"})
            import re as _re
            if change == "created" and _re.fullmatch(r"foo\.[xy]\.\d+\.delete", p):
                viol.append(("leftover:<renamed-old-output>:mode=unlink:exit-before-remove-task",
                             f"w/{p} left behind ({detail}); it holds a renamed old output"))
            elif change == "created" and p == "foo.delete" and after[p][0] == "f" and after[p][3] in (
                    vlib.sha(old + b"OLD:foo.x"), vlib.sha(old + b"OLD:foo.y")):
                viol.append(("leftover:<stem>.delete:mode=unlink:exit-before-remove-task",
                             f"w/{p} left behind ({detail}); it holds a renamed old output"))
            elif change == "created":
                viol.append((f"concurrent:leftover:{role}", f"w/{p} left behind: {detail}"))
            else:
                viol.append((f"concurrent:touched:{role}:{change}", f"w/{p} {change}: {detail}"))
        for p in after_tmp:
            viol.append(("concurrent:leftover:TMPDIR", f"tmp/{p}"))
        new_sha = None
        for i, o in enumerate(outs):
            rc, err = rcs[i]
            rec = after.get(o)
            if rc != 0:
                viol.append((f"concurrent:link-failed", f"link of {o} exited {rc}: {err[-200:]}"))
            elif rec is None or rec[0] != "f":
                viol.append((f"concurrent:output-missing", f"{o} is {describe(rec)} after a "
                             f"successful link"))
            else:
                if new_sha is None:
                    new_sha = rec[3]
                elif rec[3] != new_sha:
                    viol.append((f"concurrent:output-differs", f"{o} differs from the other "
                                 f"link's output of the same inputs"))
                if spec["present"][i] and rec[3] == vlib.sha(old + f"OLD:{o}".encode()):
                    viol.append((f"concurrent:output-stale", f"{o} still holds the old output"))
        return {"spec": spec, "viol": viol, "machinery": machinery,
                "steps": [f"{n.split(':')[1]}@{pids[p]}" for n, p in steps],
                "rcs": [r[0] for r in rcs]}
    finally:
        shutil.rmtree(root, ignore_errors=True)


# Pause points of part B. At both the link's main thread is still waiting for the output file, so
# the paused process cannot exit underneath the pause (unlike `creator:before-remove-old`, which
# part C treats: holding the remove task does not hold the link). None = the link is not paused:
# it runs from start to exit at the place its turn comes in `first`.
PAUSE_POINTS = ["creator:after-rename", "creator:after-create", None]


def pair_specs(thorough):
    specs = []
    kinds = ["exe", "shared"] if thorough else ["shared"]
    presents = [(True, True), (True, False), (False, True)] if thorough else [(True, True)]
    for kind in kinds:
        for present in presents:
            for pa in PAUSE_POINTS:
                for pb in PAUSE_POINTS:
                    for first in (0, 1):
                        if pa is None or pb is None:
                            # nothing to order at release time
                            specs.append(dict(kind=kind, present=present, points=(pa, pb),
                                              first=first, release=(0, 1), serial=True))
                            continue
                        for release in ((0, 1), (1, 0)):
                            for serial in (True, False):
                                specs.append(dict(kind=kind, present=present, points=(pa, pb),
                                                  first=first, release=release, serial=serial))
    return specs


def shared_name_order(steps):
    """Order of the operations on the shared name foo.delete, as letters: R = a link renamed its
    old output onto it (observed at after-rename), U = a link is about to remove it."""
    out = []
    for s in steps:
        n, who = s.split("@")
        if n == "after-rename":
            out.append("R" + who)
        elif n == "before-remove-old":
            out.append("U" + who)
    return " ".join(out)


def run_exit_race(arg):
    """Part C. One link in unlink mode with an old output present; `how` is
    hold-remove: the background remove task is paused at `creator:before-remove-old` and never
                 released, i.e. the history in which the process exits before that task ran;
    abort@<point>: an injected abort at a creator point."""
    spec, base = arg
    case = make_case(spec["name"], "none", "none", "present", spec["mode"], 4, "ok", spec["kind"],
                     spec["fork"])
    root = os.path.join(base, f"e.{os.getpid()}")
    shutil.rmtree(root, ignore_errors=True)
    os.makedirs(root)
    try:
        ctx = setup_case(case, root, base)
        ctx["eff"] = effective_mode(case, ctx["w"])
        argv, env, _ = case_command(case)
        env["TMPDIR"] = ctx["tmp"]
        pdir = os.path.join(root, "pause")
        os.makedirs(pdir)
        how = spec["how"]
        if how == "hold-remove":
            env["WILD_VERIF_AT"] = "creator:before-remove-old"
            env["WILD_VERIF_DO"] = "pause:" + pdir
        else:
            env["WILD_VERIF_AT"] = how.split("@", 1)[1]
            env["WILD_VERIF_DO"] = how.split("@", 1)[0]
        before = {a: snapshot(ctx[a]) for a in ("w", "in", "tmp")}
        released = []
        if how == "hold-remove":
            # If wild exits while the task is held, the task never ran: that is the history under
            # test. A wild that waits for the task instead is released after 3 s (it would
            # otherwise sit in the pause for its 60 s limit) and then judged like any finished link.
            import threading

            def release():
                if wait_for(os.path.join(pdir, "reached"), 140):
                    time.sleep(3.0)
                    released.append(time.time())
                    with open(os.path.join(pdir, "go"), "w"):
                        pass
            threading.Thread(target=release, daemon=True).start()
        rc, out, err = run_wild(argv, ctx["w"], env, timeout=150)
        t_exit = time.time()
        reached = os.path.exists(os.path.join(pdir, "reached"))
        after = {a: snapshot(ctx[a]) for a in ("w", "in", "tmp")}
        case2 = dict(case, outcome="ok" if how == "hold-remove" else "panic",
                     cause="exit-before-remove-task" if how == "hold-remove" else
                     "crash-before-remove-task")
        viol, counts, touched = evaluate(case2, ctx, before, after, rc,
                                         err.decode("utf-8", "replace"))
        return {"spec": spec, "rc": rc, "viol": viol, "counts": counts, "touched": touched,
                "reached": reached, "argv": argv,
                "exit_waited_for_task": bool(released) and t_exit >= released[0],
                "env": {k: v for k, v in env.items() if k != "TMPDIR"}}
    finally:
        shutil.rmtree(root, ignore_errors=True)


def learn_main_points(arg):
    """Part D: the phase points the main thread of a given configuration passes (first passage of
    each), learned from the phase log of a fault-free run of the very same case."""
    case, base = arg
    root = os.path.join(base, f"l.{os.getpid()}")
    shutil.rmtree(root, ignore_errors=True)
    os.makedirs(root)
    try:
        ctx = setup_case(case, root, base)
        argv, env, _ = case_command(dict(case, outcome="ok"))
        env["TMPDIR"] = ctx["tmp"]
        env["WILD_VERIF_PHASELOG"] = os.path.join(root, "phaselog")
        rc, _, err = run_wild(argv, ctx["w"], env)
        if rc != 0:
            raise RuntimeError(f"learning run failed: {rc} {err!r}")
        points = []
        with open(os.path.join(root, "phaselog")) as f:
            for line in f:
                p = line.rstrip("\n").split("\t")
                if len(p) == 3 and p[2] == "main=true" and p[0].endswith("#1"):
                    n = p[0][:-2]
                    if n not in points:
                        points.append(n)
        return points
    finally:
        shutil.rmtree(root, ignore_errors=True)


def panic_sweep_configs():
    return [make_case("out", "pack", "none", "present", mode, th, "panic", kind)
            for kind, mode, th in (("exe", "unlink", 4), ("shared", "default", 4),
                                   ("exe", "default", 4), ("exe", "default", 1))]


def exit_race_specs(thorough):
    specs = []
    names = NAMES if thorough else ["out", "libx.so.1"]
    hows = ["hold-remove", "panic@creator:after-rename", "panic@creator:after-create",
            "panic@creator:before-remove-old"]
    for name in names:
        for kind, mode in (("exe", "unlink"), ("shared", "default"), ("exe", "default")):
            for fork in FORKS:
                for how in hows:
                    specs.append(dict(name=name, kind=kind, mode=mode, fork=fork, how=how))
    return specs


# ------------------------------------------------------------------------------------------------

def replay(chk, path):
    with open(path) as f:
        rec = json.load(f)
    rp = rec["replay"]
    with vlib.scratch("c19r") as base:
        if rp["part"] == "A":
            r = run_case((rp["case"], base))
        elif rp["part"] == "B":
            r = run_pair((rp["spec"], base))
        else:
            r = run_exit_race((rp["spec"], base))
    print(json.dumps({k: v for k, v in r.items() if k != "case"}, indent=1, default=str))
    keys = {k for k, _ in r["viol"]}
    if rec["key"] in keys:
        print(f"REPRODUCED {rec['key']}")
        sys.exit(vlib.EXIT_VIOLATION)
    print(f"NOT REPRODUCED {rec['key']} (got {sorted(keys)})")
    sys.exit(vlib.EXIT_OK)


def manual_recipe(case, argv, env):
    e = " ".join(f"{k}={v}" for k, v in sorted(env.items()))
    return (f"in a directory prepared as described by `case` (w/ = cwd, inputs in ../in): "
            f"{e} wild {' '.join(argv)}")


def main():
    chk = vlib.Check("C19", "fault_enumeration")
    if not chk.args.no_build:
        vlib.build("wild")
    if chk.args.replay:
        replay(chk, chk.args.replay)
    for src in SOURCES.values():
        vlib.assemble(src)
    cases = thorough_cases() if chk.thorough else quick_cases()
    if chk.seed:
        import random
        random.Random(chk.seed).shuffle(cases)
    counters = {}
    nontrivial = set()
    samples = []
    touched_classes = {}
    t0 = time.time()
    with vlib.scratch("c19") as base:
        # ---- part A
        cap = 540 if chk.thorough else 150
        capped = False
        results = []
        for r in vlib.pmap_unordered(run_case, [(c, base) for c in cases], chunksize=4):
            results.append(r)
            if time.time() - t0 > cap:
                capped = True
                break
        tA = time.time() - t0
        stage_progress = {}
        for st in sorted({c["stage"] for c in cases}):
            stage_progress[f"stage{st}"] = (
                f"{sum(1 for r in results if r['case']['stage'] == st)}/"
                f"{sum(1 for c in cases if c['stage'] == st)}")
        print(f"C19 part A: {len(results)} of {len(cases)} members in {tA:.0f}s {stage_progress}"
              + (" (CAPPED)" if capped else ""), file=sys.stderr)
        for r in results:
            c = r["case"]
            if "MACHINERY" in r["counts"]:
                chk.machinery(f"case {c}: {r['counts']['MACHINERY']}")
            for k, v in r["counts"].items():
                counters[k] = counters.get(k, 0) + 1
            # non-trivial = the link changed something in the tree; distinct by configuration
            if r["touched"]:
                nontrivial.add(json.dumps(c, sort_keys=True))
            sig = (r["eff"], c["threads"], c["outcome"], c["side"], c["sibling"],
                   tuple(sorted(t.split(":")[1] for t in r["touched"])))
            touched_classes[sig] = touched_classes.get(sig, 0) + 1
            for key, what in r["viol"]:
                chk.violation(key, what + f" [case {json.dumps(c, sort_keys=True)}]",
                              {"part": "A", "case": c, "argv": r["argv"], "env": r["env"],
                               "cwd": "w/ (see checks/c19.py setup_case)", "sources": SOURCES,
                               "touched": r["touched"], "rc": r["rc"],
                               "manual": manual_recipe(c, r["argv"], r["env"])})
        for r in results[:: max(1, len(results) // 6)][:6]:
            samples.append({"part": "A", "case": r["case"], "argv": r["argv"], "env": r["env"],
                            "rc": r["rc"], "touched": r["touched"]})
        # ---- part B
        t1 = time.time()
        pspecs = pair_specs(chk.thorough)
        presults = vlib.pmap(run_pair, [(s, base) for s in pspecs], procs=12, chunksize=1)
        orders = {}
        for r in presults:
            if r["machinery"]:
                chk.machinery(f"pair {r['spec']}: {r['machinery']}")
            o = shared_name_order(r["steps"])
            orders[o] = orders.get(o, 0) + 1
            for key, what in r["viol"]:
                chk.violation(key, what + f" [order: {o}; spec {json.dumps(r['spec'])}]",
                              {"part": "B", "spec": r["spec"], "steps": r["steps"],
                               "sources": SOURCES})
        samples.append({"part": "B", "spec": presults[0]["spec"], "steps": presults[0]["steps"],
                        "rcs": presults[0]["rcs"]})
        tB = time.time() - t1
        # ---- part C
        t2 = time.time()
        especs = exit_race_specs(chk.thorough)
        eresults = vlib.pmap(run_exit_race, [(s, base) for s in especs], procs=16, chunksize=1)
        held = waited = 0
        for r in eresults:
            if r["spec"]["how"] == "hold-remove" and r["reached"]:
                held += 1
                waited += bool(r.get("exit_waited_for_task"))
            if isinstance(r["rc"], str):
                chk.machinery(f"exit-race {r['spec']}: {r['rc']}")
            for k, v in r["counts"].items():
                if k != "MACHINERY":
                    counters[k] = counters.get(k, 0) + 1
            for key, what in r["viol"]:
                chk.violation(key, what + f" [spec {json.dumps(r['spec'])}]",
                              {"part": "C", "spec": r["spec"], "argv": r["argv"], "env": r["env"],
                               "touched": r["touched"], "rc": r["rc"], "sources": SOURCES})
        samples.append({"part": "C", "spec": eresults[0]["spec"], "rc": eresults[0]["rc"],
                        "touched": eresults[0]["touched"]})
        tC = time.time() - t2
        # ---- part D (thorough): an injected panic at every phase point of the main thread
        t3 = time.time()
        dcases = []
        n_points = {}
        if chk.thorough:
            cfgs = panic_sweep_configs()
            learned = vlib.pmap(learn_main_points, [(c, base) for c in cfgs], procs=4, chunksize=1)
            for c, pts in zip(cfgs, learned):
                if len(pts) < 40:
                    chk.machinery(f"part D: only {len(pts)} phase points learned for {c}")
                n_points[f"{c['kind']}/{c['mode']}/t{c['threads']}"] = len(pts)
                dcases += [dict(c, panic_at=p, any_rc=True) for p in pts]
        dresults = vlib.pmap(run_case, [(c, base) for c in dcases], chunksize=4) if dcases else []
        for r in dresults:
            c = r["case"]
            if isinstance(r["rc"], str):
                chk.machinery(f"part D case {c}: {r['rc']}")
            for k, v in r["counts"].items():
                counters[k] = counters.get(k, 0) + 1
            for key, what in r["viol"]:
                chk.violation(key, what + f" [case {json.dumps(c, sort_keys=True)}]",
                              {"part": "A", "case": c, "argv": r["argv"], "env": r["env"],
                               "cwd": "w/ (see checks/c19.py setup_case)", "sources": SOURCES,
                               "touched": r["touched"], "rc": r["rc"],
                               "manual": manual_recipe(c, r["argv"], r["env"])})
        if dresults:
            samples.append({"part": "D", "case": dresults[len(dresults) // 2]["case"],
                            "rc": dresults[len(dresults) // 2]["rc"],
                            "touched": dresults[len(dresults) // 2]["touched"]})
        tD = time.time() - t3
    # Every order of R/U steps of two links on the shared name must have been realised.
    want_orders = {"R0 U0 R1 U1", "R0 R1 U0 U1", "R0 R1 U1 U0"}
    full_orders = {o for o in orders if len(o.split()) == 4}
    shapes = set()
    for o in full_orders:
        t = o.split()
        ren = {t[0][1]: "0"}
        for x in t:
            ren.setdefault(x[1], "1")
        shapes.add(" ".join(x[0] + ren[x[1]] for x in t))
    if not want_orders <= shapes:
        chk.machinery(f"part B did not realise every order of the shared-name steps: {shapes}")
    n_eval = len(results) + len(presults) + len(eresults) + len(dresults)
    chk.coverage = {
        "evaluations": n_eval,
        "distinct_nontrivial": len(nontrivial),
        "rule": "part A: product names x siblings x side files x prior x write mode x threads x "
                "outcome x kind (x fork), one real wild process per member, full recursive "
                "before/after snapshot of w/, in/ and $TMPDIR; a member is non-trivial when the "
                "link changed at least one path, distinct by configuration. part B: pause point "
                "of link A x pause point of link B x who starts first x release order x serial/"
                "overlapped release. part C: remove task held until exit / abort at each creator "
                "point. part D (thorough): panic at the first passage of every phase point of the main "
                "thread x 4 write-path configurations.",
        "samples": samples,
        "exhaustive": not capped,
        "part_A_members": len(cases),
        "part_A_capped_after_s": cap if capped else None,
        "part_A_stage_progress": stage_progress,
        "process_runs": {"part_A_links": len(results), "part_B_histories": len(presults),
                         "part_B_links": 2 * len(presults), "part_C_links": len(eresults),
                         "part_D_links": len(dresults)},
        "part_D_main_thread_points": n_points,
        "wall_parts_s": {"A": round(tA, 1), "B": round(tB, 1), "C": round(tC, 1), "D": round(tD, 1)},
        "distinct_touch_signatures": len(touched_classes),
        "shared_name_step_orders_realised": orders,
        "shared_name_order_shapes": sorted(shapes),
        "part_C_remove_task_held_until_exit": held,
        "part_C_exit_waited_for_the_held_remove_task_then_released": waited,
        "counted_not_raised": counters,
        "thinning": ("full product of all axes with the five name-like siblings packed into one "
                     "directory (stage 2); each sibling alone only for the outcomes that reach "
                     "the file writer and with the side-file option rotated (stage 3); --no-fork "
                     "rotated (stage 4)" if chk.thorough else
                     "siblings packed into one directory (none / all five name-like siblings "
                     "together / symlink / hardlink); full product of sibling x prior x mode x "
                     "threads x kind x fork/--no-fork x name, with 1 rotated (side, outcome) "
                     "pair per member instead of all 20; part B: shared objects with both old "
                     "outputs present only; part C: 2 names"),
    }
    chk.assumptions = [
        "the tree is observed after wild and every process it forked have exited (liveness pipe)",
        "a hard link to the old output / the target of a symlink at the output path being "
        "rewritten in place is counted (counted_not_raised), not raised: the changed inode is "
        "the output file itself under another name; GNU ld 2.40 and ld.lld 14 replace the path "
        "instead (checked by hand)",
        "save-dir hard-links inputs into the bundle, so an input's link count may change when "
        "WILD_SAVE_DIR is set; contents and mtimes may not",
        "ctime and atime are not compared",
    ]
    chk.finish()


if __name__ == "__main__":
    main()
