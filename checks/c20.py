#!/usr/bin/env python3
"""C20 - Inputs changed during a link make the link fail.

Fault enumeration over histories: one fixed link that reads one input of every kind; for every
(input kind x modification kind x phase point x threads [x fork]) the real wild binary is paused at
the phase point (WILD_VERIF_AT / WILD_VERIF_DO=pause), the harness checks in /proc/<pid>/maps that
the target file is already mapped (= opened, its mtime recorded), modifies the file, lets wild
continue and demands a non-zero exit status.

Where the modification fell relative to wild's verify phase is not assumed from the pause point but
read back from the phase log: the harness appends its own marker lines to the same O_APPEND log
file around the modification, so "modified before `enter:Verify inputs unchanged`" is an observed
fact of each run."""
import json
import os
import shutil
import subprocess
import sys
import time

sys.path.insert(0, os.path.join(os.path.dirname(os.path.abspath(__file__)), "..", "lib"))
import vlib

QUAD_A = bytes.fromhex("8877665544332211")   # .quad 0x1122334455667788
QUAD_B = bytes.fromhex("1122334455667788")
TEXT_A, TEXT_B = b"MARKER_A", b"MARKER_B"
PAD = 64
CUT = 8


def obj_src(name):
    # d_<name> stays local so that the same source can also go into a shared object.
    return (f".globl f_{name}\n.type f_{name},@function\n.text\nf_{name}:\n"
            f"  lea d_{name}(%rip), %rax\n  ret\n"
            f".data\nd_{name}:\n  .quad 0x1122334455667788\n")


MAIN_SRC = (".globl _start\n.text\n_start:\n  call f_obj\n  call f_ar\n  call f_thin\n  call f_scr\n"
            "  call f_lib\n  call f_so@PLT\n  ret\n")
IN_LD = "/* MARKER_A */\nINPUT(scr.o)\n"
T_LD = ("/* MARKER_A */\nSECTIONS {\n  .text : { *(.text .text.*) }\n  .data : { *(.data .data.*) }\n"
        "}\n")
V_TXT = "# MARKER_A\n{ global: *; };\n"
D_TXT = "# MARKER_A\n{ f_ar; };\n"

# kind -> (path relative to the link's working directory, in the statement?)
KINDS = [
    ("object", "obj.o", True),
    ("archive", "reg.a", True),
    ("thin-archive-index", "thin.a", True),
    ("thin-archive-member", "thin.o", True),
    ("script-input", "in.ld", True),
    ("script-T", "t.ld", True),
    ("script-INPUT-object", "scr.o", True),
    ("lib-search", "L/libz1.a", True),
    ("shared-object", "libso.so", True),
    # Read by the link, but not among the kinds the statement lists: counted, never a violation.
    ("version-script", "v.txt", False),
    ("dynamic-list", "d.txt", False),
]
KIND_PATH = {k: p for k, p, _ in KINDS}
IN_STATEMENT = {k: s for k, _, s in KINDS}

# `<mod>@earlier`: the same modification, but the path ends up with an mtime one day EARLIER than
# the one wild recorded (cache-restored / `cp -p` / `rsync -t` / `tar x` files, or an overwrite
# followed by restoring an old timestamp). `<mod>@equal`: same size, different content, mtime
# exactly equal to the recorded one - counted separately, never judged (only ctime / inode /
# content would reveal it).
MODS = ["rewrite", "append", "truncate-tail", "truncate-zero", "rename-replace", "touch",
        "replace-restore", "rewrite@earlier", "append@earlier", "rename-replace@earlier",
        "rewrite@equal", "rename-replace@equal"]
MOD_CLASS = {"rewrite": "content-change", "append": "content-change",
             "truncate-tail": "content-change", "truncate-zero": "truncate-zero",
             "rename-replace": "replaced", "touch": "mtime-only", "replace-restore": "mtime-only"}
EARLIER_S = 86400


def mod_base(mod):
    return mod.partition("@")[0]


def mod_mtime(mod):
    """'later' (the modification happens now, the inputs are one hour old), 'earlier' or 'equal'."""
    return mod.partition("@")[2] or "later"

LINK_ARGS = ["main.o", "obj.o", "reg.a", "thin.a", "in.ld", "-T", "t.ld", "-L", "L", "-lz1",
             "libso.so", "--version-script=v.txt", "--dynamic-list=d.txt", "-o", "out"]

ENTER_VERIFY = "enter:Verify inputs unchanged#1"
EXIT_VERIFY = "exit:Verify inputs unchanged#1"
FIRST_POINT = "enter:Open input files#1"
LAST_POINT = "after-verify-inputs#1"

# Quick tier: 5 instants, the most telling first (the order only matters when the wall cap hits).
QUICK_POINTS = ["exit:Layout#1", ENTER_VERIFY, "after-load-inputs#1", "exit:Resolve symbols#1",
                EXIT_VERIFY]
FORK_POINTS = ["after-load-inputs#1", "exit:Layout#1", ENTER_VERIFY, EXIT_VERIFY]


def sh(cmd, cwd):
    r = subprocess.run(cmd, cwd=cwd, stdout=subprocess.PIPE, stderr=subprocess.PIPE)
    if r.returncode != 0:
        raise RuntimeError(f"{cmd} failed: {r.stderr.decode()}")


def build_template(d, t0):
    """All inputs of the link, in directory d, every file with mtime t0."""
    os.makedirs(os.path.join(d, "L"))

    def put_obj(name, src, pad=True):
        with open(vlib.assemble(src), "rb") as f:
            data = f.read()
        with open(os.path.join(d, name), "wb") as f:
            f.write(data + (b"\0" * PAD if pad else b""))

    put_obj("main.o", MAIN_SRC)
    for n in ("obj", "thin", "scr"):
        put_obj(f"{n}.o", obj_src(n))
    for n in ("ar", "unused", "lib", "so"):
        put_obj(f"m_{n}.o", obj_src(n), pad=False)
    sh(["ar", "rcD", "reg.a", "m_ar.o", "m_unused.o"], d)
    sh(["ar", "rcTD", "thin.a", "thin.o"], d)
    sh(["ar", "rcD", "L/libz1.a", "m_lib.o"], d)
    sh(["ld", "-shared", "-o", "libso.so", "m_so.o"], d)
    with open(os.path.join(d, "libso.so"), "ab") as f:
        f.write(b"\0" * PAD)
    for n in ("ar", "unused", "lib", "so"):
        os.unlink(os.path.join(d, f"m_{n}.o"))
    for name, text in (("in.ld", IN_LD), ("t.ld", T_LD), ("v.txt", V_TXT), ("d.txt", D_TXT)):
        with open(os.path.join(d, name), "w") as f:
            f.write(text + "\n" * PAD)
    set_mtimes(d, t0)


def set_mtimes(d, t0):
    for root, _, files in os.walk(d):
        for f in files:
            os.utime(os.path.join(root, f), (t0, t0))


def variant(data):
    """Same-size different content that is still a valid input of the same meaning."""
    if TEXT_A in data:
        out = data.replace(TEXT_A, TEXT_B)
    elif QUAD_A in data:
        out = data.replace(QUAD_A, QUAD_B)
    elif data.startswith(b"!<thin>\n"):
        # Date field of the first member header (the symbol table): "0" -> "1".
        assert data[8 + 16:8 + 17] == b"0", data[:80]
        out = data[:8 + 16] + b"1" + data[8 + 17:]
    else:
        raise RuntimeError("no marker in file")
    assert len(out) == len(data) and out != data
    return out


def modify(path, mod, t0=None):
    """Apply modification `mod` to path; t0 is the mtime wild recorded (for @earlier / @equal)."""
    with open(path, "rb") as f:
        orig = f.read()
    when = mod_mtime(mod)
    mod = mod_base(mod)
    stamp = {"later": None, "earlier": (t0 - EARLIER_S, t0 - EARLIER_S) if t0 else None,
             "equal": (t0, t0)}[when]
    if when != "later":
        assert t0 is not None and mod in ("rewrite", "append", "rename-replace")
    if mod == "rewrite":
        with open(path, "r+b") as f:
            f.write(variant(orig))
    elif mod == "append":
        with open(path, "ab") as f:
            f.write(b"\n" * 16 if (TEXT_A in orig) else b"\0" * 16)
    elif mod == "truncate-tail":
        n = len(orig)
        # No page of the mapping may end up wholly beyond EOF (that would be the SIGBUS class).
        assert n - CUT > 0 and (n - CUT - 1) // 4096 == (n - 1) // 4096, (path, n)
        os.truncate(path, n - CUT)
    elif mod == "truncate-zero":
        os.truncate(path, 0)
    elif mod == "rename-replace":
        tmp = path + ".new"
        with open(tmp, "wb") as f:
            f.write(variant(orig))
        if stamp:
            # The replacement file carries its old timestamp with it (cp -p, cache restore).
            os.utime(tmp, stamp)
        os.rename(tmp, path)
    elif mod == "touch":
        os.utime(path, None)
    elif mod == "replace-restore":
        with open(path, "r+b") as f:
            f.write(variant(orig))
            f.flush()
        with open(path, "r+b") as f:
            f.write(orig)
    else:
        raise RuntimeError(mod)
    if stamp and mod != "rename-replace":
        os.utime(path, stamp)


def parse_log(path):
    try:
        with open(path) as f:
            return [l.rstrip("\n") for l in f]
    except OSError:
        return []


def link_argv(threads, fork):
    return ([] if fork else ["--no-fork"]) + [f"--threads={threads}"] + LINK_ARGS


def link_env(threads):
    """`--threads=1` alone still starts a 16-thread rayon pool; the 1-thread configuration of this
    check is a truly single-threaded link (every phase point is then on the main thread)."""
    return {"RAYON_NUM_THREADS": "1"} if threads == 1 else {}


def worker_dir(base):
    return os.path.join(base, f"w{os.getpid()}")


def ensure_worker(base, t0):
    wd = worker_dir(base)
    if not os.path.isdir(wd):
        shutil.copytree(os.path.join(base, "tpl"), wd + ".tmp")
        set_mtimes(wd + ".tmp", t0)
        os.makedirs(os.path.join(wd + ".tmp", "p"))
        os.rename(wd + ".tmp", wd)
    return wd


def restore(base, wd, rel, t0):
    src = os.path.join(base, "tpl", rel)
    dst = os.path.join(wd, rel)
    shutil.copyfile(src, dst + ".rst")
    os.utime(dst + ".rst", (t0, t0))
    os.rename(dst + ".rst", dst)
    try:
        os.unlink(dst + ".new")
    except OSError:
        pass


def run_one(spec):
    """One paused run. Returns a result dict."""
    base, t0 = spec["base"], spec["t0"]
    wd = ensure_worker(base, t0)
    rel = KIND_PATH[spec["kind"]]
    target = os.path.join(wd, rel)
    pd = os.path.join(wd, "p")
    log = os.path.join(wd, "phaselog")
    for p in (os.path.join(pd, "reached"), os.path.join(pd, "go"), log, os.path.join(wd, "out")):
        try:
            os.unlink(p)
        except OSError:
            pass
    res = dict(i=spec["i"], status="ok", rc=None, scope=None, mapped=None, on_main=None,
               err="", detected=False)
    if time.time() > spec.get("deadline", 1e18):
        res["status"] = "skipped-cap"
        return res
    # Every input must be pristine: mtime exactly t0.
    for _, r, _ in KINDS:
        if os.stat(os.path.join(wd, r)).st_mtime != t0:
            res["status"] = f"machinery: {r} not pristine"
            return res
    env = dict(os.environ, WILD_VERIF_AT=spec["point"], WILD_VERIF_DO="pause:" + pd,
               WILD_VERIF_PHASELOG=log, **link_env(spec["threads"]))
    p = subprocess.Popen([spec.get("wild") or vlib.WILD, *link_argv(spec["threads"], spec["fork"])],
                         cwd=wd, env=env, stdin=subprocess.DEVNULL, stdout=subprocess.DEVNULL,
                         stderr=subprocess.PIPE)
    try:
        reached = os.path.join(pd, "reached")
        deadline = time.time() + 150
        while not os.path.exists(reached):
            if p.poll() is not None:
                break
            if time.time() > deadline:
                p.kill()
                p.wait()
                res["status"] = "slow: pause point not reached in 150 s"
                return res
            time.sleep(0.001)
        if not os.path.exists(reached):
            res["status"] = "not-reached"
            res["rc"] = p.returncode
            res["err"] = p.stderr.read().decode("utf-8", "replace")[-300:]
            return res
        lines = parse_log(log)
        hit = [l for l in lines if l.startswith(spec["point"] + "\t")]
        if not hit:
            p.kill()
            p.wait()
            res["status"] = "machinery: paused point missing from phase log"
            return res
        fields = dict(f.split("=") for f in hit[-1].split("\t")[1:])
        res["on_main"] = fields["main"] == "true"
        try:
            with open(f"/proc/{fields['pid']}/maps") as f:
                maps = f.read()
        except OSError as e:
            p.kill()
            p.wait()
            res["status"] = f"machinery: cannot read maps: {e}"
            return res
        real = os.path.realpath(target)
        res["mapped"] = any(l.endswith(" " + real) for l in maps.splitlines())
        fd = os.open(log, os.O_WRONLY | os.O_APPEND)
        os.write(fd, b"HARNESS:mod-begin\n")
        with open(target, "rb") as f:
            before = f.read()
        modify(target, spec["mod"], t0)
        st = os.stat(target)
        os.write(fd, b"HARNESS:mod-end\n")
        os.close(fd)
        when = mod_mtime(spec["mod"])
        with open(target, "rb") as f:
            after = f.read()
        if when == "later" and not st.st_mtime > t0 + 1000:
            res["status"] = "machinery: modification did not move the mtime forward"
        elif when == "earlier" and not (st.st_mtime < t0 - 1000 and after != before):
            res["status"] = "machinery: @earlier did not produce changed content + older mtime"
        elif when == "equal" and not (st.st_mtime == t0 and after != before and
                                      len(after) == len(before)):
            res["status"] = "machinery: @equal did not produce same size + mtime, new content"
        with open(os.path.join(pd, "go"), "w"):
            pass
        try:
            _, err = p.communicate(timeout=90)
        except subprocess.TimeoutExpired:
            p.kill()
            p.wait()
            res["status"] = "machinery: wild did not finish after go"
            return res
        res["rc"] = p.returncode
        res["err"] = err.decode("utf-8", "replace")[-300:]
        res["detected"] = "was changed while we were running" in res["err"]
        lines = parse_log(log)

        def idx(name):
            for n, l in enumerate(lines):
                if l == name or l.startswith(name + "\t"):
                    return n
            return None

        b, e = idx("HARNESS:mod-begin"), idx("HARNESS:mod-end")
        ev, xv = idx(ENTER_VERIFY), idx(EXIT_VERIFY)
        res["verify_entered"] = ev is not None
        if not res["mapped"]:
            res["scope"] = "before-open"
        elif ev is None or ev > e:
            res["scope"] = "in-scope"
        elif spec["point"] == ENTER_VERIFY and res["on_main"] and (xv is None or xv > e):
            # Paused inside the phase guard's constructor on the main thread: the phase is logged
            # as entered, but none of its stat() calls has been issued yet.
            res["scope"] = "in-scope"
        elif xv is not None and xv < b:
            res["scope"] = "post-verify"
        else:
            res["scope"] = "during-verify"
        return res
    finally:
        if p.poll() is None:
            p.kill()
            p.wait()
        restore(base, wd, rel, t0)


def probe(base, t0, threads, fork, n=3):
    """Phase points of this link: ordered list of (point, on_main_in_every_probe)."""
    wd = ensure_worker(base, t0)
    seqs = []
    for _ in range(n):
        log = os.path.join(wd, "probelog")
        try:
            os.unlink(log)
        except OSError:
            pass
        rc, _, err = vlib.run([vlib.WILD, *link_argv(threads, fork)], cwd=wd,
                              env={"WILD_VERIF_PHASELOG": log, **link_env(threads)})
        if rc != 0:
            return None, f"baseline link failed rc={rc}: {err.decode()[-300:]}"
        # The forked child may still be shutting down; its later points are not needed.
        seqs.append([l.split("\t") for l in parse_log(log)])
    main_sets = [{f[0] for f in s if len(f) == 3 and f[2] == "main=true"} for s in seqs]
    all_sets = [{f[0] for f in s} for s in seqs]
    order = [f[0] for f in seqs[0]]
    if FIRST_POINT not in order or LAST_POINT not in order:
        return None, "phase log lacks the expected points"
    order = order[order.index(FIRST_POINT):order.index(LAST_POINT) + 1]
    pts = [(pt, all(pt in m for m in main_sets)) for pt in order
           if all(pt in a for a in all_sets)]
    # A main-thread `exit:A` directly followed (in the log of every probe, no line of any thread
    # in between) by a main-thread `enter:B` is one phase boundary with two hooks: keep `enter:B`.
    pos = [{f[0]: n for n, f in enumerate(s)} for s in seqs]
    mains = [pt for pt, m in pts if m]
    same_boundary = set()
    for a, b in zip(mains, mains[1:]):
        if a.startswith("exit:") and b.startswith("enter:") and \
                all(p[b] == p[a] + 1 for p in pos):
            same_boundary.add(a)
    return [(pt, m, pt in same_boundary) for pt, m in pts], None


def manual(spec):
    rel = KIND_PATH[spec["kind"]]
    return (f"build the inputs listed under 'files' in an empty directory (all with an mtime one "
            f"hour in the past); run `WILD_VERIF_AT='{spec['point']}' WILD_VERIF_DO=pause:$PWD/p "
            f"{'RAYON_NUM_THREADS=1 ' if spec['threads'] == 1 else ''}"
            f"wild {' '.join(link_argv(spec['threads'], spec['fork']))}` with ./p an empty "
            f"directory; when ./p/reached appears apply '{spec['mod']}' to {rel}; "
            f"`touch p/go`; wild must exit non-zero")


FILES_DOC = {
    "main.o": MAIN_SRC, "obj.o / thin.o / scr.o": "obj_src(name): " + obj_src("NAME"),
    "reg.a": "ar rcD reg.a ar.o unused.o", "thin.a": "ar rcTD thin.a thin.o",
    "L/libz1.a": "ar rcD L/libz1.a lib.o", "libso.so": "ld -shared -o libso.so so.o",
    "in.ld": IN_LD, "t.ld": T_LD, "v.txt": V_TXT, "d.txt": D_TXT,
    "modifications": "'<mod>@earlier' = the modification followed by setting the path's mtime to "
                     "one day before the original mtime (rename-replace: the new file already "
                     "carries that mtime); '<mod>@equal' = mtime set back to exactly the original",
    "padding": f"every .o/.so gets {PAD} trailing NUL bytes, every text file {PAD} newlines",
}


def replay(chk, path):
    with open(path) as f:
        doc = json.load(f)
    spec = doc["replay"]["spec"]
    with vlib.scratch("c20r") as base:
        t0 = int(time.time()) - 3600
        build_template(os.path.join(base, "tpl"), t0)
        spec = dict(spec, base=base, t0=t0, i=0)
        r = run_one(spec)
        print(json.dumps({k: spec[k] for k in ("kind", "mod", "point", "threads", "fork")}))
        print(json.dumps(r))
        if r["status"] != "ok":
            chk.machinery(r["status"])
        bad = r["scope"] == "in-scope" and r["rc"] == 0
        print("REPRODUCED" if bad else "not reproduced")
        sys.exit(1 if bad else 0)


def main():
    chk = vlib.Check("C20", "fault_enumeration")
    if not chk.args.no_build:
        vlib.build("wild")
    if chk.args.replay:
        replay(chk, chk.args.replay)
    t0 = int(time.time()) - 3600
    # Wall cap for the whole check (setup included), enforced inside the engine.
    cap_s = 840 if chk.thorough else 46
    with vlib.scratch("c20") as base:
        build_template(os.path.join(base, "tpl"), t0)
        configs = []          # (threads, fork, points)
        points_info = {}
        for threads in (1, 4):
            pts, err = probe(base, t0, threads, False)
            if err:
                chk.machinery(err)
            main_pts = [p for p, m, _ in pts if m]
            boundaries = [p for p, m, dup in pts if m and not dup]
            points_info[f"threads={threads},no-fork"] = {
                "phase_points_in_window": len(pts), "main_thread_points": len(main_pts),
                "main_thread_phase_boundaries": len(boundaries)}
            if chk.thorough:
                use = boundaries
            else:
                missing = [p for p in QUICK_POINTS if p not in main_pts]
                if missing:
                    chk.machinery(f"quick instants not main-thread points of this link: {missing}")
                use = QUICK_POINTS
            configs.append((threads, False, use))
        pts, err = probe(base, t0, 4, True)
        if err:
            chk.machinery(err)
        fork_all = [p for p, _, _ in pts]
        missing = [p for p in FORK_POINTS if p not in fork_all]
        if missing:
            chk.machinery(f"fork-mode instants missing: {missing}")
        fork_mods = [m for m in MODS if mod_mtime(m) != "equal"] if chk.thorough else ["rewrite", "truncate-zero", "rename-replace", "touch",
                                               "rewrite@earlier", "rename-replace@earlier"]
        specs = []
        for kind, _, _ in KINDS:
            for mod in fork_mods:
                for pt in (FORK_POINTS if chk.thorough else FORK_POINTS[1:3]):
                    specs.append(dict(kind=kind, mod=mod, point=pt, threads=4, fork=True))
        # Enumeration order: instants in 16 interleaved passes over the time line, so that a run
        # that hits its wall-time cap has still covered every (kind, modification, threads) at
        # instants spread over the whole link. The order does not change the set.
        grid = []
        for threads, fork, use in configs:
            for n, pt in enumerate(use):
                for kind, _, _ in KINDS:
                    for mod in MODS:
                        # The counted-not-judged @equal variants only at the quick instants.
                        if mod_mtime(mod) == "equal" and pt not in QUICK_POINTS:
                            continue
                        grid.append(((n % 16, n), dict(kind=kind, mod=mod, point=pt,
                                                       threads=threads, fork=fork)))
        grid.sort(key=lambda x: x[0])
        specs += [g for _, g in grid]
        if chk.seed:
            import random
            random.Random(chk.seed).shuffle(specs)
        deadline = chk.t0 + cap_s
        for i, s in enumerate(specs):
            s.update(i=i, base=base, t0=t0, deadline=deadline)
        results = [r for r in vlib.pmap_unordered(run_one, specs, chunksize=4)]
        capped = any(r["status"] == "skipped-cap" for r in results)
        results = [r for r in results if r["status"] != "skipped-cap"]
    counts = {}

    def bump(k):
        counts[k] = counts.get(k, 0) + 1

    in_scope = 0
    samples = []
    extra_undetected = {}
    equal_undetected = {}
    other_errors = []
    post_verify_rc = {}
    for r in results:
        s = specs[r["i"]]
        if r["status"].startswith("machinery"):
            chk.machinery(f"{r['status']} ({s['kind']} {s['mod']} {s['point']})")
        if r["status"] == "not-reached":
            bump("point_not_reached")
            continue
        if r["status"].startswith("slow"):
            bump("not_evaluated_machine_too_slow")
            continue
        bump("scope:" + r["scope"])
        cls = MOD_CLASS[mod_base(s["mod"])]
        when = mod_mtime(s["mod"])
        if when != "later":
            cls += ":mtime-" + when
        if r["scope"] == "post-verify":
            k = "exit0" if r["rc"] == 0 else "nonzero"
            post_verify_rc[k] = post_verify_rc.get(k, 0) + 1
        if r["scope"] != "in-scope":
            continue
        in_scope += 1
        if r["rc"] == 0:
            outcome = "exit0"
        elif r["detected"]:
            outcome = "detected"
        elif isinstance(r["rc"], int) and r["rc"] < 0:
            outcome = f"signal{-r['rc']}"
        elif s["fork"] and isinstance(r["rc"], int) and r["rc"] > 128 and not r["err"].strip():
            outcome = f"fork-child-signal{r['rc'] - 128}"
        else:
            outcome = "other-error"
        bump(f"outcome:{cls}:{outcome}")
        if outcome == "other-error" and len(other_errors) < 6:
            other_errors.append({k: s[k] for k in ("kind", "mod", "point", "threads", "fork")} |
                                {"rc": r["rc"], "stderr": r["err"][-200:]})
        if len(samples) < 6 or (r["rc"] == 0 and len(samples) < 12):
            samples.append({k: s[k] for k in ("kind", "mod", "point", "threads", "fork")} |
                           {"rc": r["rc"], "stderr": r["err"][-120:], "scope": r["scope"]})
        if r["rc"] != 0:
            continue
        if when == "equal":
            # Same size, same mtime, new content: counted, not judged.
            k = ("in-statement-kinds" if IN_STATEMENT[s["kind"]] else "extra-kinds")
            equal_undetected[k] = equal_undetected.get(k, 0) + 1
            continue
        if not IN_STATEMENT[s["kind"]]:
            extra_undetected[s["kind"]] = extra_undetected.get(s["kind"], 0) + 1
            continue
        key = f"{s['kind']}:{cls}"
        what = (f"{KIND_PATH[s['kind']]} ({s['kind']}) modified by '{s['mod']}' while wild was "
                f"paused at '{s['point']}' (file mapped, before the verify phase; threads="
                f"{s['threads']}, {'fork' if s['fork'] else 'no-fork'}): wild exited 0")
        if s["fork"] and not r["verify_entered"]:
            # The forked child never got as far as the verify phase (it died, e.g. SIGBUS on the
            # truncated mapping) and the parent still reported success: one root cause for every
            # input kind (the same one as C17), so one key.
            key = "fork-mode:child-died-before-verify"
            what += " although the forked child died before the verify phase"
        chk.violation(key, what, {"spec": {k: s[k] for k in
                                           ("kind", "mod", "point", "threads", "fork")},
                                  "argv": link_argv(s["threads"], s["fork"]),
                                  "env": link_env(s["threads"]),
                                  "files": FILES_DOC, "manual": manual(s)})
    if counts.get("point_not_reached", 0) > len(results) // 50:
        chk.machinery(f"{counts['point_not_reached']} of {len(results)} pause points not reached")
    slow = counts.get("not_evaluated_machine_too_slow", 0)
    if slow > len(results) // 100:
        chk.machinery(f"{slow} of {len(results)} runs did not reach their pause point in 150 s")
    capped = capped or slow > 0
    if in_scope < 2:
        chk.machinery("vacuous: fewer than two in-scope runs")
    chk.coverage = {
        "evaluations": len(results), "distinct_nontrivial": in_scope,
        "rule": "one paused run of the real wild per (input kind, modification kind, phase point, "
                "threads, fork mode), all distinct; non-trivial = the target file was mapped by "
                "the paused wild process (/proc/pid/maps), the modification moved its mtime by "
                "~1 h, and the harness marker 'mod-end' precedes wild's 'enter:Verify inputs "
                "unchanged' in the shared phase log",
        "planned_runs": len(specs), "capped": capped,
        "exhaustive": not capped and not counts.get("point_not_reached"),
        "input_kinds": [k for k, _, _ in KINDS], "modification_kinds": MODS,
        "instants": points_info, "quick_instants": None if chk.thorough else QUICK_POINTS,
        "fork_instants": FORK_POINTS if chk.thorough else FORK_POINTS[1:3],
        "counts": dict(sorted(counts.items())),
        "post_verify_modifications_outside_statement": post_verify_rc,
        "extra_class_not_in_statement_exit0": extra_undetected,
        "mtime_equal_same_size_new_content_exit0_counted_not_judged": equal_undetected,
        "samples": samples,
        "other_error_samples": other_errors,
        "thinned": "the counted-not-judged @equal modifications run only at the 5 quick instants "
                   "(no fork mode); everything else is the full product" if chk.thorough else
                   "5 instants; fork mode at 2 instants for 6 modifications",
    }
    chk.assumptions = [
        "pausing is done at phase points that every probe run passed on the main thread (an "
        "`exit:A` hook directly followed by an `enter:B` hook is one boundary; the pause is at "
        "`enter:B`); whether the modification preceded the verify phase is read from the phase "
        "log, not assumed",
        "a file that appears in /proc/<pid>/maps of the paused wild has had its mtime recorded "
        "(FileData::open reads the mtime before mmap)",
        "tmpfs (/dev/shm) timestamps; all inputs carry an mtime one hour in the past; 'later' "
        "modifications leave mtime = now, '@earlier' ones leave recorded - 1 day, '@equal' ones "
        "exactly the recorded mtime (same size, new content: counted, not judged - only ctime, "
        "inode or content could reveal it)",
        "threads=1 means --threads=1 with RAYON_NUM_THREADS=1 (a truly single-threaded link); "
        "threads=4 means --threads=4",
        "version script and dynamic list are counted but not judged (the statement lists object, "
        "archive, thin-archive member, linker script)",
    ]
    chk.finish()


if __name__ == "__main__":
    main()
