#!/usr/bin/env python3
"""C21 - Relinking never alters a running program or loaded library.

History enumeration (family F, `busyrelink`). One history =

    1. wild links the OLD program to <dir>/<name>;
    2. a process puts it in use (execve / dlopen by a host / DT_NEEDED of a running executable),
       executes a function in text page A (prints "A=old") and parks in read() on a pipe;
    3. wild relinks <name> in the same directory from a NEW program (markers say "new") with the
       relink options of the history; the harness waits for wild and every process it forked;
    4. the parked process is released and executes a function in text page B, which it had never
       touched, the function in page A again, and prints a string from read-only data page D,
       never touched either.

Oracle (all ground truth, no linker involved):
  * the bytes of the OLD inode, read through a descriptor opened before the relink, are unchanged;
  * /proc/<pid>/maps of the parked process still maps the old inode at the same ranges;
  * the released process prints exactly B=old, A=old, D=old and exits 0 (file-backed private
    mappings show in-place modification or truncation of untouched and clean pages);
  * the relink either exits 0 and <name> is a NEW inode holding exactly what the same command
    produces in an empty directory, or exits non-zero (old inode intact, see first bullet).

Every function / string sits alone in its own 4 KiB-aligned, 4 KiB-long section, so "a page the
process had not touched" is real. `--update-in-place` given explicitly is outside "default options":
those histories are run and counted, never raised; on a mapped shared library they MUST trip the
oracle (sensitivity probe), otherwise the run is a machinery failure.
"""
import itertools
import json
import os
import select
import shutil
import signal
import subprocess
import sys
import time

sys.path.insert(0, os.path.join(os.path.dirname(os.path.abspath(__file__)), "..", "lib"))
import vlib
import liverun

# ------------------------------------------------------------------------------------------------
# Test programs

EXE_SRC = r"""
#ifndef FILL
#define FILL 3
#endif
.macro PRINT label, len
  mov $1,%eax
  mov $1,%edi
  lea \label(%rip),%rsi
  mov $\len,%edx
  syscall
.endm
.section .text._start,"ax",@progbits
.globl _start
_start:
#ifdef DYN
  call dep_fn@PLT
#endif
#if FILL > 0
  lea fill(%rip),%rax
#endif
  call fnA
  sub $16,%rsp
  xor %eax,%eax
  xor %edi,%edi
  mov %rsp,%rsi
  mov $1,%edx
  syscall
  cmp $1,%rax
  jne fail
  call fnB
  call fnA
  PRINT markD, 6
  mov $60,%eax
  xor %edi,%edi
  syscall
fail:
  mov $60,%eax
  mov $9,%edi
  syscall

.section .text.pageA,"ax",@progbits
.p2align 12
fnA:
  PRINT markA, 6
  ret
markA: .ascii "A=" MARK "\n"
.p2align 12

#if FILL > 0
.section .text.fill,"ax",@progbits
.p2align 12
fill:
  .fill FILL*4096, 1, 0x90
#endif

#ifndef NOB
.section .text.pageB,"ax",@progbits
.p2align 12
fnB:
  PRINT markB, 6
  ret
markB: .ascii "B=" MARK "\n"
.p2align 12
#else
.section .text.pageA2,"ax",@progbits
fnB: ret
#endif

.section .rodata.pageD,"a",@progbits
.p2align 12
markD: .ascii "D=" MARK "\n"
.p2align 12
"""

LIB_SRC = r"""
#ifndef FILL
#define FILL 3
#endif
.section .text.pageA,"ax",@progbits
.p2align 12
.globl libfnA
.type libfnA,@function
libfnA:
  lea markA(%rip),%rax
#if FILL > 0
  lea fill(%rip),%rdx
#endif
  ret
markA: .asciz "A=" MARK
.p2align 12

#if FILL > 0
.section .text.fill,"ax",@progbits
.p2align 12
fill:
  .fill FILL*4096, 1, 0x90
#endif

.section .text.pageB,"ax",@progbits
.p2align 12
.globl libfnB
.type libfnB,@function
libfnB:
  lea markB(%rip),%rax
  ret
.globl libfnD
.type libfnD,@function
libfnD:
  lea markD(%rip),%rax
  ret
markB: .asciz "B=" MARK
.p2align 12

.section .rodata.pageD,"a",@progbits
.p2align 12
markD: .asciz "D=" MARK
.p2align 12
"""

DEP_SRC = """
.section .text.dep,"ax",@progbits
.globl dep_fn
.type dep_fn,@function
dep_fn: ret
"""

HOST_DLOPEN = r"""
#include <dlfcn.h>
#include <stdio.h>
#include <unistd.h>
typedef const char *(*fn_t)(void);
int main(int argc, char **argv) {
  void *h = dlopen(argv[1], RTLD_NOW);
  if (!h) { fprintf(stderr, "%s\n", dlerror()); return 3; }
  fn_t fa = (fn_t)dlsym(h, "libfnA");
  if (!fa) return 5;
  printf("%s\n", fa());
  fflush(stdout);
  char c;
  if (read(0, &c, 1) != 1) return 4;
  fn_t fb = (fn_t)dlsym(h, "libfnB");
  fn_t fd = (fn_t)dlsym(h, "libfnD");
  if (!fb || !fd) return 6;
  printf("%s\n%s\n%s\n", fb(), fa(), fd());
  return 0;
}
"""

HOST_NEEDED = r"""
#include <stdio.h>
#include <unistd.h>
extern const char *libfnA(void);
extern const char *libfnB(void);
extern const char *libfnD(void);
int main(void) {
  printf("%s\n", libfnA());
  fflush(stdout);
  char c;
  if (read(0, &c, 1) != 1) return 4;
  printf("%s\n%s\n%s\n", libfnB(), libfnA(), libfnD());
  return 0;
}
"""

INTERP = "/lib64/ld-linux-x86-64.so.2"
KINDS = ["nonpie", "pie", "static", "shared"]
USES = ["execve", "dlopen", "needed"]
SIZES = ["same", "larger", "smaller"]
NAME = {"nonpie": "prog", "pie": "prog", "static": "prog", "shared": "libt.so"}

# (label, flags, counted_only)
OPTS_QUICK = [("default", [], False),
              ("no-update-in-place", ["--no-update-in-place"], False),
              ("threads=1", ["--threads=1"], False),
              ("threads=4", ["--threads=4"], False),
              ("no-fork", ["--no-fork"], False),
              ("update-in-place", ["--update-in-place"], True)]


def opts_thorough():
    out = []
    for mode, th, fk in itertools.product(
            [None, "--no-update-in-place", "--update-in-place"],
            [None, "--threads=1", "--threads=4"], [None, "--no-fork"]):
        flags = [f for f in (mode, th, fk) if f]
        label = "+".join(f.lstrip("-") for f in flags) or "default"
        out.append((label, flags, mode == "--update-in-place"))
    return out


def applicable(kind, use):
    """An executable is used by being executed; a shared library by being mapped."""
    return (use == "execve") == (kind != "shared")


def size_defs(kind, size, mark):
    d = [f'-DMARK="{mark}"']
    if kind in ("nonpie", "pie"):
        d.append("-DDYN")
    if size == "larger":
        d.append("-DFILL=8")
    elif size == "smaller":
        d.append("-DFILL=0")
        if kind != "shared":
            d.append("-DNOB")
    return tuple(d)


def obj_for(kind, size, mark):
    src = LIB_SRC if kind == "shared" else EXE_SRC
    return vlib.assemble(src, ext=".S", extra=size_defs(kind, size, mark))


def link_args(kind, obj, name):
    if kind == "static":
        return [obj, "-o", name]
    if kind == "nonpie":
        return [obj, "libdep.so", "-dynamic-linker", INTERP, "-o", name]
    if kind == "pie":
        return ["-pie", obj, "libdep.so", "-dynamic-linker", INTERP, "-o", name]
    return ["-shared", "-soname=libt.so", obj, "-o", name]


def build_artifacts(base):
    """Host programs (system toolchain) and libdep.so (wild). Returns dict of paths."""
    art = os.path.join(base, "art")
    os.makedirs(art)
    for n, src in (("host_dlopen.c", HOST_DLOPEN), ("host_needed.c", HOST_NEEDED)):
        with open(os.path.join(art, n), "w") as f:
            f.write(src)
    rc, _, err = liverun.run_wild(["-shared", "-soname=libdep.so", vlib.assemble(DEP_SRC), "-o",
                                   "libdep.so", "--no-fork"], art)
    if rc != 0:
        raise RuntimeError(f"libdep.so: {err!r}")
    rc, _, err = liverun.run_wild(link_args("shared", obj_for("shared", "same", "old"), "libt.so")
                                  + ["--no-fork"], art)
    if rc != 0:
        raise RuntimeError(f"reference libt.so: {err!r}")
    for cmd in (["gcc", "-O1", "host_dlopen.c", "-o", "host_dlopen", "-ldl"],
                ["gcc", "-O1", "host_needed.c", "-o", "host_needed", "-L.", "-lt", "-Wl,-z,lazy"]):
        r = subprocess.run(cmd, cwd=art, stdout=subprocess.PIPE, stderr=subprocess.PIPE)
        if r.returncode != 0:
            raise RuntimeError(f"{cmd}: {r.stderr.decode()}")
    return art


# ------------------------------------------------------------------------------------------------

def read_line(f, timeout):
    """One line from a pipe (binary file object, unbuffered) with a time limit."""
    buf = b""
    deadline = time.time() + timeout
    fd = f.fileno()
    while not buf.endswith(b"\n"):
        left = deadline - time.time()
        if left <= 0:
            return buf, False
        rl, _, _ = select.select([fd], [], [], left)
        if not rl:
            return buf, False
        c = os.read(fd, 1)
        if c == b"":
            return buf, False
        buf += c
    return buf, True


def maps_of(pid, ino):
    """Ranges of /proc/<pid>/maps that map inode `ino`: list of (range, perms, offset, path)."""
    out = []
    try:
        with open(f"/proc/{pid}/maps") as f:
            for line in f:
                p = line.split(None, 5)
                if len(p) >= 5 and p[4] == str(ino):
                    out.append((p[0], p[1], p[2], p[5].strip() if len(p) > 5 else ""))
    except OSError:
        pass
    return out


def start_user(use, root, art, name):
    env = dict(os.environ, LD_LIBRARY_PATH=root)
    if use == "execve":
        argv = [os.path.join(root, name)]
    elif use == "dlopen":
        argv = [os.path.join(art, "host_dlopen"), os.path.join(root, name)]
    else:
        argv = [os.path.join(art, "host_needed")]
    return subprocess.Popen(argv, cwd=root, env=env, stdin=subprocess.PIPE, stdout=subprocess.PIPE,
                            stderr=subprocess.PIPE, bufsize=0)


def run_history(arg):
    spec, base, art = arg
    kind, use, size = spec["kind"], spec["use"], spec["size"]
    flags = spec["flags"]
    name = NAME[kind]
    root = os.path.join(base, f"h.{os.getpid()}")
    shutil.rmtree(root, ignore_errors=True)
    os.makedirs(os.path.join(root, "fresh"))
    res = {"spec": spec, "viol": [], "machinery": None, "notes": {}}
    user = None
    oldfd = None
    try:
        for d in (root, os.path.join(root, "fresh")):
            shutil.copyfile(os.path.join(art, "libdep.so"), os.path.join(d, "libdep.so"))
        old_obj, new_obj = obj_for(kind, "same", "old"), obj_for(kind, size, "new")
        shutil.copyfile(old_obj, os.path.join(root, "old.o"))
        for d in (root, os.path.join(root, "fresh")):
            shutil.copyfile(new_obj, os.path.join(d, "new.o"))
        # 1. the old output
        rc, _, err = liverun.run_wild(link_args(kind, "old.o", name) + ["--no-fork"], root)
        if rc != 0:
            res["machinery"] = f"old link failed: {rc} {err!r}"
            return res
        path = os.path.join(root, name)
        with open(path, "rb") as f:
            old_bytes = f.read()
        st_old = os.stat(path)
        # what the relink command produces in an empty directory
        relink = link_args(kind, "new.o", name) + flags
        rc, _, err = liverun.run_wild(relink, os.path.join(root, "fresh"))
        if rc != 0:
            res["machinery"] = f"baseline link of the new program failed: {rc} {err!r}"
            return res
        with open(os.path.join(root, "fresh", name), "rb") as f:
            new_bytes = f.read()
        res["notes"]["sizes"] = [len(old_bytes), len(new_bytes)]
        if (size == "same") != (len(new_bytes) == len(old_bytes)) or \
                (size == "larger" and len(new_bytes) <= len(old_bytes)) or \
                (size == "smaller" and len(new_bytes) >= len(old_bytes)):
            res["machinery"] = f"size class {size} not realised: {res['notes']['sizes']}"
            return res
        # 2. put it in use
        user = start_user(use, root, art, name)
        line, ok = read_line(user.stdout, 20)
        if not ok or line != b"A=old\n":
            res["machinery"] = (f"user process did not start properly: {line!r} "
                                f"{user.stderr.read() if user.poll() is not None else ''!r}")
            return res
        maps_before = maps_of(user.pid, st_old.st_ino)
        if not maps_before:
            res["machinery"] = "old inode not found in /proc/pid/maps"
            return res
        oldfd = os.open(path, os.O_RDONLY)
        # 3. relink
        rc, _, err = liverun.run_wild(relink, root)
        res["relink_rc"] = rc
        res["relink_err"] = err.decode("utf-8", "replace")[-300:]
        if isinstance(rc, str):
            res["machinery"] = f"relink did not finish: {rc}"
            return res
        symptoms = []
        # old inode's bytes
        n = os.fstat(oldfd).st_size
        now = os.pread(oldfd, max(n, len(old_bytes)) + 1, 0)
        if now != old_bytes:
            symptoms.append(("old-inode-modified",
                             f"bytes of the in-use inode {st_old.st_ino} changed (size "
                             f"{len(old_bytes)} -> {len(now)}, first difference at "
                             f"{first_diff(old_bytes, now)})"))
        # mappings of the process
        maps_after = maps_of(user.pid, st_old.st_ino)
        if [m[:3] for m in maps_after] != [m[:3] for m in maps_before]:
            symptoms.append(("mappings-changed", f"{maps_before} => {maps_after}"))
        # the path
        try:
            st_new = os.stat(path)
            with open(path, "rb") as f:
                cur = f.read()
        except OSError:
            st_new, cur = None, None
        if rc == 0:
            if cur is None:
                symptoms.append(("relink-ok-no-output", "relink exited 0 but the path is absent"))
            elif cur != new_bytes:
                symptoms.append(("relink-ok-wrong-output",
                                 f"relink exited 0 but the path holds {len(cur)} bytes that "
                                 f"differ from the same link into an empty directory "
                                 f"(first difference at {first_diff(new_bytes, cur)})"))
            elif st_new.st_ino == st_old.st_ino:
                symptoms.append(("relink-reused-inode", "new contents are in the old inode"))
            res["notes"]["replaced"] = True
        else:
            res["notes"]["relink_failed"] = True
            res["notes"]["path_after_failure"] = (
                "absent" if cur is None else "old" if cur == old_bytes else "other")
        # 4. release the process
        try:
            user.stdin.write(b"x")
            user.stdin.close()
        except OSError:
            pass
        try:
            out = b""
            deadline = time.time() + 20
            while True:
                rl, _, _ = select.select([user.stdout], [], [], max(0, deadline - time.time()))
                if not rl:
                    break
                c = os.read(user.stdout.fileno(), 4096)
                if not c:
                    break
                out += c
            urc = user.wait(timeout=10)
        except subprocess.TimeoutExpired:
            user.kill()
            urc = "timeout"
        res["user_out"] = out.decode("latin-1")
        res["user_rc"] = urc
        if out != b"B=old\nA=old\nD=old\n" or urc != 0:
            how = (f"killed by {signal.Signals(-urc).name}" if isinstance(urc, int) and urc < 0
                   else f"exit {urc}")
            symptoms.append(("process-affected",
                             f"the process that had the old output in use printed {out!r} "
                             f"({how}) instead of B=old A=old D=old (exit 0)"))
        res["symptoms"] = symptoms
        return res
    finally:
        if oldfd is not None:
            os.close(oldfd)
        if user is not None and user.poll() is None:
            user.kill()
            user.wait()
        shutil.rmtree(root, ignore_errors=True)


def first_diff(a, b):
    for i, (x, y) in enumerate(zip(a, b)):
        if x != y:
            return hex(i)
    return hex(min(len(a), len(b)))


def enumerate_specs(thorough):
    opts = opts_thorough() if thorough else OPTS_QUICK
    specs, na = [], []
    for kind, use in itertools.product(KINDS, USES):
        if not applicable(kind, use):
            na.append(f"{kind}/{use}")
            continue
        for (label, flags, counted), size in itertools.product(opts, SIZES):
            specs.append(dict(kind=kind, use=use, size=size, opt=label, flags=flags,
                              counted=counted))
    return specs, na


def commands_of(spec):
    kind = spec["kind"]
    name = NAME[kind]
    user = {"execve": f"LD_LIBRARY_PATH=. ./{name} (stdin = pipe)",
            "dlopen": f"host_dlopen $PWD/{name} (stdin = pipe)",
            "needed": "LD_LIBRARY_PATH=. host_needed (stdin = pipe)"}[spec["use"]]
    return {"old_link": "wild " + " ".join(link_args(kind, "old.o", name)),
            "user": user,
            "relink": "wild " + " ".join(link_args(kind, "new.o", name) + spec["flags"]),
            "old.o": "gcc -c " + " ".join(size_defs(kind, "same", "old")) + " src.S",
            "new.o": "gcc -c " + " ".join(size_defs(kind, spec["size"], "new")) + " src.S"}


def main():
    chk = vlib.Check("C21", "fault_enumeration")
    if not chk.args.no_build:
        vlib.build("wild")
    with vlib.scratch("c21") as base:
        art = build_artifacts(base)
        if chk.args.replay:
            with open(chk.args.replay) as f:
                rec = json.load(f)
            r = run_history((rec["replay"]["spec"], base, art))
            print(json.dumps(r, indent=1, default=str))
            keys = {key_of(r["spec"], s) for s, _ in r.get("symptoms", [])}
            if rec["key"] in keys:
                print(f"REPRODUCED {rec['key']}")
                sys.exit(vlib.EXIT_VIOLATION)
            print(f"NOT REPRODUCED {rec['key']} (got {sorted(keys)})")
            sys.exit(vlib.EXIT_OK)
        specs, na = enumerate_specs(chk.thorough)
        if chk.seed:
            import random
            random.Random(chk.seed).shuffle(specs)
        results = vlib.pmap(run_history, [(s, base, art) for s in specs], chunksize=1)
    counted = {}
    outcomes = {}
    probe_tripped = probe_total = 0
    nontrivial = set()
    samples = []
    for r in results:
        s = r["spec"]
        if r["machinery"]:
            chk.machinery(f"history {s}: {r['machinery']}")
        sym = r["symptoms"]
        oc = ("replaced" if r["notes"].get("replaced") else
              "relink-failed:path-" + r["notes"].get("path_after_failure", "?"))
        outcomes[f"{s['kind']}/{s['use']}/{s['opt']}: {oc}"] = \
            outcomes.get(f"{s['kind']}/{s['use']}/{s['opt']}: {oc}", 0) + 1
        # non-trivial: the relink really ran against an in-use inode and either replaced the path
        # or failed; distinct by (kind, use, options, size)
        nontrivial.add((s["kind"], s["use"], s["opt"], s["size"]))
        if s["counted"]:
            # (with --threads=1 wild always unlinks the old output first, whatever the mode)
            if s["kind"] == "shared" and "--threads=1" not in s["flags"]:
                probe_total += 1
                if any(k == "old-inode-modified" for k, _ in sym) and \
                        any(k == "process-affected" for k, _ in sym):
                    probe_tripped += 1
            for k, _ in sym:
                ck = f"explicit-update-in-place:{s['kind']}/{s['use']}:{k}"
                counted[ck] = counted.get(ck, 0) + 1
            continue
        for k, what in sym:
            chk.violation(key_of(s, k), f"{what} [{json.dumps(s)}]",
                          {"spec": s, "commands": commands_of(s), "relink_rc": r.get("relink_rc"),
                           "relink_stderr": r.get("relink_err"), "user_out": r.get("user_out"),
                           "user_rc": r.get("user_rc"),
                           "sources": {"exe": EXE_SRC, "lib": LIB_SRC, "dep": DEP_SRC,
                                       "host_dlopen": HOST_DLOPEN, "host_needed": HOST_NEEDED}})
    if probe_total == 0 or probe_tripped != probe_total:
        chk.machinery(f"sensitivity probe: explicit --update-in-place on a mapped shared library "
                      f"tripped the oracle in {probe_tripped} of {probe_total} histories")
    for r in results[:: max(1, len(results) // 5)][:5]:
        samples.append({"spec": r["spec"], "commands": commands_of(r["spec"]),
                        "relink_rc": r.get("relink_rc"), "user_out": r.get("user_out"),
                        "user_rc": r.get("user_rc"), "notes": r["notes"],
                        "symptoms": [k for k, _ in r["symptoms"]]})
    chk.coverage = {
        "evaluations": len(results),
        "distinct_nontrivial": len(nontrivial),
        "rule": "product old output kind x way of use x relink options x size class of the new "
                "program, restricted to applicable (kind, use) pairs; every member is a real "
                "history (old link, user process parked, relink, release); a member is "
                "non-trivial when the relink ran to an exit status against the in-use inode, "
                "distinct by (kind, use, options, size)",
        "samples": samples,
        "exhaustive": True,
        "not_applicable_pairs": na,
        "relink_outcomes": outcomes,
        "counted_not_raised": counted,
        "sensitivity_probe": {"histories": probe_total, "oracle_tripped": probe_tripped},
        "process_runs": {"histories": len(results), "wild_links": 3 * len(results),
                         "user_processes": len(results)},
    }
    chk.assumptions = [
        "x86-64 Linux, tmpfs scratch (/dev/shm); ETXTBSY is enforced for execve'd files here",
        "user process observed after wild and every process it forked have exited",
        "`--update-in-place` given explicitly is outside 'default options': counted only",
        "an executable in use by dlopen / DT_NEEDED and a shared library in use by execve are "
        "not applicable and not enumerated",
    ]
    chk.finish()


def key_of(spec, symptom):
    return f"{spec['kind']}:{spec['use']}:{spec['opt']}:{symptom}"


if __name__ == "__main__":
    main()
