#!/usr/bin/env python3
"""C22 - Malformed input produces a diagnostic, never a crash.

Bounded-exhaustive mutation enumeration (lib/mutenum.py); every member is linked by the real wild.

  binary   4 seeds of <= 2 KiB whose every structural field has a known file offset (object: elfgen
           - symtab, rela, COMDAT group, merge strings, hand-assembled .eh_frame CIE+FDE with a
           relocation, .note.gnu.property, TLS, a common symbol; shared object: GNU ld once, fields
           located with elfread - ELF header, section headers, program headers, dynamic entries,
           dynsym, versym, verdef/verdaux, hash headers; regular and thin archive: written by hand -
           every ar header field, symbol-table count/offsets, long-name terminators) x
           { every single-field mutation over {0, 1, old-1, old+1, 0x7f, 0x80, all-ones, file size,
             file size+1, sign bit} + per field kind: every section / symbol index and the first
             invalid one, offset/size boundary and wrap-around values, every known sh_type / r_type /
             st_info nibble / flag bit, all 256 values of 1-byte fields (thorough), ASCII spellings
             for ar fields ; every truncation length 0..len-1 ; (thorough) every pair from a
             (10 section-header fields x ~10 symbol/rela/dynamic fields) shortlist over 7 values }.
           Linked as `seed.o start.o`, `main.o seed.so`, `main.o seed.a` (the other object refers
           into the mutated file); thorough: the object seed's quick set again with
           `-pie --no-gc-sections` and with `-r`.
  text     linker script (-T, and as an implicit input), version script, dynamic list / export
           list (one parser; also --export-dynamic-symbol-list and --export-dynamic-symbol=<text>),
           response file (@file; a token `@self` = the file itself): every string of tokens joined
           by one space over a 14..17-token alphabet, up to length 3 (quick; + the structured subset
           of length 4: first token in 2 openers, last token in 2 closers) / 4 (thorough; + the same
           structured subset of length 5), plus every string up to length 2 / 3 inside well-formed
           frames (`SECTIONS { .. }`, `V1 { .. };` ...). A string containing a shorter string that
           already panicked / crashed / hung is dominated and not run (counted).
  args     every list of <= 2 (quick: pairs over the first 30 entries) / 3 (thorough: triples over
           the first 24 entries, after the object only) spellings from a 68-entry alphabet of
           options with no / empty / garbage / huge / negative values, before and after one trivial
           object; spellings with an empty word and --help/--version/-v run as real processes.

Oracle (only what the property says): the link terminates with either success or a non-empty
diagnostic and failure status; never a panic, a death by signal, or a hang.
Links run in wild's in-process server (it catches unwinds; the panic location is read from the
server's stderr); then every distinct class - panic site `panic:<file>:<line>`, crash
`signal:<signo>:<seed>:<field class>`, hang `hang:<seed>:<field class>` (text: + the minimal token
string) - is confirmed by a real `wild` process on the same files before it is reported. A server
verdict that a real process does not reproduce is listed in the evidence and not reported.
Members are run in a fixed priority order under a wall-clock budget; what the budget cut is listed
under `capped` and then `exhaustive` is false.
"""
import json
import multiprocessing
import os
import re
import shutil
import sys
import time

sys.path.insert(0, os.path.join(os.path.dirname(os.path.abspath(__file__)), "..", "lib"))
import vlib
import mutenum as M

CTX = {}          # filled before the worker pool forks
QUICK_BUDGET = 33
THOROUGH_BUDGET = 12.5 * 60
ARG_CORE_Q, ARG_CORE_T = 30, 24
TEXT_KEY_CAP = 12
# extra link modes of the object seed (thorough)
OBJECT_MODES = (("-pie", "--no-gc-sections"), ("-r",))
BAD = ("panic", "signal", "hang", "silent-error", "badexit")
ERR_LINE = re.compile(r"^wild: (\x1b\[[0-9;]*m)*error", re.M)


# ---------------------------------------------------------------------------------------------
# Items -> cases

def tok_label(grammar, toks):
    alpha = M.GRAMMARS[grammar][0]
    return " ".join({"@{f}": "@self", M.LONG_TOKEN: "<A*10000>"}.get(alpha[t], alpha[t])
                    for t in toks)


def resolve(item):
    """-> dict(sub=<subdir>, files={rel: bytes} (companions), mut=(rel, bytes)|None, argv=[...],
    desc, family, cls, size)"""
    kind = item[0]
    if kind == "bin":
        _, sname, lname, i, mode = item
        seed = CTX["seeds"][sname]
        desc, cls, patches, huge = CTX["muts"][sname, lname][i]
        data = M.apply_patches(seed.data, patches)
        argv = [a.replace("{f}", seed.fname).replace("{out}", "out") for a in seed.argv] + list(mode)
        return dict(sub=sname, files=seed.files, mut=(seed.fname, data), argv=argv, huge=huge,
                    desc="%s seed: %s%s" % (sname, desc, (" [%s]" % " ".join(mode)) if mode else ""),
                    family="bin:%s:%s" % (sname, lname), seed=sname, cls=cls,
                    size=(len(patches), len(desc)))
    if kind == "txt":
        _, grammar, toks, variant = item
        text = M.render(grammar, toks, "c.txt")
        if variant[0] == "w":
            pre, post = M.WRAPS[grammar][int(variant[1:])]
            text = (pre + " " + text + " " + post) if text else (pre + " " + post)
        argv = {"implicit": M.IMPLICIT_SCRIPT_ARGV, "alt": M.EXPORT_LIST_ALT_ARGV,
                "arg": M.EXPORT_SYMBOL_ARGV}.get(variant, M.GRAMMARS[grammar][1])
        argv = [a.replace("{f}", "c.txt").replace("{out}", "out").replace("{text}", text)
                for a in argv]
        if variant == "arg" and not text:
            argv = [a for a in argv if a]
        return dict(sub="txt", files=M.TRIVIAL, mut=("c.txt", text.encode()), argv=argv, huge=False,
                    desc="%s%s: tokens [%s]%s" % (grammar, "" if variant == "main" else "/" + variant,
                                                  tok_label(grammar, toks),
                                                  " in frame %r" % (M.WRAPS[grammar][int(variant[1:])],)
                                                  if variant[0] == "w" else ""),
                    family="txt:%s:%s" % (grammar, variant), seed=grammar, cls=variant,
                    size=(len(toks), len(text)), toks=tuple(toks))
    if kind in ("arg", "argsub"):
        _, words, order = item
        if kind == "arg":
            words = [w for i in words for w in M.ARG_ALPHABET[i]]
        argv = ["t.o", "-o", "out"] + list(words) if order == "after" else \
            list(words) + ["t.o", "-o", "out"]
        return dict(sub="arg", files=M.TRIVIAL, mut=None, argv=argv,
                    huge=any(M.HUGE in w or "f" * 16 in w for w in words),
                    desc="args %s: %r" % (order, list(words)), family="args:" + kind, seed="args",
                    cls=order, size=(len(words), sum(map(len, words))))
    raise ValueError(item)


def write_case(d, case):
    for rel, data in list(case["files"].items()) + ([case["mut"]] if case["mut"] else []):
        path = os.path.join(d, rel)
        os.makedirs(os.path.dirname(path), exist_ok=True)
        with open(path, "wb") as f:
            f.write(data)


def _subdir(sub, files):
    st = CTX.get("w")
    if st is None or st["pid"] != os.getpid():
        st = CTX["w"] = {"pid": os.getpid(), "ready": set(),
                         "dir": os.path.join(CTX["base"], "w%d" % os.getpid())}
    d = os.path.join(st["dir"], sub)
    if sub not in st["ready"]:
        os.makedirs(d, exist_ok=True)
        write_case(d, {"files": files, "mut": None})
        st["ready"].add(sub)
    return d


def work(item):
    """Runs one member. -> (class, detail, normalised first line, short message)"""
    case = resolve(item)
    d = _subdir(case["sub"], case["files"])
    if case["mut"]:
        with open(os.path.join(d, case["mut"][0]), "wb") as f:
            f.write(case["mut"][1])
    if item[0] == "argsub":
        rc, so, se = M.run_subprocess(case["argv"], d)
        cls, detail = judge_subprocess(rc, so, se)
        msg = se
    else:
        rc, msg, err, died = M.link(case["argv"], d)
        cls, detail = M.classify(rc, msg, err, died)
        if cls == "panic":
            msg = M.panic_message(err)
        elif cls in ("signal", "badexit"):
            msg = err[-300:]
    for leftover in ("out", "out.delete"):
        try:
            os.unlink(os.path.join(d, leftover))
        except OSError:
            pass
    norm = M.normalise(msg, d) if cls in ("ok", "error") else ""
    return cls, detail, norm, (msg or "")[:300]


def work_batch(batch):
    return [(i, work(item)) for i, item in batch]


def kill_servers():
    """Servers of terminated workers that are stuck in a link never see EOF on stdin."""
    mark = ("C22_OWNER=%d" % os.getpid()).encode()
    for pid in os.listdir("/proc"):
        if not pid.isdigit() or int(pid) == os.getpid():
            continue
        try:
            with open("/proc/%s/environ" % pid, "rb") as f:
                env = f.read()
            if mark in env.split(b"\0") and os.readlink("/proc/%s/exe" % pid).startswith(vlib.WILD):
                os.kill(int(pid), 9)
        except OSError:
            pass


def judge_subprocess(rc, so, se):
    """The oracle for a real process."""
    if rc == "timeout":
        return "hang", ""
    if "panicked at" in se:
        return "panic", M.panic_site(se) or "?"
    if isinstance(rc, int) and rc < 0:
        m = M.ALLOC_RE.search(se)
        if m and int(m.group(1)) < M.ALLOC_REPORT_MIN:
            return "alloc-limit", m.group(1)
        return "signal", str(-rc)
    has_err = bool(ERR_LINE.search(se))
    if rc == 0:
        return ("ok", "") if not has_err else ("badexit", "exit 0 with an error line")
    text = re.sub(r"\x1b\[[0-9;]*m", "", se)
    text = re.sub(r"^wild: (error|warning):", "", text, flags=re.M)
    if not text.strip():
        return "silent-error", ""        # non-zero status but no message text at all
    return "error", ""


# ---------------------------------------------------------------------------------------------
# Book-keeping

class Book:
    def __init__(self):
        self.n = 0
        self.outcomes = {}          # (class, normalised line) -> count
        self.by_family = {}         # family -> {class: count}
        self.findings = {}          # provisional key -> [(size, item, detail, msg)] (<= 4 smallest)
        self.bad_text = {}          # grammar -> set of token tuples that crashed / hung / panicked
        self.samples = []
        self.machinery = None
        self.exit0 = 0
        self.finding_counts = {}

    def add(self, item, res):
        cls, detail, norm, msg = res
        self.n += 1
        case = None
        fam = family_of(item)
        c = self.by_family.setdefault(fam, {})
        c[cls] = c.get(cls, 0) + 1
        k = (cls, norm if cls in ("ok", "error") else detail)
        self.outcomes[k] = self.outcomes.get(k, 0) + 1
        if cls == "machinery":
            self.machinery = "%r: %s" % (item, detail)
        if cls == "exit0":
            self.exit0 += 1
        if cls in BAD:
            case = resolve(item)
            if cls == "panic":
                key = "panic:" + detail
            elif cls == "signal":
                key = "signal:%s:%s:%s" % (detail, case["seed"], case["cls"])
            else:
                key = "%s:%s:%s" % (cls, case["seed"], case["cls"])
            if item[0] == "txt" and cls in ("signal", "hang"):
                # with domination only minimal strings are run: each is its own class
                key += ":" + tok_label(item[1], item[2]).replace(" ", "_")
            self.finding_counts[key] = self.finding_counts.get(key, 0) + 1
            lst = self.findings.setdefault(key, [])
            lst.append(((case["huge"],) + tuple(case["size"]), item, detail, msg))
            lst.sort(key=lambda x: x[0])
            del lst[4:]
            if item[0] == "txt":
                self.bad_text.setdefault((item[1], item[3]), {})[tuple(item[2])] = cls
        if len(self.samples) < 8 and (self.n % 1499 == 1 or (cls in BAD and len(self.samples) < 5)):
            case = case or resolve(item)
            self.samples.append({"case": case["desc"][:160], "outcome": cls,
                                 "detail": (detail or norm)[:120]})


def family_of(item):
    if item[0] == "bin":
        return "bin:%s:%s%s" % (item[1], item[2], ":" + "".join(item[4]) if item[4] else "")
    if item[0] == "txt":
        return "txt:%s:%s:len%d" % (item[1], item[3], len(item[2]))
    return "args:%s:%s:len%d" % (item[0], item[2], len(item[1]))


def contains_sub(t, bad):
    n = len(t)
    for ln in range(1, n):
        for i in range(n - ln + 1):
            if t[i:i + ln] in bad:
                return True
    return False


# ---------------------------------------------------------------------------------------------
# Confirmation by a real process, replay

def case_to_replay(case, item):
    return {"item": list(item) if item[0] != "bin" else None, "description": case["desc"],
            "argv": case["argv"], "cwd_files": {rel: data.hex() for rel, data in
                                                 list(case["files"].items()) +
                                                 ([case["mut"]] if case["mut"] else [])},
            "mutated_file": case["mut"][0] if case["mut"] else None, "huge_value": case["huge"],
            "limits": {"RLIMIT_AS": M.AS_LIMIT, "RLIMIT_FSIZE": M.FSIZE_LIMIT, "timeout_s": M.TIMEOUT},
            "how": "write cwd_files into an empty directory, cd there, run /verif/.build/bin/wild "
                   "<argv> (RUST_BACKTRACE unset)"}


def run_replay_case(rep, base, with_server=False, timeout=None):
    timeout = timeout or M.TIMEOUT
    d = os.path.join(base, "replay")
    shutil.rmtree(d, ignore_errors=True)
    os.makedirs(d)
    for rel, hx in rep["cwd_files"].items():
        path = os.path.join(d, rel)
        os.makedirs(os.path.dirname(path), exist_ok=True)
        with open(path, "wb") as f:
            f.write(bytes.fromhex(hx))
    rc, so, se = M.run_subprocess(rep["argv"], d, timeout=timeout)
    cls, detail = judge_subprocess(rc, so, se)
    res = {"process": {"rc": rc, "class": cls, "detail": detail, "stderr": se[-600:]}}
    if cls not in BAD:
        # forked mode can mask the death of the linking child: look at the linking process itself
        rc2, so2, se2 = M.run_subprocess(["--no-fork"] + rep["argv"], d, timeout=timeout)
        cls2, detail2 = judge_subprocess(rc2, so2, se2)
        res["process_no_fork"] = {"rc": rc2, "class": cls2, "detail": detail2, "stderr": se2[-600:]}
    if with_server and all(rep["argv"]):
        rc3, msg3, err3, died3 = M.link(rep["argv"], d)
        cls3, detail3 = M.classify(rc3, msg3, err3, died3)
        res["server"] = {"rc": rc3, "class": cls3, "detail": detail3,
                         "message": (msg3 or "")[:300], "stderr": err3[-600:]}
    return res


def confirmed(res):
    """-> (class, detail, which run) of the first run of a real process that violates, else None"""
    for which in ("process", "process_no_fork"):
        r = res.get(which)
        if r and r["class"] in BAD:
            return r["class"], r["detail"], which, r
    return None


def replay_main(chk):
    with open(chk.args.replay) as f:
        rec = json.load(f)
    rep = rec["replay"]
    with vlib.scratch("c22r") as base:
        res = run_replay_case(rep, base, with_server=True,
                              timeout=60 if rec["key"].startswith("hang") else 20)
    print(json.dumps(res, indent=1, default=str))
    c = confirmed(res)
    if c:
        print("VIOLATION reproduced: %s %s (%s)" % c[:3])
        sys.exit(vlib.EXIT_VIOLATION)
    print("not reproduced")
    sys.exit(vlib.EXIT_OK)


# ---------------------------------------------------------------------------------------------

def main():
    chk = vlib.Check("C22", "exploration")
    if chk.args.replay:
        replay_main(chk)
    if not chk.args.no_build:
        vlib.build("wild")
    T = chk.thorough
    M.TIMEOUT = 20 if T else 8      # hang limit per link in the server
    t_start = time.time()
    budget = THOROUGH_BUDGET if T else QUICK_BUDGET
    if os.environ.get("C22_BUDGET"):          # development aid
        budget = float(os.environ["C22_BUDGET"])
    M.init_common()
    seeds = {}
    for name in (("object", "shared", "archive", "thin") if T else ("object",)):
        try:
            seeds[name] = M.SEED_BUILDERS[name](T)
        except Exception as ex:     # noqa: BLE001
            chk.machinery("building the %s seed failed: %r" % (name, ex))
    muts = {}
    for name, s in seeds.items():
        muts[name, "single"] = M.single_field_mutations(s, T)
        muts[name, "trunc"] = M.truncations(s)
        if T:
            if name == "object":
                muts[name, "single-q"] = M.single_field_mutations(M.build_object_seed(False), False)
            muts[name, "pairs"] = M.pair_mutations(s)
            if hasattr(s, "param_mutations"):
                muts[name, "param"] = s.param_mutations
    book = Book()
    capped = []
    with vlib.scratch("c22") as base:
        CTX.update(base=base, seeds=seeds, muts=muts)
        # Baselines: every well-formed seed must link (else the harness is at fault).
        for name, s in seeds.items():
            muts[name, "baseline"] = [("unmodified", "baseline", [], False)]
            for mode in ((),) + (OBJECT_MODES if T and name == "object" else ()):
                r = work(("bin", name, "baseline", 0, mode))
                if r[0] != "ok":
                    chk.machinery("the unmodified %s seed does not link %r: %r" % (name, mode, r))
        for it in (("txt", "linker-script", (), "main"), ("arg", (), "after")):
            r = work(it)
            if r[0] != "ok":
                chk.machinery("baseline %r does not link: %r" % (it, r))
        for key in list(M._SRVS):
            M._SRVS.pop(key).stop()     # the pool's workers start their own servers
        os.environ["C22_OWNER"] = str(os.getpid())
        pool = multiprocessing.Pool(vlib.NPROC)

        def left():
            return budget - (time.time() - t_start)

        only = [x for x in os.environ.get("C22_PHASES", "").split(",") if x]   # development aid

        state = {"cut": False}

        def run(name, items):
            """Runs a phase; False when the time budget cut it (the pool is then gone)."""
            if only and not any(name.startswith(o) for o in only):
                return True
            items = list(items)
            if chk.seed:
                import random
                random.Random(chk.seed).shuffle(items)
            done = 0
            if not state["cut"] and left() > 0:
                pairs = list(enumerate(items))
                it = pool.imap_unordered(work_batch, [pairs[k:k + 8] for k in
                                                      range(0, len(pairs), 8)])
                while True:
                    try:
                        results = it.next(timeout=max(0.05, left()))
                    except StopIteration:
                        break
                    except multiprocessing.TimeoutError:
                        state["cut"] = True
                        pool.terminate()
                        break
                    for i, res in results:
                        book.add(items[i], res)
                        done += 1
                    if book.machinery:
                        pool.terminate()
                        kill_servers()
                        chk.machinery(book.machinery)
            if done < len(items):
                state["cut"] = True
                capped.append("%s: %d of %d members not run (time budget %ds)" %
                              (name, len(items) - done, len(items), budget))
                return False
            return True

        def text_items(grammar, variant, length, subset=None):
            """Members of one (grammar, variant, length); a text containing a shorter text that
            already panicked / crashed / hung is dominated and not run."""
            bad = set(book.bad_text.get((grammar, variant), {}))
            n = len(M.GRAMMARS[grammar][0])
            gen = subset if subset is not None else M.token_strings(n, length, length)
            items = []
            for t in gen:
                if bad and contains_sub(t, bad):
                    dominated[0] += 1
                    continue
                items.append(("txt", grammar, t, variant))
            return items

        def text_round(length):
            items = []
            for g in M.GRAMMARS:
                items += text_items(g, "main", length)
                if g == "export-list" and length <= 2:
                    items += text_items(g, "alt", length) + text_items(g, "arg", length)
                if g == "linker-script" and length <= (3 if T else 2):
                    items += text_items(g, "implicit", length)
                if length <= (3 if T else 2):
                    for k in range(len(M.WRAPS[g])):
                        items += text_items(g, "w%d" % k, length)
            return items

        dominated = [0]
        try:
            nA = len(M.ARG_ALPHABET)
            core = ARG_CORE_T if T else ARG_CORE_Q
            # 1. the small families first, in one stream: texts of <= 2 tokens, argument lists of
            #    <= 1
            small = text_round(0) + text_round(1)
            small += [("arg", (), "after")] + [("arg", (i,), order) for i in range(nA)
                                               for order in ("after", "before")]
            procs = []      # the argument lists that need a real process (slow: run later)
            for order in ("after", "before"):
                for w in M.ARG_EMPTY + M.ARG_EXIT:
                    procs.append(("argsub", tuple(w), order))
                    if T:
                        for other in M.ARG_ALPHABET[:core]:
                            procs.append(("argsub", tuple(w) + tuple(other), order))
                            procs.append(("argsub", tuple(other) + tuple(w), order))
            run("txt<=1,args<=1", small)
            run("txt=2", text_round(2))
            # 2. binary seeds: single-field mutations and truncations
            for name in seeds:
                run("bin:%s:single+trunc" % name,
                    [("bin", name, "single", i, ()) for i in range(len(muts[name, "single"]))] +
                    [("bin", name, "trunc", i, ()) for i in range(len(muts[name, "trunc"]))])
            # 3. texts of 3 tokens, argument pairs, argument lists as real processes
            run("txt=3,args=2", text_round(3) +
                [("arg", (i, j), order) for order in ("after", "before")
                 for i in range(nA if T else core) for j in range(nA if T else core)])
            run("args:process", procs)
            if T:
                for name in seeds:
                    run("bin:%s:pairs" % name,
                        [("bin", name, "pairs", i, ()) for i in range(len(muts[name, "pairs"]))] +
                        [("bin", name, "param", i, ())
                         for i in range(len(muts.get((name, "param"), ())))])
                small_g = [g for g in M.GRAMMARS if g != "linker-script"]
                run("txt=4:" + ",".join(small_g),
                    [it for g in small_g for it in text_items(g, "main", 4)])
                run("args=3", [("arg", (i, j, k), "after") for i in range(core)
                               for j in range(core) for k in range(core)])
                for mode in OBJECT_MODES:
                    run("bin:object:single:" + mode[0],
                        [("bin", "object", "single-q", i, mode)
                         for i in range(len(muts["object", "single-q"]))])
                run("txt=4:linker-script", text_items("linker-script", "main", 4))
                run("txt=5:structured",
                    [it for g in small_g + ["linker-script"]
                     for it in text_items(g, "main", 5, subset=M.structured(g, 5, 2, 2))])
            else:
                run("txt=4:structured",
                    [it for g in M.GRAMMARS
                     for it in text_items(g, "main", 4, subset=M.structured(g, 4, 2, 2))])
        finally:
            pool.terminate()
            pool.join()
            kill_servers()
        t_enum = time.time() - t_start

        # ---- confirmation of every provisional finding class by a real process -----------------
        tb = time.time()
        rcb = M.run_subprocess(["t.o", "-o", "out"], _subdir("arg", M.TRIVIAL))[0]
        tb = time.time() - tb
        if rcb != 0:
            chk.machinery("baseline process run failed: %r" % (rcb,))
        # A hang must again be a hang as a real process, with a limit of at least 100x the time a
        # trivial link takes right now. An input that declares a huge size / count / address
        # (a mutated value >= 2^24) can legitimately need time proportional to it (observed: a
        # 2 GiB .tbss with -r takes about a minute and then finishes): such a candidate is not
        # judged at all; it is listed in the evidence.
        hang_short = min(60.0 if T else 16.0, max(float(M.TIMEOUT), 100 * tb))
        confirmed_sites, unconfirmed, deferred, folded = {}, {}, {}, {}
        nproc = [0]
        import itertools
        counter = itertools.count()

        def limit_for(key, case):
            if not key.startswith("hang"):
                return 20
            return hang_short

        def confirm_job(job):
            key, item, msg = job
            case = resolve(item)
            rep = case_to_replay(case, item)
            res = run_replay_case(rep, os.path.join(base, "confirm%d" % next(counter)),
                                  timeout=limit_for(key, case))
            return case, rep, res

        def final_key(cls, cdetail, case, item):
            if cls == "panic":
                k = "panic:" + cdetail
                if not cdetail.startswith(("libwild/", "wild/", "linker-utils/")):
                    # a location inside std / a dependency says little about the caller
                    k += ":%s:%s" % (case["seed"], case["cls"])
                return k
            if cls == "signal":
                k = "signal:%s:%s:%s" % (cdetail, case["seed"], case["cls"])
            else:
                k = "%s:%s:%s" % (cls, case["seed"], case["cls"])
            if item[0] == "txt" and cls in ("signal", "hang"):
                k += ":" + tok_label(item[1], item[2]).replace(" ", "_")
            return k

        def single_keys_of_pair(fkey, case):
            """For a pair mutation: the keys the same class would have for each field alone."""
            if not case["cls"].startswith("pair:"):
                return []
            a, b = case["cls"][5:].split("+", 1)
            return [fkey.replace(case["cls"], a), fkey.replace(case["cls"], b)]

        import concurrent.futures

        def confirm_round(keys):
            jobs0 = {}
            for key in keys:
                cands = [c for c in book.findings[key]
                         if not (key.startswith("hang") and resolve(c[1])["huge"])]
                if not cands:
                    deferred[key] = resolve(book.findings[key][0][1])["desc"][:200]
                    continue
                jobs0[key] = cands
            with concurrent.futures.ThreadPoolExecutor(12) as ex:
                order = list(jobs0)
                first = dict(zip(order, ex.map(
                    confirm_job, [(k, jobs0[k][0][1], jobs0[k][0][3]) for k in order])))
            for key in order:
                ok = False
                for n, (size, item, detail, msg) in enumerate(jobs0[key][:3]):
                    case, rep, res = first[key] if n == 0 else confirm_job((key, item, msg))
                    nproc[0] += 1 + ("process_no_fork" in res)
                    c = confirmed(res)
                    if c is None:
                        continue
                    cls, cdetail, which, r = c
                    fkey = final_key(cls, cdetail, case, item)
                    ok = True
                    if item[0] == "txt" and cls in ("signal", "hang") and contains_sub(
                            tuple(item[2]), set(book.bad_text.get((item[1], item[3]), {}))):
                        folded[fkey] = "contains a shorter failing text"
                        continue
                    if fkey in confirmed_sites:
                        continue        # reproduces a class that is already reported
                    alt = [k for k in single_keys_of_pair(fkey, case) if k in confirmed_sites]
                    if alt:
                        folded[fkey] = alt[0]     # one of the two fields alone already does it
                        continue
                    rep["observed"] = {"server": {"class": key, "message": msg}, which: r}
                    what = "%s -> %s%s as a real process (%s, exit %s%s): %s; reproduce: `wild %s` " \
                        "in a directory holding the replay's cwd_files" % (
                            case["desc"][:200], cls, " at " + cdetail if cls == "panic" else
                            (" " + cdetail if cdetail else ""), which, r["rc"],
                            ", limit %.0f s" % limit_for(key, case) if cls == "hang" else "",
                            " | ".join(l for l in r["stderr"].strip().split("\n")
                                       if l and "RUST_BACKTRACE" not in l)[:260],
                            " ".join(case["argv"])[:200])
                    confirmed_sites[fkey] = what
                    chk.violation(fkey, what, rep)
                    break
                if not ok:
                    unconfirmed[key] = resolve(book.findings[key][0][1])["desc"][:200]

        # Text crash / hang classes are keyed by token string: keep the minimal ones only, and at
        # most TEXT_KEY_CAP per (class, grammar, variant), shortest first.
        allkeys, per_prefix, over_cap = [], {}, {}
        for key in sorted(book.findings, key=lambda k: (book.findings[k][0][0], k)):
            item = book.findings[key][0][1]
            if item[0] == "txt" and key.startswith(("signal", "hang")):
                if contains_sub(tuple(item[2]), set(book.bad_text.get((item[1], item[3]), {}))):
                    folded[key] = "contains a shorter failing text"
                    continue
                prefix = key[:-len(tok_label(item[1], item[2])) - 1]
                per_prefix[prefix] = per_prefix.get(prefix, 0) + 1
                if per_prefix[prefix] > TEXT_KEY_CAP:
                    over_cap[prefix] = over_cap.get(prefix, 0) + 1
                    continue
            allkeys.append(key)
        allkeys.sort()
        confirm_round([k for k in allkeys if ":pair:" not in k])
        confirm_round([k for k in allkeys if ":pair:" in k])
        kill_servers()
        for key, desc in deferred.items():
            print("NOTE: %s: no result in time, but the input declares a huge value; not judged: %s"
                  % (key, desc), file=sys.stderr)
        for key, desc in unconfirmed.items():
            print("NOTE: server verdict %s not reproduced by a real process (not reported): %s"
                  % (key, desc), file=sys.stderr)

    per = {f: dict(sorted(c.items())) for f, c in sorted(book.by_family.items())}
    fam_tot = {}
    for f, c in book.by_family.items():
        top = ":".join(f.split(":")[:2])
        fam_tot[top] = fam_tot.get(top, 0) + sum(c.values())
    by_class = {}
    for (cls, _), n in book.outcomes.items():
        by_class[cls] = by_class.get(cls, 0) + n
    if by_class.get("ok", 0) == 0 or by_class.get("error", 0) == 0:
        chk.machinery("vacuous run: %r" % by_class)
    chk.coverage = {
        "evaluations": book.n,
        "distinct_nontrivial": len(book.outcomes),
        "nontrivial_rule": "distinct (outcome class, normalised first line of the diagnostic | panic "
                           "site | signal number) pairs observed",
        "rule": "every single-field mutation (value set {0,1,old-1,old+1,0x7f,0x80,all-ones,file "
                "size,file size+1,sign bit} + index / boundary / enumerated-type values per field "
                "kind) of every structural field of each binary seed; every truncation length; "
                "every pair over the shortlist (thorough); every token string up to the stated "
                "length per grammar; every argument list up to the stated length",
        "exhaustive": not capped and not over_cap,
        "capped": capped + ["%s: %d more text classes than the confirmation cap of %d, not judged"
                            % (k, v, TEXT_KEY_CAP) for k, v in over_cap.items()],
        "outcome_classes": by_class,
        "per_seed_or_grammar": fam_tot,
        "per_family": per,
        "seed_sizes": {n: len(s.data) for n, s in seeds.items()},
        "seed_fields": {n: len(s.fields) for n, s in seeds.items()},
        "text_members_dominated_not_run": dominated[0],
        "distinct_panic_sites_server": sorted(k for k in book.findings if k.startswith("panic:")),
        "server_verdict_classes": dict(sorted(book.finding_counts.items())),
        "confirmed_violation_keys": sorted(confirmed_sites),
        "unconfirmed_server_verdicts": unconfirmed,
        "slow_or_hang_not_judged_huge_declared_value": deferred,
        "classes_folded_into_another_key": folded,
        "text_classes_over_confirmation_cap": over_cap,
        "confirmation_subprocesses": nproc[0],
        "server_clean_exits": book.exit0,
        "enumeration_wall_s": round(t_enum, 1),
        "samples": book.samples,
        "distinct_outcomes_sample": [list(k) + [n] for k, n in
                                     sorted(book.outcomes.items(), key=lambda x: -x[1])[:40]],
    }
    chk.assumptions = [
        "every wild process runs with RLIMIT_AS=%d GiB and RLIMIT_FSIZE=%d GiB (SIGXFSZ ignored); an "
        "allocation-failure abort is reported only for a request larger than RAM+swap of this machine "
        "(%.1f GiB; refused by the kernel whatever the limits), smaller ones are counted as class "
        "alloc-limit and not reported" %
        (M.AS_LIMIT >> 30, M.FSIZE_LIMIT >> 30, M.ALLOC_REPORT_MIN / 2.0 ** 30),
        "hang = no result within %d s in the server and then again as a real process within "
        "max(%d s, 100 x the wall time of a trivial link measured at that moment; at most 60 s, "
        "quick tier 16 s); "
        "when the mutated value is >= 2^24 (a declared size/count/address that can legitimately "
        "cost proportional time) a time-out is not judged (listed under "
        "slow_or_hang_not_judged_huge_declared_value)" % (M.TIMEOUT, M.TIMEOUT),
        "hooks-on build with release semantics (no debug assertions, no overflow checks)",
        "text members containing a shorter member that already panicked/crashed/hung are counted "
        "as dominated and not run",
        "x86-64 inputs only",
    ]
    chk.finish()


if __name__ == "__main__":
    main()
