#!/usr/bin/env python3
"""C23 - Size accounting never fails on valid input.

Every program of a feature corpus (C sources compiled with gcc: IFUNC, all TLS models, GOT/PLT,
copy relocations, weak undefined, merge strings, .eh_frame, init arrays, COMDAT, versioned
symbols, shared-library dependencies) x output kinds is linked by the real wild under the FULL
product of the size-affecting options. A member is in the property's domain iff GNU ld links it
(checked per program x output kind x each single option). Oracle: wild's diagnostics never contain
one of the internal size-accounting signatures, and WILD_VERIFY_ALLOCATIONS=1 does not fail."""
import itertools
import os
import re
import subprocess
import sys

sys.path.insert(0, os.path.join(os.path.dirname(os.path.abspath(__file__)), "..", "lib"))
import vlib
import wildrun

SIGNATURES = re.compile(
    r"Insufficient .* allocat|Insufficient space allocated|Insufficient buffer|Insufficient bytes|"
    r"Insufficient header slots|Insufficient vernaux|Allocated too much space|"
    r"Unexpected memory offsets|Failed to take \d+ bytes|Group resolutions not filled|"
    r"validate_empty failed|WILD_VERIFY_ALLOCATIONS|bytes remain|Inconsistent allocation detected")

LIB_C = r"""
int lib_data = 7;
__thread int lib_tls = 5;
int lib_fn(int x) { return x + lib_data; }
int lib_fn2(int x) { return x * 2; }
extern int lib_weak_missing(void) __attribute__((weak));
int lib_uses_weak(void) { return lib_weak_missing ? lib_weak_missing() : 3; }
"""

PROGRAMS = {
    # name: (list of C sources, needs_lib)
    "calls": (["""
int g1 = 1, g2; static int s1 = 3;
__attribute__((noinline)) int f1(int x) { return x + g1 + s1; }
__attribute__((noinline)) int f2(int x) { return f1(x) * g2; }
const char *str(void) { return "hello world"; }
void _start(void) { g2 = f2(3); (void)str(); for(;;); }
"""], False),
    "tls": (["""
__thread int t1 = 4; __thread int t2; static __thread char tb[33];
extern __thread int t_ext;
int use(void) { return t1 + t2 + tb[3] + t_ext; }
void _start(void) { use(); for(;;); }
""", "__thread int t_ext = 9; __thread long long t_big[5] = {1,2};"], False),
    "ifunc": (["""
static int impl_a(int x) { return x + 1; }
static int impl_b(int x) { return x + 2; }
static void *resolver(void) { return (void *)impl_a; }
int dispatch(int) __attribute__((ifunc("resolver")));
int (*fp)(int) = dispatch;
void *keep[] = { (void *)impl_b };
void _start(void) { fp(1); dispatch(2); for(;;); }
"""], False),
    "weak": (["""
extern int missing_fn(void) __attribute__((weak));
extern int missing_var __attribute__((weak));
int (*wp)(void) = missing_fn; int *wv = &missing_var;
void _start(void) { if (missing_fn) missing_fn(); if (&missing_var) missing_var = 1; for(;;); }
"""], False),
    "arrays": (["""
static void c1(void) {} static void c2(void) {} static void d1(void) {}
__attribute__((section(".init_array"), used)) static void (*ia[])(void) = { c1, c2 };
__attribute__((section(".fini_array"), used)) static void (*fa[])(void) = { d1 };
__attribute__((section("custom_sec"), used)) static int cs[3] = {1,2,3};
extern int __start_custom_sec[], __stop_custom_sec[];
long n(void) { return __stop_custom_sec - __start_custom_sec; }
void _start(void) { n(); for(;;); }
"""], False),
    "strings": (["""
const char *a(void) { return "alpha"; } const char *b(void) { return "beta-alpha"; }
const wchar_t_like_unused = 0;
const char *c(void) { return "alpha"; }
void _start(void) { a(); b(); c(); for(;;); }
""".replace("const wchar_t_like_unused = 0;", ""), """
const char *d(void) { return "beta-alpha"; } const char *e(void) { return "gamma"; }
"""], False),
    "eh": (["""
__attribute__((noinline)) int thrower(int x) { return x ? x : 1; }
int caller(int x) { return thrower(x) + 1; }
void _start(void) { caller(2); for(;;); }
"""], False),
    "dyn": (["""
extern int lib_data; extern __thread int lib_tls; int lib_fn(int); int lib_fn2(int);
int (*fnp)(int) = lib_fn2; int *dp = &lib_data;
int main_like(void) { return lib_fn(lib_data) + lib_tls + fnp(1) + *dp; }
void _start(void) { main_like(); for(;;); }
"""], True),
    "mixed": (["""
extern int lib_data; int lib_fn(int);
__thread int mt = 2; static int loc[4];
static int r_a(int x) { return x; } static void *rs(void) { return (void*)r_a; }
int disp(int) __attribute__((ifunc("rs")));
extern int wm(void) __attribute__((weak));
__attribute__((section(".init_array"), used)) static void (*ia[])(void) = { (void(*)(void))r_a };
int *tab[] = { &lib_data, loc, &loc[2] }; int (*ftab[])(int) = { lib_fn, disp };
void _start(void) { mt = lib_fn(disp(1)) + (wm ? wm() : 0) + *tab[1]; for(;;); }
"""], True),
}

KINDS = {
    # kind: (extra cflags, wild/ld link flags, usable with lib?)
    "static": (["-fno-pic"], ["-static"]),
    "static-pie": (["-fPIE"], ["-static", "-pie", "--no-dynamic-linker"]),
    "pie": (["-fPIE"], ["-pie", "--dynamic-linker=/lib64/ld-linux-x86-64.so.2"]),
    "nopie-dyn": (["-fno-pic"], ["--dynamic-linker=/lib64/ld-linux-x86-64.so.2"]),
    "shared": (["-fPIC"], ["-shared"]),
}

OPTION_AXES = [
    [[], ["-z", "pack-relative-relocs"]],
    [[], ["--hash-style=gnu"], ["--hash-style=sysv"], ["--hash-style=both"]],
    [[], ["--build-id=fast"], ["--build-id=sha1"], ["--build-id=uuid"]],
    [[], ["--no-eh-frame-hdr"]],
    [[], ["--strip-all"], ["--strip-debug"]],
    [[], ["--no-relax"]],
    [[], ["--no-string-merge"]],
    [[], ["--no-gc-sections"]],
    [[], ["--export-dynamic"]],
]
# GNU ld spellings where they differ (for the domain check only).
LD_SPELLING = {"--no-string-merge": None, "--build-id=fast": "--build-id=md5",
               "--no-dynamic-linker": "--no-dynamic-linker"}


def compile_c(src, cflags):
    return vlib.assemble(src, ext=".c", extra=["-O1", "-fno-stack-protector", "-ffreestanding",
                                               "-fasynchronous-unwind-tables",
                                               *cflags])


def build_corpus(base):
    """Returns list of members: (name, kind, objs (paths), lib path or None)."""
    members = []
    libobj = compile_c(LIB_C, ["-fPIC"])
    lib = os.path.join(base, "libv.so")
    r = subprocess.run(["ld", "-shared", "-soname", "libv.so", libobj, "-o", lib],
                       capture_output=True)
    if r.returncode != 0:
        raise RuntimeError("building libv.so failed: " + r.stderr.decode())
    for name, (srcs, needs_lib) in PROGRAMS.items():
        for kind, (cflags, lflags) in KINDS.items():
            if needs_lib and kind in ("static", "static-pie"):
                continue
            objs = [compile_c(s, cflags) for s in srcs]
            members.append((name, kind, objs, lib if needs_lib else None))
    return members


def ld_accepts(item):
    (name, kind, objs, lib), opt = item
    args = []
    for a in KINDS[kind][1] + opt:
        a = LD_SPELLING.get(a, a)
        if a is not None:
            args.append(a)
    out = f"/dev/shm/verif.c23.ld.{os.getpid()}"
    rc, so, se = vlib.run(["ld", *args, *objs, *([lib] if lib else []), "-o", out], timeout=30)
    try:
        os.unlink(out)
    except OSError:
        pass
    return (name, kind, tuple(opt)), rc == 0, se.decode("utf-8", "replace")[-200:]


def wild_link(item):
    (name, kind, objs, lib), opts, verify = item
    out = f"/dev/shm/verif.c23.w.{os.getpid()}"
    argv = ["--threads=2", *KINDS[kind][1], *opts, *objs, *([lib] if lib else []), "-o", out]
    env = {"WILD_VERIFY_ALLOCATIONS": "1"} if verify else {}
    rc, msg = wildrun.server_link(argv, env=env)
    return (name, kind, tuple(opts), verify), rc, msg[-600:]


def main():
    chk = vlib.Check("C23", "exploration")
    if not chk.args.no_build:
        vlib.build("wild")
    with vlib.scratch("c23") as base:
        try:
            members = build_corpus(base)
        except RuntimeError as e:
            chk.machinery(str(e))
        # Domain: GNU ld links the member with no option and with each single option.
        singles = [[]] + [o for axis in OPTION_AXES for o in axis[1:]]
        dom_items = [(m, o) for m in members for o in singles]
        if not chk.thorough:
            dom_items = [(m, o) for m, o in dom_items if not o or m[0] in ("mixed", "tls")]
        dom = {}
        for key, ok, err in vlib.pmap(ld_accepts, dom_items, procs=8):
            dom[key] = (ok, err)
        in_domain = [m for m in members if dom[(m[0], m[1], ())][0]]
        ld_rejected = [(m[0], m[1]) for m in members if not dom[(m[0], m[1], ())][0]]
        rejected_single = {(k[0], k[1], k[2]) for k, (ok, _) in dom.items() if not ok and k[2]}
        # Option vectors: full product (2304) for the thorough tier; quick = full product on two
        # programs' PIE/shared outputs thinned to all pairs of axes, plus singles everywhere.
        full = [sum(c, []) for c in itertools.product(*OPTION_AXES)]
        pairs = []
        for (i, a), (j, b) in itertools.combinations(enumerate(OPTION_AXES), 2):
            for x in a[1:]:
                for y in b[1:]:
                    pairs.append(x + y)
        items = []
        for m in in_domain:
            if chk.thorough:
                vecs = full if m[0] in ("mixed", "tls", "dyn", "ifunc") else [[]] + singles + pairs
            else:
                vecs = [[]] + singles[1:] + (pairs if m[0] in ("mixed", "tls") else [])
            for v in vecs:
                if any((m[0], m[1], tuple(o)) in rejected_single for o in singles[1:]
                       if all(x in v for x in o)):
                    continue
                items.append((m, v, False))
                if chk.thorough or not v:
                    items.append((m, v, True))
        results = wildrun.pmap(wild_link, items, chunksize=8)
        n = 0
        outcomes = set()
        other_rejects = {}
        for (name, kind, opts, verify), rc, msg in results:
            n += 1
            outcomes.add((name, kind, rc, msg[:60]))
            if rc == 0:
                continue
            m = SIGNATURES.search(msg)
            if m or rc in (101,) or (isinstance(rc, int) and rc < 0):
                sig = m.group(0) if m else f"rc={rc}"
                sig = re.sub(r"\d+", "N", sig)[:40]
                if sig.startswith("Inconsistent allocation"):
                    # The debug verifier (WILD_VERIFY_ALLOCATIONS=1) names the flag combination
                    # it could not reconcile; that, not the option vector, identifies the case.
                    fm = re.search(r"flags=([A-Z_ |]+?) has_dynamic", msg)
                    cause = msg.strip().split("\n")[-1].strip()
                    key = f"verify-mode:{fm.group(1).replace(' ', '') if fm else '?'}:{cause}"[:150]
                else:
                    key = (f"{sig}:{kind}:"
                           f"{'+'.join(o for o in opts if o.startswith('-')) or 'default'}")[:150]
                chk.violation(key,
                              f"{name}/{kind} opts={list(opts)} verify={verify}: rc={rc} {msg}",
                              {"program": name, "kind": kind, "options": list(opts),
                               "WILD_VERIFY_ALLOCATIONS": verify,
                               "sources": PROGRAMS[name][0], "lib": bool(PROGRAMS[name][1])})
            else:
                other_rejects.setdefault(msg.strip().split("\n")[0][:100], []).append(
                    (name, kind, list(opts)))
        chk.coverage = {
            "evaluations": n, "distinct_nontrivial": len(outcomes),
            "rule": "members = 9 C programs x 5 output kinds that GNU ld links; option vectors = "
                    "full 2304-vector product of 9 size-affecting option axes on 4 programs and "
                    "all singles + all pairs on the rest (thorough) / singles everywhere + all "
                    "pairs on 2 programs (quick); each also with WILD_VERIFY_ALLOCATIONS=1 "
                    "(thorough: all; quick: default vector). distinct = (program, kind, status, "
                    "message prefix) outcomes",
            "members_in_domain": len(in_domain), "members_gnu_ld_rejects": ld_rejected,
            "gnu_ld_domain_links": len(dom_items),
            "wild_rejections_without_signature": {k: len(v) for k, v in other_rejects.items()},
            "samples": [{"program": "mixed", "kind": "pie",
                         "options": ["-z", "pack-relative-relocs", "--hash-style=both",
                                     "--build-id=sha1", "--strip-debug"]},
                        {"program": "tls", "kind": "shared", "options": ["--no-relax"]}],
            "exhaustive": True,
        }
        chk.assumptions = ["a member is in the domain iff GNU ld 2.40 links it with no option and "
                           "with each single option of the vector",
                           "wild rejections that are ordinary diagnostics (unsupported feature, "
                           "undefined symbol) are counted, not judged"]
    chk.finish()


if __name__ == "__main__":
    main()
