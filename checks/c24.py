#!/usr/bin/env python3
"""C24 - Save-dir bundles replay to an identical output.

Exhaustive enumeration of a bounded family of link commands whose file names / argument values
contain one (thorough: also two) shell-significant characters, delivered through every argument
carrier.  For each member: link with WILD_SAVE_DIR=<d> (real wild subprocess), move <d> elsewhere,
delete the originals, run `<d'>/run-with <same wild>` with OUT=<path> from an unrelated working
directory; the replay must exit 0 and write a byte-identical output.

Member = carrier x {position: (characters, insertion place)}, plus the sub-family "option-like
arguments": every single-letter option `-<c>` (c in A-Za-z0-9) that wild accepts (probed once per
run, with a value as the next argument where it takes one), their attached forms, some two-letter
strings, and whole-string values that a shell `echo` / `printf` would interpret (`-n`, `-e`, `-E`,
`--`, `-`, `\c`, `\n`, empty), each as its own argument in argv, in a response file and in a nested
response file, on the base link (shared or pie) in which the option changes the output.  Names that the filesystem / `ar` /
the carrier's own syntax cannot represent are not members (counted).  Members whose original link
fails also without WILD_SAVE_DIR are not members either (counted)."""
import json
import os
import shutil
import sys

sys.path.insert(0, os.path.join(os.path.dirname(os.path.abspath(__file__)), "..", "lib"))
import vlib

CHARS = [" ", "\t", "'", '"', "$", "`", "\\", ";", "&", "|", "(", ")", "*", "?", "#", "~", "-",
         "\n", "é"]
LEAD_ONLY = {"-"}            # only significant as the first character of a word
ALSO_LEAD_IN_QUICK = {"~", "#"}

MAIN_S = ('.section .text.entry,"ax",@progbits\n.globl entry\n.type entry,@function\nentry:\n'
          '  call fa@PLT\n  call fb@PLT\n  call fc@PLT\nc24_local:\n  ret\n'
          '.section .debug_info,"",@progbits\n  .long 0x12345678\n')


def fn_s(name, fill):
    return (f'.section .text.{name},"ax",@progbits\n.globl {name}\n.type {name},@function\n'
            f'{name}:\n' + "  nop\n" * fill + "  ret\n")


# Default (plain) value at every position. File names have a 1-char head so that "mid" insertions
# leave a harmless word after the metacharacter (e.g. `qx.o`, never a real command).
DEFAULTS = {
    "object-name": "gqx.o", "archive-name": "liqbar.a", "L-dir": "dqr", "output-name": "oqt.so",
    "defsym-value": "fa+8", "soname-value": "sqn.so", "rsp-name": "rqs.rsp",
    "inner-rsp-name": "nqs.rsp", "script-name": "iqs.ld", "T-script-name": "tqs.ld",
    "version-script-name": "vqs.map", "thin-archive-name": "thqn.a", "thin-member-name": "mqb.o",
}
# defsym value: only characters that are legal in wild's `symbol +/- number` grammar.
DEFSYM_CHARS = {" ", "\t", "\n", "-"}

# Every member starts with these: no background child and (together with RAYON_NUM_THREADS=1 in the
# harness environment) a single-threaded link - a quarter of the process / thread creations.
FIXED = ["--no-fork", "--threads=1"]

CARRIERS = {
    "argv": ["object-name", "archive-name", "L-dir", "output-name", "defsym-value",
             "soname-value"],
    "rsp": ["object-name", "archive-name", "L-dir", "output-name", "defsym-value", "soname-value",
            "rsp-name"],
    "nested-rsp": ["object-name", "archive-name", "L-dir", "output-name", "defsym-value",
                   "soname-value", "inner-rsp-name"],
    "input-script": ["object-name", "archive-name", "script-name"],
    "input-script-abs": ["object-name", "archive-name"],
    "thin-archive": ["thin-member-name", "thin-archive-name"],
    "T-script": ["object-name", "T-script-name"],
    "version-script": ["version-script-name"],
}
QUICK_SKIP = {("nested-rsp", "archive-name"), ("nested-rsp", "output-name"),
              ("nested-rsp", "defsym-value")}


# ---- sub-family "option-like arguments" ---------------------------------------------------
import string

OPT_CARRIERS = ("argv", "rsp", "nested-rsp")
# Value tried first for a letter that does not work as a bare flag; then the generic ones.
PREFERRED_VALUE = {"e": "fa", "o": DEFAULTS["output-name"], "L": "dqr", "l": "foo", "T": "tqs.ld",
                   "z": "nodelete", "m": "elf_x86_64", "h": "sqh.so", "u": "fb", "y": "fa",
                   "R": "rqp", "I": "/lib/ld-c24.so", "O": "2", "f": "fqaux.so", "F": "fqfil.so",
                   "Y": "dqr", "b": "elf64-x86-64", "A": "x86-64", "G": "8", "t": "fa"}
GENERIC_VALUES = ["fa", "dqr", "2"]
TWO_LETTER = ["-ne", "-en", "-nE", "-Ee"]
# Whole strings that `echo`, `printf` or a shell word parser treat specially.
SIGNIFICANT_STRINGS = ["-n", "-e", "-E", "-ne", "-en", "-nE", "-Ee", "--", "-", "\\c", "\\n",
                       "\\t", "\\\\", "\\0101", "%s", ""]
T_SCRIPT_TEXT = "/* c24 */\n"


def base_link_args(names, base, obj_args, extra):
    head = ["-shared"] if base == "shared" else ["-pie"]
    soname = ["-soname=" + names["soname-value"]] if base == "shared" else []
    # `-L` and its directory as one word, as compilers pass it.
    return [*head, "main.o", *obj_args, "-L" + names["L-dir"], "-lfoo",
            "-o", as_arg(names["output-name"]), *soname,
            "--defsym=foo=" + names["defsym-value"], *extra]


def _probe_link(job):
    """One link without save-dir. job: (W, wild, base, opt). Returns (rc, stderr, sha)."""
    W, wild, base, opt = job
    outp = os.path.join(W, DEFAULTS["output-name"])
    try:
        os.unlink(outp)
    except OSError:
        pass
    argv = [*FIXED, *base_link_args(DEFAULTS, base, [DEFAULTS["object-name"],
                                                     DEFAULTS["archive-name"]], []), *opt]
    rc, err = run_clean([wild, *argv], {}, W)
    return rc, err, vlib.file_sha(outp)


def _probe_candidates(job):
    """job: (tag, [opt lists to try in order], W, wild, baseline shas). Returns dict."""
    tag, cands, W, wild, base_sha = job
    rejected = None
    for opt in cands:
        rc, err, sha = _probe_link((W, wild, "shared", opt))
        if rc in ("timeout", "oserror"):
            return dict(tag=tag, harness=rc)
        if rc == 0 and sha:
            res = dict(tag=tag, opt=opt, link="shared", sensitive=sha != base_sha["shared"])
            if not res["sensitive"]:
                rc2, _, sha2 = _probe_link((W, wild, "pie", opt))
                if rc2 in ("timeout", "oserror"):
                    return dict(tag=tag, harness=rc2)
                if rc2 == 0 and sha2 and sha2 != base_sha["pie"]:
                    res.update(link="pie", sensitive=True)
            return res
        rejected = err.strip().splitlines()[0][-100:] if err.strip() else f"exit {rc}"
        if "unrecognized option" in err:
            break
    return dict(tag=tag, opt=None, why=rejected)


def probe_option_family(base, proto, wild, chk):
    """Finds, by running wild, which option-like argument sequences it accepts, and on which base
    link each one changes the output. Returns (accepted [dict(opt, base, sensitive)], rejected)."""
    pw = os.path.join(base, "probe")
    jobs = []

    def workdir(i):
        W = os.path.join(pw, f"w{i}")
        os.makedirs(W)
        b = build_member(dict(carrier="argv", vary=[], opt=["-T", "tqs.ld"]), W, proto)
        if isinstance(b, str):
            chk.machinery(f"cannot build the probe directory: {b}")
        return W

    W0 = workdir("base")
    base_sha = {}
    for b in ("shared", "pie"):
        rc, err, sha = _probe_link((W0, wild, b, []))
        if rc != 0 or not sha:
            chk.machinery(f"plain {b} link fails: {err[-200:]}")
        base_sha[b] = sha
    cand_sets = []
    for c in string.ascii_letters + string.digits:
        vals = ([PREFERRED_VALUE[c]] if c in PREFERRED_VALUE else []) + \
            [g for g in GENERIC_VALUES if g != PREFERRED_VALUE.get(c)]
        cand_sets.append((f"-{c}", [["-" + c]] + [["-" + c, v] for v in vals]))
    for c, v in PREFERRED_VALUE.items():
        cand_sets.append((f"-{c}{v}", [["-" + c + v]]))                 # attached form
    for t in TWO_LETTER:
        cand_sets.append((t, [[t]]))
    for sstr in SIGNIFICANT_STRINGS:
        cand_sets.append((f"-h {sstr!r}", [["-h", sstr]]))              # as a value
        if sstr not in TWO_LETTER and not (len(sstr) == 2 and sstr[0] == "-" and sstr[1].isalpha()):
            cand_sets.append((f"{sstr!r}", [[sstr]]))                   # as an argument of its own
    cand_sets.append(("-R <copied dir>", [["-R", DEFAULTS["L-dir"]]]))
    for i, (tag, cands) in enumerate(cand_sets):
        jobs.append((tag, cands, workdir(i), wild, base_sha))
    accepted, rejected = [], []
    for r in vlib.pmap(_probe_candidates, jobs, chunksize=2):
        if r.get("harness"):
            chk.machinery(f"option probe {r['tag']}: {r['harness']}")
        if r["opt"] is None:
            rejected.append({"tried": r["tag"], "why": r["why"]})
        elif not any(a["opt"] == r["opt"] for a in accepted):
            accepted.append(dict(opt=r["opt"], link=r["link"], sensitive=r["sensitive"]))
    shutil.rmtree(pw, ignore_errors=True)
    return accepted, rejected


def insert(base, chars, place):
    if place == "lead":
        return chars + base
    if place == "trail":
        return base + chars
    return base[0] + chars + base[1:]


def insert_value(pos, chars, place):
    base = DEFAULTS[pos]
    if pos == "defsym-value":
        # fa+8: lead "-" makes `-fa+8` (illegal); use a numeric expression for '-'.
        if chars == "-":
            return "-8" if place == "lead" else None
        if place == "lead":
            return chars + base
        if place == "trail":
            return base + chars
        return "fa" + chars + "+8"
    return insert(base, chars, place)


def enumerate_members(thorough, option_family=()):
    """Yields dict(carrier, vary=[(pos, chars, place), ...][, opt=[...], link=...])."""
    out = [dict(carrier=c, vary=[]) for c in CARRIERS]     # baselines: nothing varied
    out += [dict(carrier=c, vary=[], link="pie") for c in OPT_CARRIERS]
    for o in option_family:                                 # both tiers
        for c in OPT_CARRIERS:
            out.append(dict(carrier=c, vary=[], opt=list(o["opt"]), link=o["link"],
                            sensitive=o["sensitive"]))
    for carrier, positions in CARRIERS.items():
        for pos in positions:
            if not thorough and (carrier, pos) in QUICK_SKIP:
                continue
            for ch in CHARS:
                if pos == "defsym-value" and ch not in DEFSYM_CHARS:
                    continue
                places = ["lead"] if ch in LEAD_ONLY else ["mid"]
                if thorough:
                    places = ["lead"] if ch in LEAD_ONLY else ["mid", "lead", "trail"]
                elif ch in ALSO_LEAD_IN_QUICK:
                    places = ["mid", "lead"]
                for place in places:
                    out.append(dict(carrier=carrier, vary=[(pos, ch, place)]))
    if not thorough:
        return out
    two = [c for c in CHARS if c not in LEAD_ONLY]
    for carrier, pos in (("argv", "object-name"), ("argv", "L-dir"), ("argv", "soname-value"),
                         ("rsp", "object-name"), ("input-script", "object-name")):
        for a in two:
            for b in two:
                out.append(dict(carrier=carrier, vary=[(pos, a + b, "mid")]))
    for carrier, pa, pb in (("argv", "object-name", "L-dir"), ("rsp", "object-name", "rsp-name"),
                            ("rsp", "L-dir", "rsp-name")):
        for a in CHARS:
            for b in CHARS:
                out.append(dict(carrier=carrier, vary=[
                    (pa, a, "lead" if a in LEAD_ONLY else "mid"),
                    (pb, b, "lead" if b in LEAD_ONLY else "mid")]))
    return out


def member_label(m):
    v = "+".join(f"{pos}={ch!r}@{place}" for pos, ch, place in m["vary"]) or "plain"
    if m.get("opt") is not None:
        v = "args[" + " ".join(repr(a) for a in m["opt"]) + "]"
    if m.get("link", "shared") != "shared":
        v += "/" + m["link"]
    return f"{m['carrier']}:{v}"


def rsp_quote(arg):
    """Encoding understood by wild's (and libiberty's) response-file reader: backslash quotes
    the next character."""
    out = []
    if arg == "":
        return None        # wild's reader drops `""`: an empty argument cannot be written
    for c in arg:
        if c.isalnum() or c in "._/=+:@,-" or ord(c) > 127:
            out.append(c)
        else:
            out.append("\\" + c)
    return "".join(out)


def as_arg(name):
    """A file name as a command-line word: a leading '-' must not look like an option."""
    return "./" + name if name.startswith("-") else name


def prepare(proto):
    os.makedirs(proto, exist_ok=True)
    objs = {"main.o": MAIN_S, "fa.o": fn_s("fa", 1), "fb.o": fn_s("fb", 2), "fc.o": fn_s("fc", 3)}
    for n, src in objs.items():
        shutil.copyfile(vlib.assemble(src), os.path.join(proto, n))
    for lib, member in (("libbar.a", "fb.o"), ("libfoo.a", "fc.o")):
        rc, _, err = vlib.run(["ar", "rc", lib, member], cwd=proto)
        if rc != 0:
            raise RuntimeError(f"ar failed: {err}")


def build_member(m, W, proto):
    """Creates the input files. Returns (argv, files_written dict name->content or None) or a
    string explaining why the member is not representable."""
    names = dict(DEFAULTS)
    for pos, ch, place in m["vary"]:
        v = insert_value(pos, ch, place)
        if v is None:
            return "value not legal at this position"
        names[pos] = v
    carrier = m["carrier"]
    varied = {pos for pos, _, _ in m["vary"]}
    texts = {}

    def put(src, name):
        try:
            os.link(os.path.join(proto, src), os.path.join(W, name))
        except OSError as e:
            return f"filesystem refuses name {name!r}: {e}"
        return None

    def write(name, text):
        try:
            with open(os.path.join(W, name), "w") as f:
                f.write(text)
        except OSError as e:
            return f"filesystem refuses name {name!r}: {e}"
        texts[name] = text
        return None

    def in_script(name):
        if '"' in name:
            return None
        return '"' + as_arg(name) + '"'     # "-lx" would mean a library, as on the command line

    err = put("main.o", "main.o")
    use_thin = carrier == "thin-archive"
    if use_thin:
        err = err or put("fa.o", names["thin-member-name"])
        if not err:
            rc, _, e = vlib.run(["ar", "rcT", as_arg(names["thin-archive-name"]),
                                 as_arg(names["thin-member-name"])], cwd=W)
            if rc != 0:
                return f"ar cannot build the thin archive: {e.decode('utf-8', 'replace')[:100]}"
    else:
        err = err or put("fa.o", names["object-name"])
    err = err or put("libbar.a", names["archive-name"])
    if not err:
        try:
            os.mkdir(os.path.join(W, names["L-dir"]))
        except OSError as e:
            err = f"filesystem refuses directory {names['L-dir']!r}: {e}"
    err = err or put("libfoo.a", os.path.join(names["L-dir"], "libfoo.a"))
    if err:
        return err

    obj_args = [as_arg(names["object-name"]), as_arg(names["archive-name"])]
    extra = []
    if use_thin:
        obj_args[0] = as_arg(names["thin-archive-name"])
    elif carrier in ("input-script", "input-script-abs"):
        a, b = names["object-name"], names["archive-name"]
        if carrier == "input-script-abs":
            a, b = os.path.join(W, a), os.path.join(W, b)
        qa, qb = in_script(a), in_script(b)
        if qa is None or qb is None:
            return 'a name containing `"` cannot be written in a linker script'
        err = write(names["script-name"], f"INPUT({qa} {qb})\n")
        obj_args = [as_arg(names["script-name"])]
    elif carrier == "T-script":
        qa = in_script(names["object-name"])
        if qa is None:
            return 'a name containing `"` cannot be written in a linker script'
        err = write(names["T-script-name"], f"INPUT({qa})\n")
        obj_args = ["-T", as_arg(names["T-script-name"]), obj_args[1]]
    elif carrier == "version-script":
        err = write(names["version-script-name"], "{ global: entry; fa; foo; local: *; };\n")
        extra = ["--version-script=" + names["version-script-name"]]
    if err:
        return err
    base = m.get("link", "shared")
    opt = list(m.get("opt") or [])
    if any(a in ("tqs.ld", "-Ttqs.ld") for a in opt):
        err = write(names["T-script-name"], T_SCRIPT_TEXT)
        if err:
            return err
    link_args = base_link_args(names, base, obj_args, extra) + opt
    if carrier in ("rsp", "nested-rsp"):
        quoted = [rsp_quote(a) for a in link_args]
        if None in quoted:
            return "an empty argument cannot be written in a response file"
    if carrier == "rsp":
        err = write(names["rsp-name"], "\n".join(quoted) + "\n")
        argv = [*FIXED, "@" + names["rsp-name"]]
    elif carrier == "nested-rsp":
        err = write(names["inner-rsp-name"], "\n".join(quoted[2:]) + "\n")
        err = err or write(names["rsp-name"], " ".join(quoted[:2]) + " " +
                           rsp_quote("@" + names["inner-rsp-name"]) + "\n")
        argv = [*FIXED, "@" + names["rsp-name"]]
    else:
        argv = [*FIXED, *link_args]
    if err:
        return err
    return argv, names, texts


def clean_env():
    env = {k: v for k, v in os.environ.items()
           if not k.startswith("WILD_") and k not in ("OUT", "S", "D", "MAKEFLAGS", "MFLAGS",
                                                      "COLLECT_GCC", "COLLECT_GCC_OPTIONS")}
    env["PATH"] = "/usr/local/bin:/usr/bin:/bin"
    env["RUST_BACKTRACE"] = "0"
    env["RAYON_NUM_THREADS"] = "1"
    return env


def run_clean(cmd, env_extra, cwd, timeout=30):
    import subprocess
    env = clean_env()
    env.update(env_extra)
    try:
        p = subprocess.run(cmd, env=env, cwd=cwd, stdin=subprocess.DEVNULL, stdout=subprocess.PIPE,
                           stderr=subprocess.PIPE, timeout=timeout)
        return p.returncode, p.stderr.decode("utf-8", "replace")
    except subprocess.TimeoutExpired:
        return "timeout", ""
    except OSError as e:
        return "oserror", str(e)


def run_member(m):
    d = os.path.join(m["base"], f"m{m['idx']}")
    shutil.rmtree(d, ignore_errors=True)
    W = os.path.join(d, "W")
    os.makedirs(W)
    res = dict(idx=m["idx"], status=None)
    try:
        built = build_member(m, W, m["proto"])
        if isinstance(built, str):
            res.update(status="unrepresentable", why=built)
            return res
        argv, names, texts = built
        res["argv"] = argv
        res["files"] = texts
        bundle = os.path.join(d, "bundle")
        tmo = m.get("timeout", 30)
        rc, err = run_clean([m["wild"], *argv], {"WILD_SAVE_DIR": bundle}, W, timeout=tmo)
        if rc in ("timeout", "oserror"):
            res.update(status="harness-" + rc, stderr=err)
            return res
        outp = os.path.join(W, names["output-name"])
        orig_sha = vlib.file_sha(outp)
        if rc != 0 or orig_sha is None:
            # Is it the save-dir request that breaks the link?
            rc2, err2 = run_clean([m["wild"], *argv], {}, W, timeout=tmo)
            if rc2 in ("timeout", "oserror"):
                res.update(status="harness-" + rc2, stderr=err2)
                return res
            if rc2 == 0 and vlib.file_sha(outp) is not None:
                res.update(status="savedir-link-fails", rc=rc, stderr=err[-300:])
            else:
                res.update(status="not-linkable", rc=rc2, stderr=err2[-200:])
            return res
        script_path = os.path.join(bundle, "run-with")
        if not os.path.exists(script_path):
            res.update(status="no-run-with")
            return res
        with open(script_path, errors="replace") as f:
            script = f.read()
        res["script_tail"] = script[script.find("exec "):][-700:] if "exec " in script else \
            script[-300:]
        moved = os.path.join(d, "moved", "bundle")
        os.makedirs(os.path.dirname(moved))
        os.rename(bundle, moved)
        shutil.rmtree(W)
        cwd = os.path.join(d, "elsewhere")
        os.makedirs(cwd)
        out2 = os.path.join(d, "replayed.out")
        # run-with's `mktemp` files are never removed (its EXIT trap is lost by `exec`): keep them
        # inside the scratch directory.
        tmpd = os.path.join(d, "tmp")
        os.makedirs(tmpd)
        rrc, rerr = run_clean([os.path.join(moved, "run-with"), m["wild"]],
                              {"OUT": out2, "TMPDIR": tmpd}, cwd, timeout=tmo)
        if rrc in ("timeout", "oserror"):
            res.update(status="harness-" + rrc, stderr=rerr)
            return res
        new_sha = vlib.file_sha(out2)
        res.update(rc=rrc, stderr=rerr[-300:], orig_sha=orig_sha, new_sha=new_sha)
        if rrc != 0:
            res["status"] = "replay-fails"
        elif new_sha is None:
            res["status"] = "replay-no-output"
        elif new_sha != orig_sha:
            res["status"] = "replay-differs"
        else:
            res["status"] = "ok"
        return res
    finally:
        shutil.rmtree(d, ignore_errors=True)


FAIL = ("replay-fails", "replay-no-output", "replay-differs", "savedir-link-fails", "no-run-with")


def base_key(status, carrier, pos, ch, place):
    c = repr(ch) if place == "mid" or ch in LEAD_ONLY else f"{ch!r}@{place}"
    return f"{status}:{c}:{pos}:{carrier}"


def assign_keys(members, results):
    """Returns [(index, key, attributed)] for every failing member. A richer member (second
    insertion place, two characters, two positions) whose single-character member already fails is
    attributed to that member's key, so that keys stay narrow and few."""
    single = {}     # (carrier, pos, ch, place) -> status
    for m, r in zip(members, results):
        if len(m["vary"]) == 1 and len(m["vary"][0][1]) == 1:
            pos, ch, place = m["vary"][0]
            single[(m["carrier"], pos, ch, place)] = r["status"]

    def single_fail_key(carrier, pos, ch):
        place = "lead" if ch in LEAD_ONLY else "mid"
        st = single.get((carrier, pos, ch, place))
        if st in FAIL:
            return base_key(st, carrier, pos, ch, place)
        return None

    plain = {(m["carrier"], m.get("link", "shared")): r["status"]
             for m, r in zip(members, results) if not m["vary"] and m.get("opt") is None}
    out = []
    for i, (m, r) in enumerate(zip(members, results)):
        if r["status"] not in FAIL:
            continue
        carrier = m["carrier"]
        base = m.get("link", "shared")
        key = None
        if plain.get((carrier, base)) in FAIL:
            # The carrier does not even replay with plain names: one key for the whole carrier.
            suffix = "" if base == "shared" else ":" + base
            out.append((i, f"{plain[(carrier, base)]}:plain-names:{carrier}{suffix}",
                        bool(m["vary"]) or m.get("opt") is not None))
            continue
        if m.get("opt") is not None:
            out.append((i, f"{r['status']}:args:" + " ".join(repr(a) for a in m["opt"]) +
                        f":{carrier}", False))
            continue
        if len(m["vary"]) == 1:
            pos, chars, place = m["vary"][0]
            if len(chars) == 1:
                if place != "mid" and chars not in LEAD_ONLY:
                    key = single_fail_key(carrier, pos, chars)
                own = base_key(r["status"], carrier, pos, chars, place)
            else:
                key = single_fail_key(carrier, pos, chars[0]) or \
                    single_fail_key(carrier, pos, chars[1])
                own = f"{r['status']}:{chars!r}:{pos}:{carrier}"
        else:
            for pos, ch, place in m["vary"]:
                key = key or single_fail_key(carrier, pos, ch)
            own = (f"{r['status']}:pair:" + "+".join(
                f"{ch!r}:{pos}" for pos, ch, _ in m["vary"]) + f":{carrier}")
        out.append((i, key or own, key is not None))
    return out


def main():
    chk = vlib.Check("C24", "exploration")
    if not chk.args.no_build:
        vlib.build("wild")
    if chk.args.replay:
        return replay(chk)
    with vlib.scratch("c24") as base:
        proto = os.path.join(base, "proto")
        prepare(proto)
        option_family, option_rejected = probe_option_family(base, proto, vlib.WILD, chk)
        if not any(o["opt"] == ["-E"] for o in option_family) or len(option_family) < 10:
            chk.machinery(f"option probe found only {[o['opt'] for o in option_family]}")
        members = enumerate_members(chk.thorough, option_family)
        if chk.seed:
            import random
            random.Random(chk.seed).shuffle(members)
        for i, m in enumerate(members):
            m.update(idx=i, base=base, proto=proto, wild=vlib.WILD)
        results = vlib.pmap(run_member, members, chunksize=4)
        # A time-out is never a verdict: such members are re-run one at a time with a long limit.
        retried = 0
        for i, r in enumerate(results):
            if r["status"].startswith("harness-"):
                retried += 1
                results[i] = run_member(dict(members[i], timeout=300))
                if results[i]["status"].startswith("harness-"):
                    chk.machinery(f"{member_label(members[i])}: {results[i]['status']} even with a "
                                  f"300 s limit: {results[i].get('stderr', '')[-200:]}")

        # A failure opens a key only if it reproduces: the first member of every distinct key is
        # run again (load on the machine must never become a verdict).
        flaky = []
        for _round in range(4):
            keyed = assign_keys(members, results)
            first = {}
            for i, key, _ in keyed:
                first.setdefault(key, i)
            todo = [i for i in first.values() if not members[i].get("confirmed")]
            if not todo:
                break
            again = vlib.pmap(run_member, [dict(members[i], idx=f"c{i}", timeout=120)
                                           for i in todo], chunksize=1)
            for i, r2 in zip(todo, again):
                if r2["status"] != results[i]["status"]:
                    r3 = run_member(dict(members[i], idx=f"d{i}", timeout=300))
                    if r3["status"] == r2["status"]:
                        flaky.append({"member": member_label(members[i]),
                                      "first": results[i]["status"], "then": r2["status"]})
                        results[i] = r3
                    elif r3["status"] != results[i]["status"]:
                        chk.machinery(f"{member_label(members[i])}: three runs, three outcomes: "
                                      f"{results[i]['status']}, {r2['status']}, {r3['status']}")
                members[i]["confirmed"] = True
        else:
            chk.machinery("confirmation runs did not converge")

    counts = {}
    for m, r in zip(members, results):
        counts[r["status"]] = counts.get(r["status"], 0) + 1
    for m, r in zip(members, results):
        if not m["vary"] and m.get("opt") is None and r["status"] not in FAIL + ("ok",):
            chk.machinery(f"plain-name member {member_label(m)} cannot be built / linked: {r}")
    excluded = [{"member": member_label(m), "status": r["status"],
                 "why": r.get("why") or r.get("stderr", "").strip()[-120:]}
                for m, r in zip(members, results)
                if r["status"] in ("unrepresentable", "not-linkable")]
    samples = []
    for m, r in zip(members, results):
        if len(samples) < 6 and m["vary"] and r["status"] == ("ok" if len(samples) % 2 == 0
                                                               else "replay-fails") or \
                len(samples) < 9 and m.get("opt") is not None and m["carrier"] == "rsp" and \
                m["opt"][0] in ("-E", "-e", "-h") and r["status"] in FAIL + ("ok",):
            samples.append({"member": member_label(m), "argv": r.get("argv"),
                            "status": r["status"],
                            "run_with_tail": r.get("script_tail", "")[-300:]})
    fail_table = {}
    subsumed = 0
    for i, key, attributed in keyed:
        m, r = members[i], results[i]
        subsumed += attributed
        fail_table[key] = fail_table.get(key, 0) + 1
        what = (f"{member_label(m)}: {r['status']} (replay exit {r.get('rc')}); stderr: "
                f"{r.get('stderr', '')[-200:]!r}; run-with: ...{r.get('script_tail', '')[-250:]!r}")
        chk.violation(key, what, replay_dict(m, r))

    evaluated = sum(v for k, v in counts.items() if k in FAIL or k == "ok")
    nontrivial = sum(1 for m, r in zip(members, results)
                     if (m["vary"] or m.get("opt") is not None) and r["status"] in FAIL + ("ok",))
    opt_members = [(m, r) for m, r in zip(members, results) if m.get("opt") is not None]
    opt_table = {}
    for m, r in opt_members:
        e = opt_table.setdefault(" ".join(repr(a) for a in m["opt"]),
                                 {"base_link": m["link"], "changes_output": m["sensitive"]})
        e[m["carrier"]] = r["status"]
    chk.coverage = {
        "evaluations": len(members), "distinct_nontrivial": nontrivial,
        "rule": "member = carrier x varied position(s) x inserted character(s) x insertion place, "
                "or carrier x option-like argument sequence; every member is distinct by "
                "construction; non-trivial = at least one shell-significant character inserted or "
                "an option-like argument added AND the original link succeeded, so that the replay "
                "oracle was evaluated",
        "samples": samples, "exhaustive": True, "status_counts": counts,
        "oracle_evaluated": evaluated, "failing_keys": fail_table,
        "members_rerun_after_harness_timeout": retried,
        "keys_confirmed_by_a_second_run": len(fail_table), "flaky_members": flaky,
        "excluded_members": excluded,
        "richer_members_attributed_to_a_failing_single_character_key": subsumed,
        "characters": [repr(c) for c in CHARS], "carriers": CARRIERS,
        "option_like_arguments": {
            "members": len(opt_members),
            "oracle_evaluated": sum(1 for _, r in opt_members if r["status"] in FAIL + ("ok",)),
            "members_whose_argument_changes_the_output": sum(
                1 for m, r in opt_members if m["sensitive"] and r["status"] in FAIL + ("ok",)),
            "oracle_blind": sorted({" ".join(m["opt"]) for m, _ in opt_members
                                    if not m["sensitive"] and len(m["opt"]) == 1}),
            "accepted": opt_table, "rejected_by_wild": option_rejected,
            "note": "an argument that does not change the output and takes no value could be "
                    "dropped by the replay without the byte oracle noticing (listed as "
                    "oracle_blind); a dropped option that takes a value makes the replay fail",
        },
        "thinned": None if chk.thorough else
        "quick: one insertion place per character (middle; leading for - ~ #), no two-character "
        "insertions, no position pairs, nested-rsp carrier for 4 of 7 positions (the option-like "
        "argument sub-family is complete in both tiers)",
    }
    chk.assumptions = [
        "`--no-fork --threads=1` is part of every member's argument list and RAYON_NUM_THREADS=1 "
        "is in the environment of link and replay (fewer process / thread creations; the "
        "save-dir logic does not depend on either)",
        "the bundle is moved to, and replayed from, directories with plain names; OUT is a plain "
        "path",
        "a member whose link also fails without WILD_SAVE_DIR is outside the family (wild or the "
        "carrier syntax cannot express that name)",
    ]
    chk.finish()


def replay_dict(m, r):
    return {"carrier": m["carrier"], "vary": m["vary"], "opt": m.get("opt"),
            "link": m.get("link", "shared"), "argv": r.get("argv"),
            "text_files": r.get("files"),
            "how": "python3 checks/c24.py --replay <this file>. By hand: create the named files "
                   "(objects fa/fb/fc as in c24.py), `cd W; WILD_SAVE_DIR=$PWD/../b wild <argv>`; "
                   "mv ../b ../moved; rm -rf W; cd /elsewhere; OUT=/x/out ../moved/run-with wild; "
                   "cmp"}


def replay(chk):
    with open(chk.args.replay) as f:
        doc = json.load(f)
    m = doc["replay"]
    with vlib.scratch("c24r") as base:
        proto = os.path.join(base, "proto")
        prepare(proto)
        mm = dict(carrier=m["carrier"], vary=[tuple(v) for v in m["vary"]], idx=0, base=base,
                  proto=proto, wild=vlib.WILD, link=m.get("link", "shared"))
        if m.get("opt") is not None:
            mm.update(opt=m["opt"])
        r = run_member(mm)
        print(json.dumps(r, indent=1))
        bad = r["status"] in FAIL
        print("REPRODUCED" if bad else "not reproduced")
        sys.exit(1 if bad else 0)


if __name__ == "__main__":
    main()
