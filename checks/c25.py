#!/usr/bin/env python3
"""C25 - The dependency file lists exactly the files the link read.

Part A is the product below; part B repeats the 9 single-carrier members and the full member with
the inputs in a directory whose name contains a blank (make's reading of the file then depends on
`\\ ` escapes).

Exhaustive program-family exploration: every non-empty subset of nine input carriers x {each
file once / twice} x {relative / absolute command-line paths} x {executable / shared object}
x {carriers referenced / unreferenced} x {INPUT + --dynamic-list / GROUP +
--export-dynamic-symbol-list}, linked by the real wild with --dependency-file. The dependency file
is read by real GNU make (`make -rR -pq`), and make's view of it is compared with the set of files
the generator knows the member makes a linker read."""
import json
import os
import subprocess
import sys
import time

sys.path.insert(0, os.path.join(os.path.dirname(os.path.abspath(__file__)), "..", "lib"))
import vlib
import wildrun

CARRIERS = ["obj", "ar", "thin", "script-input", "script-T", "version-script", "export-list",
            "lib", "so"]
BATCH = 24


def fn_src(name, ref=None, plt=False):
    body = f"  call {ref}{'@PLT' if plt else ''}\n" if ref else ""
    return (f'.section .text.{name},"ax",@progbits\n.globl {name}\n.type {name},@function\n'
            f"{name}:\n{body}  ret\n")


MAIN_SRC = '.section .text._start,"ax",@progbits\n.globl _start\n_start:\n  ret\n'
TS_LD = ("SECTIONS {\n  .text : { *(.text .text.*) }\n  .data : { *(.data .data.*) }\n"
         "  .bss : { *(.bss .bss.*) }\n}\n")
VS_TXT = "{ global: *; };\n"
DL_TXT = "{ f_o1; };\n"

# file (relative to the input directory) -> kind used in violation keys
FILE_KIND = {
    "main.o": "object", "o1.o": "object", "r_ar.o": "object", "r_thin.o": "object",
    "r_lib.o": "object", "r_so.o": "object",
    "ra.a": "archive", "ta.a": "thin-archive-index", "tm.o": "thin-archive-member",
    "si.ld": "script-input", "sg.ld": "script-input", "si1.o": "script-INPUT-object",
    "ts.ld": "script-T", "vs.txt": "version-script", "dl.txt": "export-list",
    "L/libzz.a": "lib-search-archive", "s1.so": "shared-object",
}
# Kinds the property text names outright. For the others GNU ld's own dependency file decides
# whether the kind counts as "read".
EXPLICIT = {"object", "archive", "thin-archive-member", "script-input", "script-INPUT-object",
            "script-T", "version-script", "export-list", "lib-search-archive"}


def sh(cmd, cwd):
    r = subprocess.run(cmd, cwd=cwd, stdout=subprocess.PIPE, stderr=subprocess.PIPE)
    if r.returncode != 0:
        raise RuntimeError(f"{cmd} failed: {r.stderr.decode()}")


SOURCES = {
    "main.o": MAIN_SRC, "o1.o": fn_src("f_o1"), "r_ar.o": fn_src("r_ar", "f_ar"),
    "r_thin.o": fn_src("r_thin", "f_thin"), "r_lib.o": fn_src("r_lib", "f_lib"),
    "r_so.o": fn_src("r_so", "f_so", plt=True), "si1.o": fn_src("f_si"),
    "tm.o": fn_src("f_thin"), "ra1.o": fn_src("f_ar"), "ra2.o": fn_src("f_ar2"),
    "zz.o": fn_src("f_lib"), "so.o": fn_src("f_so"),
}
RECIPES = ["ar rcD ra.a ra1.o ra2.o", "ar rcTD ta.a tm.o", "ar rcD L/libzz.a zz.o",
           "ld -shared -soname s1.so -o s1.so so.o"]
TEXTS = {"si.ld": "INPUT(si1.o)\n", "sg.ld": "GROUP(si1.o)\n", "ts.ld": TS_LD, "vs.txt": VS_TXT,
         "dl.txt": DL_TXT}


BLANK_SUB = "d s"


def build_inputs(indir, sub=""):
    """Inputs under indir/sub, outputs and dependency files go to indir/o."""
    d = os.path.join(indir, sub)
    os.makedirs(os.path.join(d, "L"))
    os.makedirs(os.path.join(indir, "o"), exist_ok=True)
    for name, src in SOURCES.items():
        with open(vlib.assemble(src), "rb") as f, open(os.path.join(d, name), "wb") as g:
            g.write(f.read())
    for r in RECIPES:
        sh(r.split(), d)
    for n in ("ra1.o", "ra2.o", "zz.o", "so.o"):
        os.unlink(os.path.join(d, n))
    for name, text in TEXTS.items():
        with open(os.path.join(d, name), "w") as f:
            f.write(text)


def member_plan(m):
    """Command line and expectations of a member.
    m: dict(mask, dup, abs, shared, used, flavor, id). Returns (argv tail without -o/depfile,
    required files, optional files) with files relative to the input directory."""
    mask = m["mask"]
    has = {c: bool(mask >> i & 1) for i, c in enumerate(CARRIERS)}
    used, dup = m["used"], m["dup"]
    args, req, opt = [], {"main.o"}, set()

    def f(*a):
        args.extend(a * (2 if dup else 1))

    if m["shared"]:
        args.append("-shared")
    args.append("@main.o")
    refs = [("ar", "r_ar.o"), ("thin", "r_thin.o"), ("lib", "r_lib.o"), ("so", "r_so.o")]
    if used:
        for c, r in refs:
            if has[c]:
                args.append("@" + r)
                req.add(r)
    if has["obj"]:
        f("@o1.o")
        req.add("o1.o")
    if has["ar"]:
        f("@ra.a")
        req.add("ra.a")
    if has["thin"]:
        f("@ta.a")
        req.add("ta.a")
        # A member that is not extracted need not be read (GNU ld decides from the index alone).
        (req if used else opt).add("tm.o")
    if has["script-input"]:
        s = "si.ld" if m["flavor"] == 0 else "sg.ld"
        f("@" + s)
        req.update((s, "si1.o"))
    if has["script-T"]:
        f("-T", "@ts.ld")
        req.add("ts.ld")
    if has["version-script"]:
        args.append("--version-script=@vs.txt")
        req.add("vs.txt")
    if has["export-list"]:
        args.append(("--dynamic-list=" if m["flavor"] == 0 else "--export-dynamic-symbol-list=")
                    + "@dl.txt")
        req.add("dl.txt")
    if has["lib"]:
        args.extend(["-L", "@L"])
        f("-lzz")
        req.add("L/libzz.a")
    if has["so"]:
        args.append("--as-needed")
        f("@s1.so")
        req.add("s1.so")
    return args, req, opt


def sub_of(m):
    return BLANK_SUB if m.get("blank") else ""


def realise(args, indir, absolute, sub=""):
    out = []
    for a in args:
        if "@" in a:
            pre, _, rel = a.partition("@")
            rel = os.path.join(sub, rel)
            a = pre + (os.path.join(indir, rel) if absolute else rel)
        out.append(a)
    return out


def kind_of(m, rel):
    k = FILE_KIND.get(rel, "unknown")
    if not m["used"] and k in ("archive", "lib-search-archive", "shared-object"):
        k += "-unused"
    return k


def member_argv(m, indir, tag=""):
    args, req, opt = member_plan(m)
    outrel = f"o/out{tag}_{m['id']}"
    deprel = f"o/dep{tag}_{m['id']}.d"
    target = os.path.join(indir, outrel) if m["abs"] else outrel
    dep = os.path.join(indir, deprel) if m["abs"] else deprel
    argv = (realise(args, indir, m["abs"], sub_of(m)) +
            ["-o", target, f"--dependency-file={dep}"])
    return argv, target, os.path.join(indir, deprel), os.path.join(indir, outrel), req, opt


def parse_make_db(text):
    """`make -p` data base -> {target name: [prerequisite names]} (make prints names unescaped and
    keeps duplicate prerequisites) and the set of all file entries."""
    rules, in_files = {}, False
    for line in text.splitlines():
        if line.startswith("# Files"):
            in_files = True
            continue
        if not in_files:
            continue
        if line.startswith("# files hash-table stats") or line.startswith("# VPATH Search Paths"):
            break
        if not line or line[0] in "#\t" or ":" not in line:
            continue
        name, _, rest = line.partition(":")
        rules.setdefault(name, []).append(rest.strip())
    return rules


def split_names(prereq, names):
    """Split make's printed prerequisite string into names. make prints a name that contains
    blanks unescaped, so the string is segmented with the file names of make's own data base
    (every prerequisite has an entry there). Returns None if there is not exactly one way."""
    toks = prereq.split(" ")
    toks = [t for t in toks if t]
    n = len(toks)
    ways = [0] * (n + 1)
    ways[n] = 1
    nxt = [None] * (n + 1)
    for i in range(n - 1, -1, -1):
        for j in range(i + 1, n + 1):
            if " ".join(toks[i:j]) in names and ways[j]:
                ways[i] += ways[j]
                if nxt[i] is None:
                    nxt[i] = j
    if ways[0] != 1:
        return None
    out, i = [], 0
    while i < n:
        out.append(" ".join(toks[i:nxt[i]]))
        i = nxt[i]
    return out


def run_make(depfiles, cwd):
    mk = depfiles[0] + ".batch.mk"
    with open(mk, "w") as f:
        for d in depfiles:
            f.write(f"include {d}\n")
    rc, out, err = vlib.run(["make", "-rR", "-pq", "-f", mk], cwd=cwd, timeout=120)
    os.unlink(mk)
    return rc, out.decode("utf-8", "replace"), err.decode("utf-8", "replace")


def count_rule_lines(deptext, target):
    """How many rule lines of the dependency file have exactly `target` before the colon."""
    text = deptext.replace("\\\n", " ")
    n = 0
    for line in text.splitlines():
        if line[:1] in ("\t", "#") or ":" not in line:
            continue
        if line.partition(":")[0].strip() == target:
            n += 1
    return n


def judge(m, indir, target, deptext, rules):
    """Findings for one member: list of (key, what)."""
    _, req, opt = member_plan(m)
    out = []
    prereq_strs = rules.get(target)
    if prereq_strs is None:
        others = [t for t, p in rules.items() if any(p)]
        return [("target:not-the-output-path",
                 f"no rule for target '{target}' (make sees rules with prerequisites for "
                 f"{others[:3]})")]
    if count_rule_lines(deptext, target) != 1:
        out.append(("target:several-rules",
                    f"{count_rule_lines(deptext, target)} rule lines for '{target}'"))
    listed = split_names(" ".join(prereq_strs), set(rules))
    if listed is None:
        return [("depfile:ambiguous-names", f"cannot split '{prereq_strs}' into make's names")]
    seen = {}
    for p in listed:
        rp = os.path.realpath(os.path.join(indir, p))
        seen.setdefault(rp, []).append(p)
    sub = sub_of(m)
    want = {os.path.realpath(os.path.join(indir, sub, r)): r for r in req}
    allowed = {os.path.realpath(os.path.join(indir, sub, r)): r for r in opt}
    for rp, rel in sorted(want.items()):
        if rp not in seen:
            out.append((f"missing:{kind_of(m, rel)}", f"{rel} was read but is not a prerequisite"))
    for rp, spellings in sorted(seen.items()):
        rel = want.get(rp) or allowed.get(rp)
        if rel is None:
            k = "output" if rp == os.path.realpath(os.path.join(indir, target)) else "unknown"
            out.append((f"extra:{k}", f"{spellings[0]} is listed but is not a file the link reads"))
        elif len(spellings) > 1:
            out.append((f"duplicate:{kind_of(m, rel)}", f"{rel} is listed {len(spellings)} times: "
                        f"{spellings}"))
    return out


def run_batch(job):
    """Link every member of the batch in this worker's wild server, read all dependency files with
    one make run, judge. Returns list of (member id, status, findings, deptext or '')."""
    indir, members, deadline = job
    linked = []
    results = []
    if time.time() > deadline:
        return [(m["id"], "skipped-cap", [], "") for m in members]
    for m in members:
        argv, target, deppath, outpath, _, _ = member_argv(m, indir)
        for p in (deppath, outpath):
            try:
                os.unlink(p)
            except OSError:
                pass
        rc, msg = wildrun.server_link(argv, cwd=indir)
        if rc != 0:
            results.append((m["id"], f"link-failed rc={rc}: {msg[:200]}", [], ""))
        elif not os.path.exists(deppath):
            results.append((m["id"], "ok", [("depfile:not-written", "link succeeded without "
                                              "writing the dependency file")], ""))
        else:
            linked.append((m, target, deppath, outpath))
    if linked:
        rc, db, err = run_make([x[2] for x in linked], indir)
        groups = [linked]
        if rc == 2 or "***" in err:
            groups = [[x] for x in linked]
        for g in groups:
            if len(groups) > 1:
                rc, db, err = run_make([x[2] for x in g], indir)
            rules = parse_make_db(db)
            for m, target, deppath, outpath in g:
                with open(deppath) as f:
                    deptext = f.read()
                if rc == 2 or "***" in err:
                    finds = [("depfile:make-parse-error", err.strip()[-200:])]
                else:
                    finds = judge(m, indir, target, deptext, rules)
                results.append((m["id"], "ok", finds, deptext if finds else ""))
        for _, _, deppath, outpath in linked:
            for p in (deppath, outpath):
                try:
                    os.unlink(p)
                except OSError:
                    pass
    return results


def _ld_link(job):
    indir, m = job
    argv, target, deppath, outpath, req, opt = member_argv(m, indir, tag="ld")
    rc, _, err = vlib.run(["ld", *argv], cwd=indir)
    return rc, err.decode("utf-8", "replace")[-120:]


def gnu_ld_opinion(indir, carriers):
    """Which kinds GNU ld's own --dependency-file lists, measured on single-carrier members."""
    lists = {}
    detail = []
    ms = []
    for i, c in enumerate(CARRIERS):
        if c not in carriers:
            continue
        for used in (True, False):
            for flavor in (0, 1):
                ms.append(dict(mask=1 << i, dup=False, abs=False, shared=False, used=used,
                               flavor=flavor, id=f"ld{len(ms)}", blank=False))
    linked = vlib.pmap(_ld_link, [(indir, m) for m in ms], chunksize=1)
    ok = [m for m, (rc, _) in zip(ms, linked)
          if rc == 0 and os.path.exists(member_argv(m, indir, tag="ld")[2])]
    rules = {}
    if ok:
        _, db, _ = run_make([member_argv(m, indir, tag="ld")[2] for m in ok], indir)
        rules = parse_make_db(db)
    for m, (rc, err) in zip(ms, linked):
        c = [c for i, c in enumerate(CARRIERS) if m["mask"] >> i & 1][0]
        argv, target, deppath, outpath, req, opt = member_argv(m, indir, tag="ld")
        if m not in ok:
            detail.append({"carrier": c, "used": m["used"], "flavor": m["flavor"],
                           "ld": f"failed rc={rc} {err}"})
            continue
        listed = {os.path.realpath(os.path.join(indir, p))
                  for p in " ".join(rules.get(target, [])).split()}
        for rel in sorted(req | opt):
            k = kind_of(m, rel)
            here = os.path.realpath(os.path.join(indir, rel)) in listed
            lists[k] = (lists[k] and here) if k in lists else here
        detail.append({"carrier": c, "used": m["used"], "flavor": m["flavor"],
                       "ld_lists": sorted(os.path.relpath(p, indir) for p in listed)})
        for p in (deppath, outpath):
            try:
                os.unlink(p)
            except OSError:
                pass
    return lists, detail


def other_linkers_on_blank(indir_b):
    """Does make see 'd s/o1.o' in the dependency files GNU ld and lld write? (information)"""
    out = {}
    m = dict(mask=1, dup=False, abs=False, shared=False, used=True, flavor=0, blank=True)
    for name, exe in (("gnu-ld", "ld"), ("lld", "ld.lld")):
        mm = dict(m, id=name)
        argv, target, deppath, outpath, req, opt = member_argv(mm, indir_b, tag="x")
        rc, _, err = vlib.run([exe, *argv], cwd=indir_b)
        if rc != 0 or not os.path.exists(deppath):
            out[name] = f"failed rc={rc}"
            continue
        with open(deppath) as f:
            deptext = f.read()
        _, db, _ = run_make([deppath], indir_b)
        finds = judge(mm, indir_b, target, deptext, parse_make_db(db))
        out[name] = sorted({k for k, _ in finds}) or "make sees every file"
        for p in (deppath, outpath):
            try:
                os.unlink(p)
            except OSError:
                pass
    return out


def all_members(thorough):
    members = []
    variants = [(u, fl) for u in (True, False) for fl in (0, 1)] if thorough else [(True, 0)]
    for mask in range(1, 1 << len(CARRIERS)):
        for dup in (False, True):
            for ab in (False, True):
                for shared in (False, True):
                    for used, flavor in variants:
                        members.append(dict(mask=mask, dup=dup, abs=ab, shared=shared, used=used,
                                            flavor=flavor))
    if not thorough:
        # The unreferenced / second-flavour variants on the single-carrier and the full member.
        for mask in [1 << i for i in range(len(CARRIERS))] + [(1 << len(CARRIERS)) - 1]:
            for used, flavor in ((True, 1), (False, 0), (False, 1)):
                for shared in (False, True):
                    members.append(dict(mask=mask, dup=False, abs=False, shared=shared, used=used,
                                        flavor=flavor))
    # Part B: the inputs live in a directory whose name contains a blank.
    for mask in [1 << i for i in range(len(CARRIERS))] + [(1 << len(CARRIERS)) - 1]:
        for ab in (False, True):
            for shared in (False, True):
                members.append(dict(mask=mask, dup=False, abs=ab, shared=shared, used=True,
                                    flavor=0, blank=True))
    for i, m in enumerate(members):
        m["id"] = i
        m.setdefault("blank", False)
    return members


def twin_key(m):
    return tuple(m[k] for k in ("mask", "dup", "abs", "shared", "used", "flavor"))


def describe(m):
    cs = [c for i, c in enumerate(CARRIERS) if m["mask"] >> i & 1]
    return {"carriers": cs, "twice": m["dup"], "paths": "absolute" if m["abs"] else "relative",
            "output": "shared" if m["shared"] else "exe", "referenced": m["used"],
            "flavor": ["INPUT+--dynamic-list", "GROUP+--export-dynamic-symbol-list"][m["flavor"]],
            "inputs_in_directory_with_blank": bool(m.get("blank"))}


def replay_doc(m):
    argv, target, _, _, req, opt = member_argv(dict(m, id="R"), "$IN")
    return {"member": {k: m[k] for k in ("mask", "dup", "abs", "shared", "used", "flavor",
                                         "blank")},
            "describe": describe(m), "argv": argv, "target": target,
            "expected_prerequisites": sorted(req), "optional": sorted(opt),
            "sources": SOURCES, "recipes": RECIPES, "texts": TEXTS,
            "manual": "assemble 'sources' (gcc -c) into $IN, run 'recipes' there (ra1.o ra2.o "
                      "zz.o so.o are then removed), write 'texts', mkdir $IN/o; cd $IN; "
                      "wild <argv>; make -rR -pq -f <depfile> | grep '^<target>:' (members with "
                      "inputs_in_directory_with_blank: the inputs are built in '$IN/d s')"}


def replay(chk, path):
    with open(path) as f:
        doc = json.load(f)
    m = dict(doc["replay"]["member"], id=0)
    with vlib.scratch("c25r") as base:
        indir = os.path.join(base, "in")
        m.setdefault("blank", False)
        build_inputs(indir, sub_of(m))
        argv, target, deppath, outpath, req, opt = member_argv(m, indir)
        rc, _, err = wildrun.link_subprocess(["--no-fork", *argv], cwd=indir)
        print("wild", " ".join(argv), "->", rc, err.decode()[-300:])
        if rc != 0:
            chk.machinery("link failed")
        with open(deppath) as f:
            deptext = f.read()
        print(deptext)
        _, db, _ = run_make([deppath], indir)
        finds = judge(m, indir, target, deptext, parse_make_db(db))
        print("expected prerequisites:", sorted(req), "optional:", sorted(opt))
        for k, w in finds:
            print("FINDING", k, w)
        want = doc["key"]
        if want.startswith("path-with-blank:"):
            classes = want.split(":", 1)[1].split("+")
            bad = all(any(k.startswith(c + ":") for k, _ in finds) for c in classes)
        else:
            bad = any(k == want for k, _ in finds)
        print("REPRODUCED" if bad else "not reproduced")
        sys.exit(1 if bad else 0)


def main():
    chk = vlib.Check("C25", "exploration")
    if not chk.args.no_build:
        vlib.build("wild")
    if chk.args.replay:
        replay(chk, chk.args.replay)
    members = all_members(chk.thorough)
    if chk.seed:
        import random
        random.Random(chk.seed).shuffle(members)
    by_id = {m["id"]: m for m in members}
    with vlib.scratch("c25") as base:
        indir = os.path.join(base, "in")
        build_inputs(indir)
        indir_b = os.path.join(base, "inb")
        build_inputs(indir_b, BLANK_SUB)
        blank_opinion = other_linkers_on_blank(indir_b)
        part_a = [m for m in members if not m["blank"]]
        part_b = [m for m in members if m["blank"]]
        # Wall cap for the whole check, enforced here; members not linked by then are reported.
        deadline = chk.t0 + (840 if chk.thorough else 36)
        full = (1 << len(CARRIERS)) - 1
        # Single-carrier and full members first (they matter most if the cap hits).
        part_a.sort(key=lambda m: (not (bin(m["mask"]).count("1") == 1 or m["mask"] == full),
                                   m["id"]))
        jobs = [(indir_b, part_b[i:i + BATCH], deadline) for i in range(0, len(part_b), BATCH)]
        jobs += [(indir, part_a[i:i + BATCH], deadline) for i in range(0, len(part_a), BATCH)]
        results = []
        for rs in wildrun.pmap(run_batch, jobs, chunksize=1):
            results.extend(rs)
        # GNU ld's opinion: thorough asks about every carrier, quick only about the carriers of
        # kinds that were found missing and that the property text does not name.
        missing_kinds = {k.split(":", 1)[1] for mid, st, finds, _ in results
                         if st == "ok" and not by_id[mid]["blank"]
                         for k, _ in finds if k.startswith("missing:")}
        kind_carrier = {"thin-archive-index": "thin", "archive-unused": "ar",
                        "lib-search-archive-unused": "lib", "shared-object": "so",
                        "shared-object-unused": "so", "thin-archive-member": "thin"}
        ask = set(CARRIERS) if chk.thorough else \
            {kind_carrier[k] for k in missing_kinds if k not in EXPLICIT and k in kind_carrier}
        ld_lists, ld_detail = gnu_ld_opinion(indir, ask) if ask else ({}, [])
        # Server and subprocess must write the same dependency file.
        same = 0
        probe = [m for m in members if not m["dup"] and m["used"] and m["flavor"] == 0 and
                 not m["blank"] and not m["abs"] and
                 (bin(m["mask"]).count("1") == 1 or m["mask"] == (1 << len(CARRIERS)) - 1)]
        for m in probe[:: 1 if chk.thorough else 4]:
            argv, _, deppath, outpath, _, _ = member_argv(m, indir, tag="p")
            rc1, msg = wildrun.server_link(argv, cwd=indir)
            d1 = open(deppath).read() if rc1 == 0 else None
            if d1 is not None:
                os.unlink(deppath)
            rc2, _, err = wildrun.link_subprocess(argv, cwd=indir)
            d2 = open(deppath).read() if rc2 == 0 else None
            if (rc1 == 0) != (rc2 == 0) or d1 != d2:
                chk.machinery(f"server and subprocess disagree on {describe(m)}: {rc1} {rc2} "
                              f"{msg[:100]} {err[-100:]}")
            same += 1
    twin_finds = {twin_key(by_id[mid]): {k for k, _ in finds}
                  for mid, status, finds, _ in results if status == "ok" and
                  not by_id[mid]["blank"]}
    skipped = sum(1 for r in results if r[1] == "skipped-cap")
    results = [r for r in results if r[1] != "skipped-cap"]
    link_failed = {}
    judged = 0
    excused = {}
    shapes = set()
    samples = []
    viol_keys = {}
    for mid, status, finds, deptext in results:
        m = by_id[mid]
        if status != "ok":
            reason = status.split(":", 1)[1].strip()[:80]
            link_failed[reason] = link_failed.get(reason, 0) + 1
            continue
        judged += 1
        shapes.add((m["mask"], m["used"], m["flavor"]))
        if len(samples) < 3:
            samples.append({"member": describe(m), "argv": member_argv(m, "$IN")[0],
                            "findings": [k for k, _ in finds]})
        if m["blank"]:
            # Only what the blank adds: findings the blank-free twin member does not have, under
            # one key per class (missing / extra / ...).
            twin = twin_finds.get(twin_key(m))
            if twin is None:
                continue
            new = [(k, w) for k, w in finds if k not in twin]
            classes = sorted({k.split(":", 1)[0] for k, _ in new})
            if classes:
                key = "path-with-blank:" + "+".join(classes)
                what = "; ".join(w for k, w in new)[:300]
                viol_keys[key] = viol_keys.get(key, 0) + 1
                chk.violation(key, f"{what}; member {describe(m)}; dependency file: "
                              f"{deptext.splitlines()[0][:300] if deptext else ''}",
                              replay_doc(m))
            continue
        for key, what in finds:
            kind = key.split(":", 1)[1]
            if key.startswith("missing:") and kind not in EXPLICIT and not ld_lists.get(kind):
                excused[kind] = excused.get(kind, 0) + 1
                continue
            viol_keys[key] = viol_keys.get(key, 0) + 1
            chk.violation(key, f"{what}; member {describe(m)}; dependency file: "
                          f"{deptext.splitlines()[0][:300] if deptext else ''}", replay_doc(m))
    if judged < len(results) * 0.9 or judged < 2:
        chk.machinery(f"only {judged} of {len(results)} members linked: {link_failed}")
    chk.coverage = {
        "evaluations": len(results), "distinct_nontrivial": judged,
        "rule": "one member per (non-empty subset of 9 carriers, once/twice, relative/absolute, "
                "exe/shared, referenced/unreferenced, flavour); all distinct by construction; "
                "non-trivial = wild linked it and wrote a dependency file that GNU make parsed",
        "members": len(members), "judged": judged, "link_failed": link_failed,
        "distinct_input_shapes": len(shapes),
        "carriers": CARRIERS, "exhaustive": skipped == 0,
        "capped": skipped > 0, "members_not_linked_because_of_wall_cap": skipped,
        "thinned": None if chk.thorough else "referenced/unreferenced and flavour variants only "
                   "on the 9 single-carrier members and the full member",
        "gnu_ld_lists_kind": ld_lists, "gnu_ld_detail": ld_detail[:40],
        "missing_excused_because_gnu_ld_omits_kind_too": excused,
        "violations_by_key": viol_keys,
        "server_vs_subprocess_identical_depfiles": same,
        "part_b_members_with_blank_in_input_directory": len([m for m in members if m["blank"]]),
        "other_linkers_on_blank": blank_opinion,
        "samples": samples,
    }
    chk.assumptions = [
        "GNU make 4.3 `make -rR -pq` is the reader of the dependency file (names without blanks)",
        "prerequisites are compared after realpath() against the link's working directory",
        "no linker plugin is involved, so no temporary inputs exist in this family",
        "for kinds the property text does not name (shared objects, unreferenced archives, the "
        "thin-archive index file) a missing entry is a violation only if GNU ld 2.40 lists that "
        "kind in its own --dependency-file",
    ]
    chk.finish()


if __name__ == "__main__":
    main()
