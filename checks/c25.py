#!/usr/bin/env python3
"""C25 - The dependency file lists exactly the files the link read.

Part A is the product below; part B repeats the 9 single-carrier members and the full member with
the inputs in a directory whose name contains a blank (make's reading of the file then depends on
`\\ ` escapes). Part C enumerates the SPELLING of the path by which each carrier is named (plain,
`./`, `dir/../` through a real directory, through a symlinked directory, `symlink/../` where
lexical folding names another file - with and without a stale decoy at the folded name -, a
symlink to the file itself; each relative and absolute) at every site a path is written: the
command line, a -L directory, inside INPUT()/GROUP(), a thin archive's member name. There the
files a link read are observed through their access times, and a prerequisite denotes the file
that stat() from the link's working directory gives, identified by (st_dev, st_ino).

Exhaustive program-family exploration: every non-empty subset of nine input carriers x {each
file once / twice} x {relative / absolute command-line paths} x {executable / shared object}
x {carriers referenced / unreferenced} x {INPUT + --dynamic-list / GROUP +
--export-dynamic-symbol-list}, linked by the real wild with --dependency-file. The dependency file
is read by real GNU make (`make -rR -pq`), and make's view of it is compared with the set of files
the generator knows the member makes a linker read."""
import json
import os
import subprocess
import sys
import time

sys.path.insert(0, os.path.join(os.path.dirname(os.path.abspath(__file__)), "..", "lib"))
import vlib
import wildrun

CARRIERS = ["obj", "ar", "thin", "script-input", "script-T", "version-script", "export-list",
            "lib", "so"]
BATCH = 24


def fn_src(name, ref=None, plt=False):
    body = f"  call {ref}{'@PLT' if plt else ''}\n" if ref else ""
    return (f'.section .text.{name},"ax",@progbits\n.globl {name}\n.type {name},@function\n'
            f"{name}:\n{body}  ret\n")


MAIN_SRC = '.section .text._start,"ax",@progbits\n.globl _start\n_start:\n  ret\n'
TS_LD = ("SECTIONS {\n  .text : { *(.text .text.*) }\n  .data : { *(.data .data.*) }\n"
         "  .bss : { *(.bss .bss.*) }\n}\n")
VS_TXT = "{ global: *; };\n"
DL_TXT = "{ f_o1; };\n"

# file (relative to the input directory) -> kind used in violation keys
FILE_KIND = {
    "main.o": "object", "o1.o": "object", "r_ar.o": "object", "r_thin.o": "object",
    "r_lib.o": "object", "r_so.o": "object",
    "ra.a": "archive", "ta.a": "thin-archive-index", "tm.o": "thin-archive-member",
    "si.ld": "script-input", "sg.ld": "script-input", "si1.o": "script-INPUT-object",
    "ts.ld": "script-T", "vs.txt": "version-script", "dl.txt": "export-list",
    "L/libzz.a": "lib-search-archive", "s1.so": "shared-object",
}
# Kinds the property text names outright. For the others GNU ld's own dependency file decides
# whether the kind counts as "read".
EXPLICIT = {"object", "archive", "thin-archive-member", "script-input", "script-INPUT-object",
            "script-T", "version-script", "export-list", "lib-search-archive"}


def sh(cmd, cwd):
    r = subprocess.run(cmd, cwd=cwd, stdout=subprocess.PIPE, stderr=subprocess.PIPE)
    if r.returncode != 0:
        raise RuntimeError(f"{cmd} failed: {r.stderr.decode()}")


SOURCES = {
    "main.o": MAIN_SRC, "o1.o": fn_src("f_o1"), "r_ar.o": fn_src("r_ar", "f_ar"),
    "r_thin.o": fn_src("r_thin", "f_thin"), "r_lib.o": fn_src("r_lib", "f_lib"),
    "r_so.o": fn_src("r_so", "f_so", plt=True), "si1.o": fn_src("f_si"),
    "tm.o": fn_src("f_thin"), "ra1.o": fn_src("f_ar"), "ra2.o": fn_src("f_ar2"),
    "zz.o": fn_src("f_lib"), "so.o": fn_src("f_so"),
}
RECIPES = ["ar rcD ra.a ra1.o ra2.o", "ar rcTD ta.a tm.o", "ar rcD L/libzz.a zz.o",
           "ld -shared -soname s1.so -o s1.so so.o"]
TEXTS = {"si.ld": "INPUT(si1.o)\n", "sg.ld": "GROUP(si1.o)\n", "ts.ld": TS_LD, "vs.txt": VS_TXT,
         "dl.txt": DL_TXT}


BLANK_SUB = "d s"


def build_inputs(indir, sub=""):
    """Inputs under indir/sub, outputs and dependency files go to indir/o."""
    d = os.path.join(indir, sub)
    os.makedirs(os.path.join(d, "L"))
    os.makedirs(os.path.join(indir, "o"), exist_ok=True)
    for name, src in SOURCES.items():
        with open(vlib.assemble(src), "rb") as f, open(os.path.join(d, name), "wb") as g:
            g.write(f.read())
    for r in RECIPES:
        sh(r.split(), d)
    for n in ("ra1.o", "ra2.o", "zz.o", "so.o"):
        os.unlink(os.path.join(d, n))
    for name, text in TEXTS.items():
        with open(os.path.join(d, name), "w") as f:
            f.write(text)


def member_plan(m):
    """Command line and expectations of a member.
    m: dict(mask, dup, abs, shared, used, flavor, id). Returns (argv tail without -o/depfile,
    required files, optional files) with files relative to the input directory."""
    mask = m["mask"]
    has = {c: bool(mask >> i & 1) for i, c in enumerate(CARRIERS)}
    used, dup = m["used"], m["dup"]
    args, req, opt = [], {"main.o"}, set()

    def f(*a):
        args.extend(a * (2 if dup else 1))

    if m["shared"]:
        args.append("-shared")
    args.append("@main.o")
    refs = [("ar", "r_ar.o"), ("thin", "r_thin.o"), ("lib", "r_lib.o"), ("so", "r_so.o")]
    if used:
        for c, r in refs:
            if has[c]:
                args.append("@" + r)
                req.add(r)
    if has["obj"]:
        f("@o1.o")
        req.add("o1.o")
    if has["ar"]:
        f("@ra.a")
        req.add("ra.a")
    if has["thin"]:
        f("@ta.a")
        req.add("ta.a")
        # A member that is not extracted need not be read (GNU ld decides from the index alone).
        (req if used else opt).add("tm.o")
    if has["script-input"]:
        s = "si.ld" if m["flavor"] == 0 else "sg.ld"
        f("@" + s)
        req.update((s, "si1.o"))
    if has["script-T"]:
        f("-T", "@ts.ld")
        req.add("ts.ld")
    if has["version-script"]:
        args.append("--version-script=@vs.txt")
        req.add("vs.txt")
    if has["export-list"]:
        args.append(("--dynamic-list=" if m["flavor"] == 0 else "--export-dynamic-symbol-list=")
                    + "@dl.txt")
        req.add("dl.txt")
    if has["lib"]:
        args.extend(["-L", "@L"])
        f("-lzz")
        req.add("L/libzz.a")
    if has["so"]:
        args.append("--as-needed")
        f("@s1.so")
        req.add("s1.so")
    return args, req, opt


def sub_of(m):
    return BLANK_SUB if m.get("blank") else ""


def realise(args, indir, absolute, sub=""):
    out = []
    for a in args:
        if "@" in a:
            pre, _, rel = a.partition("@")
            rel = os.path.join(sub, rel)
            a = pre + (os.path.join(indir, rel) if absolute else rel)
        out.append(a)
    return out


def kind_of(m, rel):
    k = FILE_KIND.get(rel, "unknown")
    if not m["used"] and k in ("archive", "lib-search-archive", "shared-object"):
        k += "-unused"
    return k


def member_argv(m, indir, tag=""):
    args, req, opt = member_plan(m)
    outrel = f"o/out{tag}_{m['id']}"
    deprel = f"o/dep{tag}_{m['id']}.d"
    target = os.path.join(indir, outrel) if m["abs"] else outrel
    dep = os.path.join(indir, deprel) if m["abs"] else deprel
    argv = (realise(args, indir, m["abs"], sub_of(m)) +
            ["-o", target, f"--dependency-file={dep}"])
    return argv, target, os.path.join(indir, deprel), os.path.join(indir, outrel), req, opt


def parse_make_db(text):
    """`make -p` data base -> {target name: [prerequisite names]} (make prints names unescaped and
    keeps duplicate prerequisites) and the set of all file entries."""
    rules, in_files = {}, False
    for line in text.splitlines():
        if line.startswith("# Files"):
            in_files = True
            continue
        if not in_files:
            continue
        if line.startswith("# files hash-table stats") or line.startswith("# VPATH Search Paths"):
            break
        if not line or line[0] in "#\t" or ":" not in line:
            continue
        name, _, rest = line.partition(":")
        rules.setdefault(name, []).append(rest.strip())
    return rules


def split_names(prereq, names):
    """Split make's printed prerequisite string into names. make prints a name that contains
    blanks unescaped, so the string is segmented with the file names of make's own data base
    (every prerequisite has an entry there). Returns None if there is not exactly one way."""
    toks = prereq.split(" ")
    toks = [t for t in toks if t]
    n = len(toks)
    ways = [0] * (n + 1)
    ways[n] = 1
    nxt = [None] * (n + 1)
    for i in range(n - 1, -1, -1):
        for j in range(i + 1, n + 1):
            if " ".join(toks[i:j]) in names and ways[j]:
                ways[i] += ways[j]
                if nxt[i] is None:
                    nxt[i] = j
    if ways[0] != 1:
        return None
    out, i = [], 0
    while i < n:
        out.append(" ".join(toks[i:nxt[i]]))
        i = nxt[i]
    return out


def run_make(depfiles, cwd):
    mk = depfiles[0] + ".batch.mk"
    with open(mk, "w") as f:
        for d in depfiles:
            f.write(f"include {d}\n")
    rc, out, err = vlib.run(["make", "-rR", "-pq", "-f", mk], cwd=cwd, timeout=120)
    os.unlink(mk)
    return rc, out.decode("utf-8", "replace"), err.decode("utf-8", "replace")


def count_rule_lines(deptext, target):
    """How many rule lines of the dependency file have exactly `target` before the colon."""
    text = deptext.replace("\\\n", " ")
    n = 0
    for line in text.splitlines():
        if line[:1] in ("\t", "#") or ":" not in line:
            continue
        if line.partition(":")[0].strip() == target:
            n += 1
    return n


def judge(m, indir, target, deptext, rules):
    """Findings for one member: list of (key, what)."""
    _, req, opt = member_plan(m)
    out = []
    prereq_strs = rules.get(target)
    if prereq_strs is None:
        others = [t for t, p in rules.items() if any(p)]
        return [("target:not-the-output-path",
                 f"no rule for target '{target}' (make sees rules with prerequisites for "
                 f"{others[:3]})")]
    if count_rule_lines(deptext, target) != 1:
        out.append(("target:several-rules",
                    f"{count_rule_lines(deptext, target)} rule lines for '{target}'"))
    listed = split_names(" ".join(prereq_strs), set(rules))
    if listed is None:
        return [("depfile:ambiguous-names", f"cannot split '{prereq_strs}' into make's names")]
    seen = {}
    for p in listed:
        rp = os.path.realpath(os.path.join(indir, p))
        seen.setdefault(rp, []).append(p)
    sub = sub_of(m)
    want = {os.path.realpath(os.path.join(indir, sub, r)): r for r in req}
    allowed = {os.path.realpath(os.path.join(indir, sub, r)): r for r in opt}
    for rp, rel in sorted(want.items()):
        if rp not in seen:
            out.append((f"missing:{kind_of(m, rel)}", f"{rel} was read but is not a prerequisite"))
    for rp, spellings in sorted(seen.items()):
        rel = want.get(rp) or allowed.get(rp)
        if rel is None:
            k = "output" if rp == os.path.realpath(os.path.join(indir, target)) else "unknown"
            out.append((f"extra:{k}", f"{spellings[0]} is listed but is not a file the link reads"))
        elif len(spellings) > 1:
            out.append((f"duplicate:{kind_of(m, rel)}", f"{rel} is listed {len(spellings)} times: "
                        f"{spellings}"))
    return out


def run_batch(job):
    """Link every member of the batch in this worker's wild server, read all dependency files with
    one make run, judge. Returns list of (member id, status, findings, deptext or '')."""
    indir, members, deadline = job
    linked = []
    results = []
    if time.time() > deadline:
        return [(m["id"], "skipped-cap", [], "") for m in members]
    for m in members:
        argv, target, deppath, outpath, _, _ = member_argv(m, indir)
        for p in (deppath, outpath):
            try:
                os.unlink(p)
            except OSError:
                pass
        rc, msg = wildrun.server_link(argv, cwd=indir)
        if rc != 0:
            results.append((m["id"], f"link-failed rc={rc}: {msg[:200]}", [], ""))
        elif not os.path.exists(deppath):
            results.append((m["id"], "ok", [("depfile:not-written", "link succeeded without "
                                              "writing the dependency file")], ""))
        else:
            linked.append((m, target, deppath, outpath))
    if linked:
        rc, db, err = run_make([x[2] for x in linked], indir)
        groups = [linked]
        if rc == 2 or "***" in err:
            groups = [[x] for x in linked]
        for g in groups:
            if len(groups) > 1:
                rc, db, err = run_make([x[2] for x in g], indir)
            rules = parse_make_db(db)
            for m, target, deppath, outpath in g:
                with open(deppath) as f:
                    deptext = f.read()
                if rc == 2 or "***" in err:
                    finds = [("depfile:make-parse-error", err.strip()[-200:])]
                else:
                    finds = judge(m, indir, target, deptext, rules)
                results.append((m["id"], "ok", finds, deptext if finds else ""))
        for _, _, deppath, outpath in linked:
            for p in (deppath, outpath):
                try:
                    os.unlink(p)
                except OSError:
                    pass
    return results


def _ld_link(job):
    indir, m = job
    argv, target, deppath, outpath, req, opt = member_argv(m, indir, tag="ld")
    rc, _, err = vlib.run(["ld", *argv], cwd=indir)
    return rc, err.decode("utf-8", "replace")[-120:]


def gnu_ld_opinion(indir, carriers):
    """Which kinds GNU ld's own --dependency-file lists, measured on single-carrier members."""
    lists = {}
    detail = []
    ms = []
    for i, c in enumerate(CARRIERS):
        if c not in carriers:
            continue
        for used in (True, False):
            for flavor in (0, 1):
                ms.append(dict(mask=1 << i, dup=False, abs=False, shared=False, used=used,
                               flavor=flavor, id=f"ld{len(ms)}", blank=False))
    linked = vlib.pmap(_ld_link, [(indir, m) for m in ms], chunksize=1)
    ok = [m for m, (rc, _) in zip(ms, linked)
          if rc == 0 and os.path.exists(member_argv(m, indir, tag="ld")[2])]
    rules = {}
    if ok:
        _, db, _ = run_make([member_argv(m, indir, tag="ld")[2] for m in ok], indir)
        rules = parse_make_db(db)
    for m, (rc, err) in zip(ms, linked):
        c = [c for i, c in enumerate(CARRIERS) if m["mask"] >> i & 1][0]
        argv, target, deppath, outpath, req, opt = member_argv(m, indir, tag="ld")
        if m not in ok:
            detail.append({"carrier": c, "used": m["used"], "flavor": m["flavor"],
                           "ld": f"failed rc={rc} {err}"})
            continue
        listed = {os.path.realpath(os.path.join(indir, p))
                  for p in " ".join(rules.get(target, [])).split()}
        for rel in sorted(req | opt):
            k = kind_of(m, rel)
            here = os.path.realpath(os.path.join(indir, rel)) in listed
            lists[k] = (lists[k] and here) if k in lists else here
        detail.append({"carrier": c, "used": m["used"], "flavor": m["flavor"],
                       "ld_lists": sorted(os.path.relpath(p, indir) for p in listed)})
        for p in (deppath, outpath):
            try:
                os.unlink(p)
            except OSError:
                pass
    return lists, detail


def other_linkers_on_blank(indir_b):
    """Does make see 'd s/o1.o' in the dependency files GNU ld and lld write? (information)"""
    out = {}
    m = dict(mask=1, dup=False, abs=False, shared=False, used=True, flavor=0, blank=True)
    for name, exe in (("gnu-ld", "ld"), ("lld", "ld.lld")):
        mm = dict(m, id=name)
        argv, target, deppath, outpath, req, opt = member_argv(mm, indir_b, tag="x")
        rc, _, err = vlib.run([exe, *argv], cwd=indir_b)
        if rc != 0 or not os.path.exists(deppath):
            out[name] = f"failed rc={rc}"
            continue
        with open(deppath) as f:
            deptext = f.read()
        _, db, _ = run_make([deppath], indir_b)
        finds = judge(mm, indir_b, target, deptext, parse_make_db(db))
        out[name] = sorted({k for k, _ in finds}) or "make sees every file"
        for p in (deppath, outpath):
            try:
                os.unlink(p)
            except OSError:
                pass
    return out


# ------------------------------------------------------------------------------------------------
# Part C: the SPELLING of the path by which a carrier is named.
#
# Tree (one private copy per worker process, so that access times can be observed):
#   <root>/proj/                     working directory of the link (and of make)
#   <root>/proj/X                    "home" copy of every carrier file X (content variant 0); in the
#                                    no-decoy tree the carriers are absent here
#   <root>/proj/rd/                  a real, empty directory:        rd/../X  == proj/X
#   <root>/proj/sd -> ../store/alt   a symlinked directory:          sd/X     == store/alt/X
#   <root>/proj/sl -> ../store/v1/objs   a symlinked directory:      sl/../X  == store/v1/X, while
#                                    the lexically folded name X is proj/X (the stale decoy)
#   <root>/proj/fl/X -> ../../store/files/X   a symlink to the file itself
#   <root>/store/{v1,alt,files}/X    other copies (content variant 1: objects have one more
#                                    instruction, texts one more newline), all distinct inodes
#   <root>/proj/tq_<spelling>.a      thin archive whose member name is the spelled path of tm.o
#   <root>/proj/sq_<spelling>.ld     INPUT(<spelled path of si1.o>);  sgq_...: GROUP(...)
#
# Which files a link read is OBSERVED, without any linker: the access time of every regular file of
# the tree is set to 1970 before the link; read() and mmap() update it (tmpfs, relatime), open()
# and stat() do not. The family's own expectation is only used to cross-check that observation.
SPELLINGS = ["plain", "dot", "realdir-dotdot", "dot-realdir-dotdot", "symlinkdir",
             "symlinkdir-dotdot", "file-symlink"]
SPELL_FMT = {"plain": "{}", "dot": "./{}", "realdir-dotdot": "rd/../{}",
             "dot-realdir-dotdot": "./rd/./../rd/.././{}", "symlinkdir": "sd/{}",
             "symlinkdir-dotdot": "sl/../{}", "file-symlink": "fl/{}"}
SITES = ["obj", "ar", "thin", "thin-member", "script-input", "script-inner", "script-T",
         "version-script", "export-list", "lib", "so"]
SITE_CARRIER = {"thin-member": "thin", "script-inner": "script-input"}
TOKEN_SITE = {"o1.o": "obj", "ra.a": "ar", "ta.a": "thin", "si.ld": "script-input",
              "sg.ld": "script-input", "ts.ld": "script-T", "vs.txt": "version-script",
              "dl.txt": "export-list", "L": "lib", "s1.so": "so"}
OUTER_SITES = [s for s in SITES if s not in SITE_CARRIER]
# The second all-sites member: thin archive and INPUT script are plain, the names inside them
# are spelled (the two cannot be combined with the spelled containers: one symbol, two definitions).
ALL_INNER_SITES = [s for s in SITES if s not in ("thin", "script-input")]
HOME_ONLY = ["main.o", "r_ar.o", "r_thin.o", "r_lib.o", "r_so.o"]
LOGICAL = ["o1.o", "ra.a", "ta.a", "tm.o", "si.ld", "sg.ld", "si1.o", "ts.ld", "vs.txt", "dl.txt",
           "L/libzz.a", "s1.so"]
ATIME0 = 1_000_000_000       # ns: 1 s after the epoch
DUPMODES = ["once", "twice-same-spelling", "twice-plain-and-spelled"]


def spell_variants():
    """(spelling, absolute, decoy) triples; the decoy axis only exists where lexical folding would
    name another path."""
    out = []
    for sp in SPELLINGS:
        for ab in (False, True):
            out.append((sp, ab, True))
            if sp == "symlinkdir-dotdot":
                out.append((sp, ab, False))
    return out


def spid_of(sp, ab, decoy=True):
    return ("abs-" if ab else "") + sp + ("" if decoy else "-nodecoy")


def spelled(sp, ab, proj, rel):
    p = SPELL_FMT[sp].format(rel)
    return proj + "/" + p if ab else p


def ar_bytes(members, thin=False):
    """GNU archive (with symbol table; long-name table when needed). members: (name, data,
    [global symbols]). A thin archive stores only the headers; its names are paths relative to
    the archive's directory (or absolute) and always go to the long-name table here."""
    import struct
    longnames, hnames = b"", []
    for name, _, _ in members:
        if thin or len(name) > 15 or "/" in name:
            hnames.append("/%d" % len(longnames))
            longnames += name.encode() + b"/\n"
        else:
            hnames.append(name + "/")

    def hdr(n, size):
        return ("%-16s%-12d%-6d%-6d%-8s%-10d`\n" % (n, 0, 0, 0, "644", size)).encode()

    def pad(b):
        return b + (b"\n" if len(b) & 1 else b"")

    symnames = b"".join(s.encode() + b"\0" for _, _, ss in members for s in ss)
    nsyms = sum(len(ss) for _, _, ss in members)
    symsize = 4 + 4 * nsyms + len(symnames)
    pos = 8 + 60 + symsize + (symsize & 1)
    if longnames:
        pos += 60 + len(longnames) + (len(longnames) & 1)
    offs, body = [], b""
    for (name, data, syms), hn in zip(members, hnames):
        offs.extend([pos] * len(syms))
        chunk = hdr(hn, len(data)) + (b"" if thin else pad(data))
        body += chunk
        pos += len(chunk)
    sym = struct.pack(">I", nsyms) + b"".join(struct.pack(">I", o) for o in offs) + symnames
    out = (b"!<thin>\n" if thin else b"!<arch>\n") + hdr("/", len(sym)) + pad(sym)
    if longnames:
        out += hdr("//", len(longnames)) + pad(longnames)
    return out + body


def _obj(name, variant):
    with open(vlib.assemble(SOURCES[name] + ("  nop\n" if variant else "")), "rb") as f:
        return f.read()


def carrier_bytes(variant, so_path):
    """Contents of the 12 carrier files (name relative to a location directory)."""
    out = {n: _obj(n, variant) for n in ("o1.o", "tm.o", "si1.o")}
    out["ra.a"] = ar_bytes([("ra1.o", _obj("ra1.o", variant), ["f_ar"]),
                            ("ra2.o", _obj("ra2.o", variant), ["f_ar2"])])
    out["ta.a"] = ar_bytes([("tm.o", out["tm.o"], ["f_thin"])], thin=True)
    out["L/libzz.a"] = ar_bytes([("zz.o", _obj("zz.o", variant), ["f_lib"])])
    with open(so_path, "rb") as f:
        out["s1.so"] = f.read()
    for n, t in TEXTS.items():
        out[n] = (t + ("\n" if variant else "")).encode()
    return out


def build_so_variants(d):
    """s1.so in both content variants (needs a linker: GNU ld), made once by the parent."""
    os.makedirs(d, exist_ok=True)
    paths = []
    for v in (0, 1):
        o = os.path.join(d, f"so{v}.o")
        with open(o, "wb") as f:
            f.write(_obj("so.o", v))
        sh(["ld", "-shared", "-soname", "s1.so", "-o", f"s1_v{v}.so", f"so{v}.o"], d)
        paths.append(os.path.join(d, f"s1_v{v}.so"))
    return paths


class Tree:
    pass


def build_tree(root, decoy, so_paths):
    t = Tree()
    t.root, t.decoy = root, decoy
    t.proj = proj = os.path.join(root, "proj")
    for d in ("proj/o", "proj/rd", "proj/fl/L", "store/v1/objs", "store/v1/L", "store/alt/L",
              "store/files/L"):
        os.makedirs(os.path.join(root, d))
    os.symlink("../store/alt", os.path.join(proj, "sd"))
    os.symlink("../store/v1/objs", os.path.join(proj, "sl"))

    def put(path, data):
        with open(path, "wb") as f:
            f.write(data)

    for n in HOME_ONLY:
        put(os.path.join(proj, n), _obj(n, 0))
    locs = [("store/v1", 1), ("store/alt", 1), ("store/files", 1)]
    if decoy:
        os.makedirs(os.path.join(proj, "L"))
        locs.append(("proj", 0))
    for loc, variant in locs:
        for n, data in carrier_bytes(variant, so_paths[variant]).items():
            put(os.path.join(root, loc, n), data)
    for n in LOGICAL:
        os.symlink("../" * (2 + n.count("/")) + "store/files/" + n, os.path.join(proj, "fl", n))
    tm = _obj("tm.o", 1)
    for sp, ab, dc in spell_variants():
        if dc != decoy:
            continue        # the no-decoy tree only serves the symlinkdir-dotdot-nodecoy variants
        sid = spid_of(sp, ab, dc)
        put(os.path.join(proj, f"tq_{sid}.a"),
            ar_bytes([(spelled(sp, ab, proj, "tm.o"), tm, ["f_thin"])], thin=True))
        put(os.path.join(proj, f"sq_{sid}.ld"),
            f"INPUT({spelled(sp, ab, proj, 'si1.o')})\n".encode())
        put(os.path.join(proj, f"sgq_{sid}.ld"),
            f"GROUP({spelled(sp, ab, proj, 'si1.o')})\n".encode())
    # Every regular file of the tree (outputs excluded): path, (dev, ino), mtime, label.
    t.tracked = []
    t.label = {}
    for dp, dns, fns in os.walk(root):
        if dp == os.path.join(proj, "o"):
            continue
        for fn in fns:
            p = os.path.join(dp, fn)
            st = os.lstat(p)
            if not os.path.islink(p):
                ident = (st.st_dev, st.st_ino)
                t.tracked.append((p, ident, st.st_mtime_ns))
                t.label[ident] = os.path.relpath(p, root)
    # Self-test of the observation.
    t.reset_atimes = lambda: [os.utime(p, ns=(ATIME0, mt)) for p, _, mt in t.tracked]
    t.reset_atimes()
    probe = t.tracked[0][0]
    with open(probe, "rb") as f:
        f.read(1)
    t.atime_works = os.stat(probe).st_atime_ns != ATIME0 and \
        os.stat(t.tracked[1][0]).st_atime_ns == ATIME0
    return t


def files_read(t):
    return {ident for p, ident, _ in t.tracked if os.stat(p).st_atime_ns != ATIME0}


def logical_of(label):
    """store/v1/L/libzz.a -> L/libzz.a; proj/tq_x.a -> ta.a; proj/sq_x.ld -> si.ld."""
    for pre in ("store/v1/", "store/alt/", "store/files/", "proj/"):
        if label.startswith(pre):
            label = label[len(pre):]
            break
    if label.startswith("tq_"):
        return "ta.a"
    if label.startswith("sq_"):
        return "si.ld"
    if label.startswith("sgq_"):
        return "sg.ld"
    return label


def plan_c(m, proj):
    """argv tail (without -o / --dependency-file), required logical files, and the paths whose
    resolution by the OS the family knows outright (relative to proj or absolute)."""
    args, req, opt = member_plan(m)
    sp, ab = m["spelling"], m["abs"]
    sid = spid_of(sp, ab, m["decoy"])
    sites = set(m["sites"])
    seen, out, known = {}, [], []
    for a in args:
        if a == "-lzz":
            seen[a] = seen.get(a, 0) + 1
            if seen[a] == 2 and m["dupmode"] == 2 and "lib" in sites:
                a = "L/libzz.a"
                known.append(a)
            out.append(a)
            continue
        if "@" not in a:
            out.append(a)
            continue
        pre, _, rel = a.partition("@")
        seen[rel] = seen.get(rel, 0) + 1
        second_plain = m["dupmode"] == 2 and seen[rel] == 2
        site = TOKEN_SITE.get(rel)
        if second_plain or site is None:
            path = rel
        elif site in sites:
            path = spelled(sp, ab, proj, rel)
        elif rel == "ta.a" and "thin-member" in sites:
            path = f"tq_{sid}.a"
            known.append(spelled(sp, ab, proj, "tm.o"))
        elif rel in ("si.ld", "sg.ld") and "script-inner" in sites:
            path = ("sq_" if rel == "si.ld" else "sgq_") + sid + ".ld"
            known.append(spelled(sp, ab, proj, "si1.o"))
        else:
            path = rel
        known.append(path + "/libzz.a" if rel == "L" else path)
        out.append(pre + path)
    return out, req, opt, known


def member_argv_c(m, proj):
    args, req, opt, known = plan_c(m, proj)
    outrel, deprel = f"o/outc_{m['id']}", f"o/depc_{m['id']}.d"
    argv = args + ["-o", outrel, f"--dependency-file={deprel}"]
    return argv, outrel, os.path.join(proj, deprel), os.path.join(proj, outrel), req, known


def stat_id(proj, p):
    """(dev, ino) of the regular file that name p denotes for a process running in proj."""
    import stat as st_
    try:
        st = os.stat(p if os.path.isabs(p) else proj + "/" + p)
    except OSError:
        return None
    return (st.st_dev, st.st_ino) if st_.S_ISREG(st.st_mode) else None


def cross_check(t, m, req, known, read):
    """Does the observation agree with what the family knows? Returns a reason or None."""
    for p in known:
        i = stat_id(t.proj, p)
        if i is None:
            return f"family error: {p} is not a file"
        if i not in read:
            return f"{p} ({t.label.get(i)}) was named but its access time did not change"
    got = {logical_of(t.label[i]) for i in read}
    for r in req:
        if r not in got:
            return f"no copy of {r} was observed as read"
    return None


def kind_c(t, ident):
    lab = t.label.get(ident)
    return FILE_KIND.get(logical_of(lab), "unknown") if lab else "unknown"


def judge_c(m, t, target, deptext, rules, read):
    """Findings (finding, what) for a part C member. Every name is resolved by the OS from the
    directory make runs in; files are identified by (st_dev, st_ino)."""
    out = []
    prereq_strs = rules.get(target)
    if prereq_strs is None:
        others = [x for x, p in rules.items() if any(p)]
        return [("target:not-the-output-path", f"no rule for target '{target}' (make sees rules "
                 f"with prerequisites for {others[:3]})")]
    if count_rule_lines(deptext, target) != 1:
        out.append(("target:several-rules",
                    f"{count_rule_lines(deptext, target)} rule lines for '{target}'"))
    listed = split_names(" ".join(prereq_strs), set(rules))
    if listed is None:
        return [("depfile:ambiguous-names", f"cannot split '{prereq_strs}' into make's names")]
    by_id, notfile = {}, []
    for p in listed:
        i = stat_id(t.proj, p)
        if i is None:
            notfile.append(p)
        else:
            by_id.setdefault(i, []).append(p)
    missing = sorted(t.label[i] for i in read if i not in by_id)
    others = {i: n for i, n in by_id.items() if i not in read}
    out_id = stat_id(t.proj, target)

    def lab(i):
        return "the output" if i == out_id else (t.label.get(i) or "a file outside the tree")

    other_txt = "; ".join(f"'{n[0]}' denotes {lab(i)}" for i, n in sorted(others.items()))
    if missing:
        mk = "+".join(sorted({FILE_KIND.get(logical_of(x), "unknown") for x in missing}))
        if others:
            out.append(("names-other-file", f"the link read {missing}, which no prerequisite "
                        f"denotes; instead {other_txt}, which the link did not read"))
        if notfile:
            out.append(("listed-not-a-file", f"the link read {missing}, which no prerequisite "
                        f"denotes; prerequisites {notfile} do not exist"))
        if not others and not notfile:
            out.append((f"missing:{mk}", f"the link read {missing}, which no prerequisite "
                        f"denotes"))
    else:
        for i, n in sorted(others.items()):
            k = "output" if i == out_id else kind_c(t, i)
            out.append((f"extra:{k}", f"'{n[0]}' denotes {lab(i)}, which the link did not read"))
        if notfile:
            out.append(("listed-not-a-file", f"prerequisites {notfile} do not exist"))
    for i, names in sorted(by_id.items()):
        if len(names) > 1:
            if len(set(names)) == 1:
                out.append((f"duplicate:{kind_c(t, i)}",
                            f"{lab(i)} is listed {len(names)} times as '{names[0]}'"))
            else:
                out.append((f"same-file-under-two-names:{kind_c(t, i)}",
                            f"{lab(i)} (one file, read under two spellings) is listed "
                            f"{len(names)} times under different names {names} (a violation "
                            f"only if 'once each' counts files rather than names)"))
    return out


_TREES = {}


def tree_for(base, decoy, so_paths):
    key = (base, decoy)
    if key not in _TREES:
        root = os.path.join(base, "spell", f"w{os.getpid()}", "D" if decoy else "N")
        _TREES[key] = build_tree(root, decoy, so_paths)
    return _TREES[key]


def link_and_judge_c(t, members, link):
    """link(argv, cwd) -> (rc, message). Returns [(id, status, findings, deptext)]."""
    results, linked = [], []
    for m in members:
        argv, target, deppath, outpath, req, known = member_argv_c(m, t.proj)
        for p in (deppath, outpath):
            try:
                os.unlink(p)
            except OSError:
                pass
        t.reset_atimes()
        rc, msg = link(argv, t.proj)
        read = files_read(t)
        if rc != 0:
            results.append((m["id"], f"link-failed rc={rc}: {msg[:200]}", [], ""))
            continue
        if not os.path.exists(deppath):
            results.append((m["id"], "ok", [("depfile:not-written", "link succeeded without "
                                              "writing the dependency file")], ""))
            continue
        why = cross_check(t, m, req, known, read)
        if why:
            results.append((m["id"], f"observation-disagrees: {why}", [], ""))
            continue
        linked.append((m, target, deppath, outpath, read))
    if linked:
        rc, db, err = run_make([x[2] for x in linked], t.proj)
        groups = [linked]
        if rc == 2 or "***" in err:
            groups = [[x] for x in linked]
        for g in groups:
            if len(groups) > 1:
                rc, db, err = run_make([x[2] for x in g], t.proj)
            rules = parse_make_db(db)
            for m, target, deppath, outpath, read in g:
                with open(deppath) as f:
                    deptext = f.read()
                if rc == 2 or "***" in err:
                    finds = [("depfile:make-parse-error", err.strip()[-200:])]
                else:
                    finds = judge_c(m, t, target, deptext, rules, read)
                results.append((m["id"], "ok", finds, deptext if finds else ""))
        for _, _, deppath, outpath, _ in linked:
            for p in (deppath, outpath):
                try:
                    os.unlink(p)
                except OSError:
                    pass
    return results


def _server(argv, cwd):
    return wildrun.server_link(argv, cwd=cwd)


def run_batch_c(job):
    base, so_paths, members, deadline = job
    if time.time() > deadline:
        return [(m["id"], "skipped-cap", [], "") for m in members]
    results = []
    for decoy in (True, False):
        ms = [m for m in members if m["decoy"] == decoy]
        if not ms:
            continue
        t = tree_for(base, decoy, so_paths)
        if not t.atime_works:
            return [(m["id"], "observation-unavailable", [], "") for m in members]
        results.extend(link_and_judge_c(t, ms, _server))
    results.append((None, "finished-at", [], time.time()))
    return results


def run_job(job):
    kind, payload = job
    return run_batch_c(payload) if kind == "C" else run_batch(payload)


def _gnu_ld(argv, cwd):
    rc, _, err = vlib.run(["ld", *argv], cwd=cwd)
    return rc, err.decode("utf-8", "replace")


def gnu_ld_on_spellings(job):
    """Oracle validation: GNU ld's dependency file of the all-sites member of one spelling variant
    must be accepted by the same judge (same observation of the files read)."""
    base, so_paths, m = job
    t = tree_for(base, m["decoy"], so_paths)
    (_, status, finds, _), = link_and_judge_c(t, [m], _gnu_ld)
    return spid_of(m["spelling"], m["abs"], m["decoy"]), status, sorted(k for k, _ in finds)


def part_c_members(thorough):
    """Single-site members: site x spelling variant x once/twice/twice-mixed x exe/shared (x the
    second flavour on the three sites it concerns); plus the two all-sites members per variant."""
    ms = []

    def add(sites, name, sp, ab, decoy, dupmode, shared, flavor):
        carriers = {SITE_CARRIER.get(s, s) for s in sites} if len(sites) == 1 else set(CARRIERS)
        mask = sum(1 << i for i, c in enumerate(CARRIERS) if c in carriers)
        ms.append(dict(part="C", sites=sorted(sites), site=name, spelling=sp, decoy=decoy,
                       dupmode=dupmode, mask=mask, dup=dupmode > 0, abs=ab, shared=shared,
                       used=True, flavor=flavor, blank=False))

    for sp, ab, decoy in spell_variants():
        groups = [([s], s) for s in SITES] + [(OUTER_SITES, "all"), (ALL_INNER_SITES, "all-inner")]
        for sites, name in groups:
            for dupmode in (0, 1, 2):
                if dupmode == 2 and (sp == "plain" and not ab or not decoy):
                    continue    # same as twice-same / no plain copy exists
                if dupmode and name in ("version-script", "export-list"):
                    continue    # these options are not repeated by the family
                for shared in (False, True):
                    flavors = (0, 1) if name in ("script-input", "script-inner", "export-list",
                                                 "all", "all-inner") else (0,)
                    for flavor in flavors:
                        if not thorough and (flavor or shared) and dupmode:
                            continue
                        if not thorough and flavor and shared:
                            continue
                        add(sites, name, sp, ab, decoy, dupmode, shared, flavor)
    return ms


def key_c(m, finding):
    cls, _, kind = finding.partition(":")
    if m["dupmode"] == 2 and cls in ("duplicate", "same-file-under-two-names"):
        # The command line itself names one file by two different names and the link reads it
        # under both. Whether listing it under both names breaks "once each" depends on whether
        # that phrase counts files or names: one key per kind, apart from every other finding.
        return f"named-twice-under-two-names:{kind}:listed-under-both-names"
    return f"spelling:{spid_of(m['spelling'], m['abs'], m['decoy'])}:{m['site']}:{finding}"


def all_members(thorough):
    members = []
    variants = [(u, fl) for u in (True, False) for fl in (0, 1)] if thorough else [(True, 0)]
    for mask in range(1, 1 << len(CARRIERS)):
        for dup in (False, True):
            for ab in (False, True):
                for shared in (False, True):
                    for used, flavor in variants:
                        members.append(dict(mask=mask, dup=dup, abs=ab, shared=shared, used=used,
                                            flavor=flavor))
    if not thorough:
        # The unreferenced / second-flavour variants on the single-carrier and the full member.
        for mask in [1 << i for i in range(len(CARRIERS))] + [(1 << len(CARRIERS)) - 1]:
            for used, flavor in ((True, 1), (False, 0), (False, 1)):
                for shared in (False, True):
                    members.append(dict(mask=mask, dup=False, abs=False, shared=shared, used=used,
                                        flavor=flavor))
    # Part B: the inputs live in a directory whose name contains a blank.
    for mask in [1 << i for i in range(len(CARRIERS))] + [(1 << len(CARRIERS)) - 1]:
        for ab in (False, True):
            for shared in (False, True):
                members.append(dict(mask=mask, dup=False, abs=ab, shared=shared, used=True,
                                    flavor=0, blank=True))
    for m in members:
        m.setdefault("blank", False)
        m["part"] = "B" if m["blank"] else "A"
    # Part C: the spelling of the paths.
    members.extend(part_c_members(thorough))
    for i, m in enumerate(members):
        m["id"] = i
    return members


def twin_key(m):
    return tuple(m[k] for k in ("mask", "dup", "abs", "shared", "used", "flavor"))


def describe(m):
    cs = [c for i, c in enumerate(CARRIERS) if m["mask"] >> i & 1]
    if m.get("part") == "C":
        return {"part": "C (path spelling)", "spelled_sites": m["site"],
                "spelling": spid_of(m["spelling"], m["abs"], m["decoy"]),
                "example": spelled(m["spelling"], m["abs"], "$TREE/proj", "X"),
                "decoy_at_lexically_folded_name": m["decoy"], "carriers": cs,
                "each_file": DUPMODES[m["dupmode"]], "output": "shared" if m["shared"] else "exe",
                "flavor": ["INPUT+--dynamic-list",
                           "GROUP+--export-dynamic-symbol-list"][m["flavor"]]}
    return {"carriers": cs, "twice": m["dup"], "paths": "absolute" if m["abs"] else "relative",
            "output": "shared" if m["shared"] else "exe", "referenced": m["used"],
            "flavor": ["INPUT+--dynamic-list", "GROUP+--export-dynamic-symbol-list"][m["flavor"]],
            "inputs_in_directory_with_blank": bool(m.get("blank"))}


C_KEYS = ("part", "sites", "site", "spelling", "decoy", "dupmode", "mask", "dup", "abs", "shared",
          "used", "flavor", "blank")
TREE_DOC = (
    "$TREE/proj is the working directory. $TREE/proj/X = home copy of every carrier X (absent in "
    "members with decoy_at_lexically_folded_name=false), $TREE/store/v1/X, $TREE/store/alt/X, "
    "$TREE/store/files/X = other copies with different content (objects: one more nop; texts: one "
    "more newline). proj/rd = empty real directory; proj/sd -> ../store/alt; proj/sl -> "
    "../store/v1/objs (an empty directory, so proj/sl/.. is store/v1); proj/fl/X -> "
    "../../store/files/X. X in o1.o ra.a(ra1.o ra2.o) ta.a(thin: tm.o) tm.o si.ld sg.ld si1.o "
    "ts.ld vs.txt dl.txt L/libzz.a(zz.o) s1.so; main.o r_ar.o r_thin.o r_lib.o r_so.o only in "
    "proj. proj/tq_<spelling>.a = thin archive whose member name is the spelled path of tm.o; "
    "proj/sq_<spelling>.ld = INPUT(<spelled path of si1.o>), sgq_ = GROUP(...). Before the link "
    "every file's atime is set to 1970; a file whose atime changed was read. Oracle: the set of "
    "(st_dev, st_ino) of the prerequisites make sees, stat()ed from proj, must equal the set of "
    "files read, each once. Simplest: ./check C25 --replay <this file>.")


def replay_doc_c(m):
    argv, target, _, _, req, known = member_argv_c(dict(m, id="R"), "$TREE/proj")
    return {"member": {k: m[k] for k in C_KEYS}, "describe": describe(m), "argv": argv,
            "cwd": "$TREE/proj", "target": target, "logical_files_required": sorted(req),
            "names_the_family_resolves_itself": known, "sources": SOURCES, "texts": TEXTS,
            "tree": TREE_DOC}


def replay_c(chk, doc, m):
    with vlib.scratch("c25r") as base:
        so_paths = build_so_variants(os.path.join(base, "so"))
        t = tree_for(base, m["decoy"], so_paths)
        if not t.atime_works:
            chk.machinery("access times are not updated on this file system")
        argv = member_argv_c(m, t.proj)[0]

        def link(argv, cwd):
            rc, _, err = wildrun.link_subprocess(["--no-fork", *argv], cwd=cwd)
            return rc, err.decode("utf-8", "replace")
        print("tree:", t.root, "(removed on exit)\ncd proj; wild", " ".join(argv))
        (_, status, finds, deptext), = link_and_judge_c(t, [m], link)
        print("status:", status)
        print(deptext)
        for k, w in finds:
            print("FINDING", key_c(m, k), w)
        bad = any(key_c(m, k) == doc["key"] for k, _ in finds)
        print("REPRODUCED" if bad else "not reproduced")
        sys.exit(1 if bad else 0)


def replay_doc(m):
    if m.get("part") == "C":
        return replay_doc_c(m)
    argv, target, _, _, req, opt = member_argv(dict(m, id="R"), "$IN")
    return {"member": {k: m[k] for k in ("mask", "dup", "abs", "shared", "used", "flavor",
                                         "blank")},
            "describe": describe(m), "argv": argv, "target": target,
            "expected_prerequisites": sorted(req), "optional": sorted(opt),
            "sources": SOURCES, "recipes": RECIPES, "texts": TEXTS,
            "manual": "assemble 'sources' (gcc -c) into $IN, run 'recipes' there (ra1.o ra2.o "
                      "zz.o so.o are then removed), write 'texts', mkdir $IN/o; cd $IN; "
                      "wild <argv>; make -rR -pq -f <depfile> | grep '^<target>:' (members with "
                      "inputs_in_directory_with_blank: the inputs are built in '$IN/d s')"}


def replay(chk, path):
    with open(path) as f:
        doc = json.load(f)
    m = dict(doc["replay"]["member"], id=0)
    if m.get("part") == "C":
        replay_c(chk, doc, m)
    with vlib.scratch("c25r") as base:
        indir = os.path.join(base, "in")
        m.setdefault("blank", False)
        build_inputs(indir, sub_of(m))
        argv, target, deppath, outpath, req, opt = member_argv(m, indir)
        rc, _, err = wildrun.link_subprocess(["--no-fork", *argv], cwd=indir)
        print("wild", " ".join(argv), "->", rc, err.decode()[-300:])
        if rc != 0:
            chk.machinery("link failed")
        with open(deppath) as f:
            deptext = f.read()
        print(deptext)
        _, db, _ = run_make([deppath], indir)
        finds = judge(m, indir, target, deptext, parse_make_db(db))
        print("expected prerequisites:", sorted(req), "optional:", sorted(opt))
        for k, w in finds:
            print("FINDING", k, w)
        want = doc["key"]
        if want.startswith("path-with-blank:"):
            classes = want.split(":", 1)[1].split("+")
            bad = all(any(k.startswith(c + ":") for k, _ in finds) for c in classes)
        else:
            bad = any(k == want for k, _ in finds)
        print("REPRODUCED" if bad else "not reproduced")
        sys.exit(1 if bad else 0)


def main():
    chk = vlib.Check("C25", "exploration")
    if not chk.args.no_build:
        vlib.build("wild")
    if chk.args.replay:
        replay(chk, chk.args.replay)
    members = all_members(chk.thorough)
    if chk.seed:
        import random
        random.Random(chk.seed).shuffle(members)
    by_id = {m["id"]: m for m in members}
    with vlib.scratch("c25") as base:
        indir = os.path.join(base, "in")
        build_inputs(indir)
        indir_b = os.path.join(base, "inb")
        build_inputs(indir_b, BLANK_SUB)
        blank_opinion = other_linkers_on_blank(indir_b)
        part_a = [m for m in members if m["part"] == "A"]
        part_b = [m for m in members if m["part"] == "B"]
        part_c = [m for m in members if m["part"] == "C"]
        so_paths = build_so_variants(os.path.join(base, "so"))
        # Wall cap for the whole check, enforced here; members not linked by then are reported.
        deadline = chk.t0 + (840 if chk.thorough else 32)
        full = (1 << len(CARRIERS)) - 1
        # Single-carrier and full members first (they matter most if the cap hits).
        part_a.sort(key=lambda m: (not (bin(m["mask"]).count("1") == 1 or m["mask"] == full),
                                   m["id"]))
        # Part C goes first: it is small and must never be the part the wall cap removes.
        # It has a wall cap of its own, later than the one of parts A and B.
        deadline_c = chk.t0 + (870 if chk.thorough else 50)
        jobs = [("C", (base, so_paths, part_c[i:i + BATCH], deadline_c))
                for i in range(0, len(part_c), BATCH)]
        jobs += [("AB", (indir_b, part_b[i:i + BATCH], deadline))
                 for i in range(0, len(part_b), BATCH)]
        jobs += [("AB", (indir, part_a[i:i + BATCH], deadline))
                 for i in range(0, len(part_a), BATCH)]
        results = []
        for rs in wildrun.pmap(run_job, jobs, chunksize=1):
            results.extend(rs)
        t_parts = time.time() - chk.t0
        t_part_c = max([r[3] for r in results if r[1] == "finished-at"], default=chk.t0) - chk.t0
        results = [r for r in results if r[1] != "finished-at"]
        # Oracle validation for part C: GNU ld's own dependency files under the same judge. (GNU
        # ld cannot link the all-sites member with -T, so that site gets a member of its own.)
        tbit = 1 << CARRIERS.index("script-T")
        ld_c = [dict(m, id=f"ld{m['id']}", mask=m["mask"] & ~tbit if m["site"] == "all"
                     else m["mask"])
                for m in part_c if m["site"] in (("all", "script-T") if chk.thorough else ("all",))
                and not m["dupmode"] and not m["shared"] and not m["flavor"]]
        # ... and what GNU ld does when the command line names one archive by two names.
        ld_c += [dict(m, id=f"ld{m['id']}") for m in part_c
                 if m["site"] == "ar" and m["dupmode"] == 2 and not m["shared"] and
                 (m["spelling"], m["abs"]) in (("plain", True), ("realdir-dotdot", False))]
        ld_on_spellings = [(m["site"] + (":two-names" if m["dupmode"] else ""), *r)
                           for m, r in zip(ld_c, vlib.pmap(
                               gnu_ld_on_spellings, [(base, so_paths, m) for m in ld_c],
                               chunksize=1))]
        ld_two_names = [x[1:] for x in ld_on_spellings if x[0].endswith(":two-names")]
        ld_on_spellings = [x for x in ld_on_spellings if not x[0].endswith(":two-names")]
        # GNU ld's opinion: thorough asks about every carrier, quick only about the carriers of
        # kinds that were found missing and that the property text does not name.
        missing_kinds = {k.split(":", 1)[1] for mid, st, finds, _ in results
                         if st == "ok" and by_id[mid]["part"] == "A"
                         for k, _ in finds if k.startswith("missing:")}
        kind_carrier = {"thin-archive-index": "thin", "archive-unused": "ar",
                        "lib-search-archive-unused": "lib", "shared-object": "so",
                        "shared-object-unused": "so", "thin-archive-member": "thin"}
        ask = set(CARRIERS) if chk.thorough else \
            {kind_carrier[k] for k in missing_kinds if k not in EXPLICIT and k in kind_carrier}
        ld_lists, ld_detail = gnu_ld_opinion(indir, ask) if ask else ({}, [])
        # Server and subprocess must write the same dependency file.
        same = 0
        probe = [m for m in members if not m["dup"] and m["used"] and m["flavor"] == 0 and
                 m["part"] == "A" and not m["abs"] and
                 (bin(m["mask"]).count("1") == 1 or m["mask"] == (1 << len(CARRIERS)) - 1)]
        for m in probe[:: 1 if chk.thorough else 4]:
            argv, _, deppath, outpath, _, _ = member_argv(m, indir, tag="p")
            rc1, msg = wildrun.server_link(argv, cwd=indir)
            d1 = open(deppath).read() if rc1 == 0 else None
            if d1 is not None:
                os.unlink(deppath)
            rc2, _, err = wildrun.link_subprocess(argv, cwd=indir)
            d2 = open(deppath).read() if rc2 == 0 else None
            if (rc1 == 0) != (rc2 == 0) or d1 != d2:
                chk.machinery(f"server and subprocess disagree on {describe(m)}: {rc1} {rc2} "
                              f"{msg[:100]} {err[-100:]}")
            same += 1
        # The same for part C members (one per site, the spelling the seeded class needs).
        same_c = 0
        probe_c = [m for m in part_c if m["spelling"] == "symlinkdir-dotdot" and m["decoy"] and
                   not m["abs"] and not m["dupmode"] and not m["shared"] and not m["flavor"]]
        for m in probe_c[:: 1 if chk.thorough else 4]:
            t = tree_for(base, True, so_paths)
            argv, _, deppath, outpath, _, _ = member_argv_c(dict(m, id=f"p{m['id']}"), t.proj)
            rc1, msg = wildrun.server_link(argv, cwd=t.proj)
            d1 = open(deppath).read() if rc1 == 0 else None
            if d1 is not None:
                os.unlink(deppath)
            rc2, _, err = wildrun.link_subprocess(argv, cwd=t.proj)
            d2 = open(deppath).read() if rc2 == 0 else None
            if (rc1 == 0) != (rc2 == 0) or d1 != d2:
                chk.machinery(f"server and subprocess disagree on {describe(m)}: {rc1} {rc2} "
                              f"{msg[:100]} {err[-100:]}")
            same_c += 1
    twin_finds = {twin_key(by_id[mid]): {k for k, _ in finds}
                  for mid, status, finds, _ in results if status == "ok" and
                  by_id[mid]["part"] == "A"}
    skipped = sum(1 for r in results if r[1] == "skipped-cap")
    skipped_c = sum(1 for r in results if r[1] == "skipped-cap" and by_id[r[0]]["part"] == "C")
    results = [r for r in results if r[1] != "skipped-cap"]
    link_failed = {}
    judged = 0
    excused = {}
    shapes = set()
    samples = []
    viol_keys = {}
    c_stats = {"members": 0, "judged": 0, "link_failed": {}, "by_spelling": {},
               "expected_failures_same_file_linked_twice_under_two_names": 0}
    disagreements = []
    for mid, status, finds, deptext in results:
        m = by_id[mid]
        if m["part"] == "C":
            c_stats["members"] += 1
            sid = spid_of(m["spelling"], m["abs"], m["decoy"])
            if status == "observation-unavailable":
                chk.machinery("access times are not updated on the scratch file system; the "
                              "observation of the files a link read is not available")
            if status.startswith("observation-disagrees"):
                disagreements.append((describe(m), status))
                continue
            if status != "ok":
                reason = status.split(":", 1)[1].strip()[:80]
                if m["dupmode"] == 2 and "uplicate" in status:
                    c_stats["expected_failures_same_file_linked_twice_under_two_names"] += 1
                else:
                    c_stats["link_failed"][reason] = c_stats["link_failed"].get(reason, 0) + 1
                continue
            c_stats["judged"] += 1
            c_stats["by_spelling"][sid] = c_stats["by_spelling"].get(sid, 0) + 1
            if c_stats["judged"] <= 3:
                samples.append({"member": describe(m),
                                "argv": member_argv_c(m, "$TREE/proj")[0],
                                "findings": [k for k, _ in finds]})
            for finding, what in finds:
                key = key_c(m, finding)
                if key.startswith("named-twice-under-two-names:"):
                    # Counted, not judged: the command line names one file by two different
                    # names, the link opens it under both and the dependency file lists both
                    # names (GNU ld 2.40 writes the identical list). "Once each" in the statement
                    # is about the entries of the list; every file read is there and a build
                    # system reruns the link when it changes. Demanding one name would demand
                    # more than the statement.
                    c_stats.setdefault("named_twice_under_two_names_listed_under_both", {})
                    d = c_stats["named_twice_under_two_names_listed_under_both"]
                    d[key.split(":")[1]] = d.get(key.split(":")[1], 0) + 1
                    continue
                viol_keys[key] = viol_keys.get(key, 0) + 1
                chk.violation(key, f"{what}; member {describe(m)}; dependency file: "
                              f"{deptext.splitlines()[0][:300] if deptext else ''}", replay_doc(m))
            continue
        if status != "ok":
            reason = status.split(":", 1)[1].strip()[:80]
            link_failed[reason] = link_failed.get(reason, 0) + 1
            continue
        judged += 1
        shapes.add((m["mask"], m["used"], m["flavor"]))
        if len(samples) < 3:
            samples.append({"member": describe(m), "argv": member_argv(m, "$IN")[0],
                            "findings": [k for k, _ in finds]})
        if m["blank"]:
            # Only what the blank adds: findings the blank-free twin member does not have, under
            # one key per class (missing / extra / ...).
            twin = twin_finds.get(twin_key(m))
            if twin is None:
                continue
            new = [(k, w) for k, w in finds if k not in twin]
            classes = sorted({k.split(":", 1)[0] for k, _ in new})
            if classes:
                key = "path-with-blank:" + "+".join(classes)
                what = "; ".join(w for k, w in new)[:300]
                viol_keys[key] = viol_keys.get(key, 0) + 1
                chk.violation(key, f"{what}; member {describe(m)}; dependency file: "
                              f"{deptext.splitlines()[0][:300] if deptext else ''}",
                              replay_doc(m))
            continue
        for key, what in finds:
            kind = key.split(":", 1)[1]
            if key.startswith("missing:") and kind not in EXPLICIT and not ld_lists.get(kind):
                excused[kind] = excused.get(kind, 0) + 1
                continue
            viol_keys[key] = viol_keys.get(key, 0) + 1
            chk.violation(key, f"{what}; member {describe(m)}; dependency file: "
                          f"{deptext.splitlines()[0][:300] if deptext else ''}", replay_doc(m))
    if disagreements:
        chk.machinery(f"{len(disagreements)} part C members: the observed set of files read "
                      f"contradicts what the family knows, e.g. {disagreements[:2]}")
    n_ab = len(results) - c_stats["members"]
    if judged < n_ab * 0.9 or judged + c_stats["judged"] < 2:
        chk.machinery(f"only {judged} of {n_ab} members linked: {link_failed}")
    c_unexpected = sum(c_stats["link_failed"].values())
    if c_stats["members"] and (c_unexpected > 0.1 * c_stats["members"] or c_stats["judged"] < 2):
        chk.machinery(f"part C: only {c_stats['judged']} of {c_stats['members']} members linked: "
                      f"{c_stats['link_failed']}")
    # GNU ld has habits of its own (an INPUT script listed twice, thin members not listed); what
    # matters here is that no spelling makes the judge find more than the plain spelling does.
    ld_plain = {site: set(finds) for site, sid, status, finds in ld_on_spellings
                if sid == "plain" and status == "ok"}
    ld_bad = [x for x in ld_on_spellings
              if x[2] != "ok" or x[0] not in ld_plain or set(x[3]) - ld_plain[x[0]]]
    judged += c_stats["judged"]
    chk.coverage = {
        "evaluations": len(results), "distinct_nontrivial": judged,
        "rule": "part A/B: one member per (non-empty subset of 9 carriers, once/twice, "
                "relative/absolute, exe/shared, referenced/unreferenced, flavour); part C: one "
                "member per (spelled site or all sites, spelling, relative/absolute, decoy at the "
                "lexically folded name or not, once/twice/twice under two names, exe/shared, "
                "flavour); all distinct by construction; non-trivial = wild linked it and wrote "
                "a dependency file that GNU make parsed",
        "members": len(members), "judged": judged, "link_failed": link_failed,
        "distinct_input_shapes": len(shapes),
        "carriers": CARRIERS, "exhaustive": skipped == 0,
        "capped": skipped > 0, "members_not_linked_because_of_wall_cap": skipped,
        "thinned": None if chk.thorough else "referenced/unreferenced and flavour variants only "
                   "on the 9 single-carrier members and the full member; part C: the twice "
                   "variants only for exe + first flavour, the second flavour only for exe; GNU "
                   "ld's dependency files are judged for the all-sites member of each spelling "
                   "variant only (thorough: also for -T alone, which GNU ld cannot combine)",
        "part_c_spelling": {
            "sites": SITES + ["all", "all-inner"], "spellings": SPELL_FMT,
            "variants": [spid_of(*v) for v in spell_variants()],
            "members": c_stats["members"] + skipped_c, "judged": c_stats["judged"],
            "members_not_linked_because_of_wall_cap": skipped_c,
            "judged_by_spelling": c_stats["by_spelling"],
            "link_failed": c_stats["link_failed"],
            "one_file_named_by_two_names_listed_under_both_names_counted_not_judged":
                c_stats.get("named_twice_under_two_names_listed_under_both", {}),
            "expected_failures_same_file_linked_twice_under_two_names":
                c_stats["expected_failures_same_file_linked_twice_under_two_names"],
            "files_read_observed_by": "access time of every regular file of a private tree",
            "gnu_ld_depfiles_under_the_same_judge": {
                "members": len(ld_on_spellings),
                "no_finding_beyond_those_of_the_plain_spelling":
                    len(ld_on_spellings) - len(ld_bad),
                "findings_with_the_plain_spelling": {k: sorted(v) for k, v in ld_plain.items()},
                "others": ld_bad[:8],
                "archive_named_twice_under_two_names": ld_two_names},
            "wall_s_until_part_c_linked_and_judged": round(t_part_c, 1),
            "server_vs_subprocess_identical_depfiles": same_c,
        },
        "wall_s_until_all_members_linked": round(t_parts, 1),
        "gnu_ld_lists_kind": ld_lists, "gnu_ld_detail": ld_detail[:40],
        "missing_excused_because_gnu_ld_omits_kind_too": excused,
        "violations_by_key": viol_keys,
        "server_vs_subprocess_identical_depfiles": same,
        "part_b_members_with_blank_in_input_directory": len([m for m in members if m["blank"]]),
        "other_linkers_on_blank": blank_opinion,
        "samples": samples,
    }
    chk.assumptions = [
        "GNU make 4.3 `make -rR -pq` is the reader of the dependency file (names without blanks)",
        "part A/B: prerequisites are compared after realpath() against the link's working "
        "directory; part C: by (st_dev, st_ino) of stat() from the link's working directory",
        "part C: a file was read iff its access time changed during the link (tmpfs, relatime; "
        "self-tested per tree: read() and mmap() update it, open() and stat() do not)",
        "no linker plugin is involved, so no temporary inputs exist in this family",
        "for kinds the property text does not name (shared objects, unreferenced archives, the "
        "thin-archive index file) a missing entry is a violation only if GNU ld 2.40 lists that "
        "kind in its own --dependency-file",
    ]
    chk.finish()


if __name__ == "__main__":
    main()
