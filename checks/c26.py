#!/usr/bin/env python3
"""C26 - Diagnostics are deterministic.

For failing programs with two or three independent errors, and for programs that emit several
warnings: every schedule (deviation bounded) of the region in which the errors arise, and every
configuration (thread count x files-per-group), must produce the same error message and the same
set of warnings."""
import os
import re
import sys

sys.path.insert(0, os.path.join(os.path.dirname(os.path.abspath(__file__)), "..", "lib"))
import vlib
import wsched
import wildrun
from progs import func_obj, multi_func_obj, graph_program
from c40 import str_obj, MAIN2


def harnesses():
    h = {}
    # Two undefined symbols in different objects (different groups): reported by the gc traversal.
    h["undef2"] = dict(region="gc", objs=[
        ("main.o", func_obj("_start", ["fa", "fb"])),
        ("a.o", func_obj("fa", ["undef_a"])),
        ("b.o", func_obj("fb", ["undef_b"]))])
    # Three, one of them two hops away.
    h["undef3"] = dict(region="gc", objs=[
        ("main.o", func_obj("_start", ["fa", "fb"])),
        ("a.o", func_obj("fa", ["undef_a", "fc"])),
        ("b.o", func_obj("fb", ["undef_b"])),
        ("c.o", func_obj("fc", ["undef_c"]))])
    # Two undefined symbols in the same object: no cross-group race, must be stable too.
    h["undef_same"] = dict(region="gc", objs=[
        ("main.o", func_obj("_start", ["fa"])),
        ("a.o", multi_func_obj([("fa", ["undef_a", "fa2"]), ("fa2", ["undef_b"])]))])
    # Two warnings and no error.
    h["warn2"] = dict(region="gc", extra=["--warn-unresolved-symbols"], objs=[
        ("main.o", func_obj("_start", ["fa", "fb"])),
        ("a.o", func_obj("fa", ["undef_a"])),
        ("b.o", func_obj("fb", ["undef_b"]))], warn_only=True)
    # Two unterminated merge-string sections in different input groups.
    h["merge2"] = dict(region="merge", extra=["--wild-experiments=2,256"], objs=[
        ("m.o", MAIN2),
        ("s1.o", str_obj("s", 40, "p", unterminated=True)),
        ("s2.o", str_obj("t", 40, "q", unterminated=True))])
    return h


def normalise(msg):
    """The diagnostic as a user would compare it: text only, scratch paths removed. Returns
    (error text, sorted tuple of warnings): the property speaks of the *set* of warnings."""
    msg = re.sub(r"/dev/shm/verif\.[^/\s]+/", "", msg)
    parts = ("\n" + msg).split("\nWARNING: ")
    err = parts[0].strip()
    warn = sorted(w.strip() for w in parts[1:])
    return err, tuple(warn)


def make_cfg(name, spec, base, threads=None, fpg="1"):
    # Under the scheduler every live task blocks a pool thread: 16 bucket tasks + inputs + root.
    threads = threads or (28 if spec["region"] == "merge" else 16)
    d = os.path.join(base, "in_" + name)
    objs = graph_program(spec["objs"], d)
    env = {"WILD_FILES_PER_GROUP": fpg} if fpg else {}
    return dict(wild=vlib.WILD, cwd=d,
                argv=["--no-fork", f"--threads={threads}", *spec.get("extra", []), *objs, "-o",
                      "{out}"],
                env=env, regions=spec["region"], timeout=120)


def make_oracle(baseline):
    base_rc, base_err, base_warn = baseline

    def oracle(x):
        if x.rc in (wsched.EXIT_DEADLOCK, wsched.EXIT_HORIZON):
            return [("nontermination", f"exit={x.rc}")]
        if isinstance(x.rc, int) and (x.rc < 0 or x.rc == 101):
            return [("crash", f"exit={x.rc} {x.stderr[-300:]}")]
        err, warn = normalise(x.stderr)
        v = []
        if x.rc != base_rc:
            v.append(("exit-status-differs", f"exit={x.rc} expected {base_rc}"))
        if err != base_err:
            v.append(("error-message-differs", f"got {err!r} expected {base_err!r}"))
        if warn != base_warn:
            v.append(("warning-set-differs", f"got {warn!r} expected {base_warn!r}"))
        return v

    return oracle


def config_run(item):
    name, spec, base, threads, fpg = item
    cfg = make_cfg(name, spec, base, threads, fpg)
    out = os.path.join(base, f"cfgout.{os.getpid()}")
    rc, msg = wildrun.server_link([a.replace("{out}", out) for a in cfg["argv"]], cwd=cfg["cwd"],
                                  env=cfg["env"])
    return name, threads, fpg, rc, normalise(msg)


OVERFLOW_OBJS = [
    ("m.o", ".globl _start\n.text\n_start: call f1\n call f2\n ret\n"),
    ("o1.o", '.section .text.f1,"ax",@progbits\n.globl f1\nf1: movl $big, %eax\n ret\n'),
    ("o2.o", '.section .text.f2,"ax",@progbits\n.globl f2\nf2: movl $big, %ebx\n ret\n'),
]


def iteration_orders(chk, base):
    """Errors raised inside `par_iter().try_for_each` (here: the per-group write loop). Which
    failing iteration is reported depends on which fails before the others start. Enumerate every
    choice of "this iteration goes first" with the iteration-order seam (real subprocesses)."""
    d = os.path.join(base, "in_overflow2")
    objs = graph_program(OVERFLOW_OBJS, d)
    argv = ["--no-fork", "--threads=8", *objs, "--defsym=big=0x100000000", "-o",
            os.path.join(d, "out")]
    env = {"WILD_FILES_PER_GROUP": "1", "WILD_VERIF_TRACE": os.path.join(d, "trace")}
    # Learn the iteration keys from a variant of the same link that succeeds (a failing run
    # short-circuits, so not every iteration starts).
    ok_argv = [a.replace("big=0x100000000", "big=0x1000") for a in argv]
    rc, so, se = wildrun.link_subprocess(ok_argv, cwd=d, env=env)
    if rc != 0:
        chk.machinery(f"overflow2 discovery link failed: {se[-300:]}")
    rc, so, se = wildrun.link_subprocess(argv, cwd=d, env={"WILD_FILES_PER_GROUP": "1"})
    if rc == 0:
        chk.machinery("overflow2 harness linked successfully; expected two relocation overflows")
    keys = []
    for line in open(os.path.join(d, "trace")):
        parts = line.split()
        if parts[:2] == ["E", "iter"]:
            keys.append(parts[3])
    if len(keys) < 3:
        chk.machinery(f"iteration seam: expected >= 3 write-group iterations, saw {keys}")
    outcomes = {}
    for k in keys:
        e = {"WILD_FILES_PER_GROUP": "1", "WILD_VERIF_ITER": f"write-group:{k}"}
        rc, so, se = wildrun.link_subprocess(argv, cwd=d, env=e)
        if rc == 94:
            chk.machinery(f"iteration seam: designated iteration {k} never ran")
        err, warn = normalise(se.decode("utf-8", "replace"))
        outcomes.setdefault((rc, err.split("\n")[0]), []).append(k)
    if len(outcomes) > 1:
        chk.violation("overflow2:iteration-order:write-group",
                      "the reported error depends on which group's write iteration fails first: "
                      + "; ".join(f"{o[1]!r} when one of {ks[:2]} goes first"
                                  for o, ks in outcomes.items()),
                      {"objects": OVERFLOW_OBJS, "argv": argv,
                       "env_per_run": "WILD_FILES_PER_GROUP=1 WILD_VERIF_ITER=write-group:<key>",
                       "outcomes": {str(o): ks for o, ks in outcomes.items()}})
    return len(keys), len(outcomes)


def main():
    chk = vlib.Check("C26", "model_checking")
    if not chk.args.no_build:
        vlib.build("wild")
    H = harnesses()
    bound = 3 if chk.thorough else 2
    cap = 400 if chk.thorough else 50
    per, samples = {}, []
    tot = dict(executions=0, states=0, transitions=0)
    with vlib.scratch("c26") as base:
        for name, spec in H.items():
            cfg = make_cfg(name, spec, base)
            b0 = wsched.run_execution(cfg, [], os.path.join(base, "b0"))
            if b0.rc == wsched.EXIT_MACHINERY:
                chk.machinery(f"baseline of {name} failed: {b0.stderr[-300:]}")
            if not spec.get("warn_only") and b0.rc == 0:
                chk.machinery(f"harness {name} was expected to fail but linked")
            berr, bwarn = normalise(b0.stderr)
            oracle = make_oracle((b0.rc, berr, bwarn))
            # The 16-bucket merge region has ~10x the decisions of the gc region.
            hb = bound - 1 if spec["region"] == "merge" else bound
            st = wsched.explore(cfg, hb, "deviation", oracle, time_cap=cap,
                                base=os.path.join(base, "x_" + name))
            if st["machinery"]:
                chk.machinery(f"{name}: {st['machinery']}")
            per[f"{name}/{spec['region']}/deviation/{hb}"] = {
                "capped": st["capped"], "executions": st["executions"], "states": st["n_states"],
                "transitions": st["n_transitions"], "baseline_error": berr[:200],
                "baseline_warnings": len(bwarn), "wall_s": round(st["wall"], 1)}
            tot["executions"] += st["executions"]
            tot["states"] += st["n_states"]
            tot["transitions"] += st["n_transitions"]
            samples.extend({"harness": name, **s} for s in st["samples"][:2])
            seen = set()
            for vkey, what, prefix in st["violations"]:
                if vkey in seen:
                    continue
                seen.add(vkey)
                _, same = wsched.replay_twice(cfg, prefix, os.path.join(base, "rt"))
                if not same:
                    chk.machinery(f"{name}: violating schedule {prefix} not deterministic")
                chk.violation(f"{name}:{vkey}", what,
                              {"harness": name, "schedule": prefix, "argv": cfg["argv"],
                               "env": cfg["env"], "objects": spec["objs"],
                               "regions": spec["region"]})
        # Configurations: thread count x files-per-group, free-running (one run each).
        items = [(n, s, base, t, f) for n, s in H.items() for t in (1, 2, 4, 8, 16)
                 for f in ("", "1")]
        results = vlib.pmap(config_run, items, procs=4)
        by = {}
        for name, threads, fpg, rc, norm in results:
            by.setdefault(name, {}).setdefault((rc, norm), []).append((threads, fpg))
        for name, outcomes in by.items():
            if len(outcomes) > 1:
                desc = {str(k)[:200]: v for k, v in outcomes.items()}
                chk.violation(f"{name}:config-dependent-diagnostic", str(desc)[:1500],
                              {"harness": name, "outcomes": desc, "objects": H[name]["objs"]})
        nconfigs = len(items)
        n_iter, n_iter_outcomes = iteration_orders(chk, base)
    chk.coverage = {
        "states": tot["states"], "transitions": tot["transitions"],
        "traces_validated_against_impl": tot["executions"], "executions": tot["executions"],
        "configurations_run": nconfigs, "per_harness": per, "samples": samples,
        "iteration_orders_run": n_iter, "iteration_order_distinct_outcomes": n_iter_outcomes,
        "exhaustive": all(p["capped"] is None for p in per.values()),
        "explanation": "schedules: every execution is the real wild under the controlled "
                       "scheduler (deviation bound as stated); configurations: threads "
                       "{1,2,4,8,16} x WILD_FILES_PER_GROUP {unset,1}, one free-running run each",
        "not_covered": "errors raised in par_iter-only phases other than the per-group write "
                       "loop (section resolution, size finalisation, input verification) are "
                       "compared across configurations only",
    }
    chk.assumptions = ["sequentially consistent interleavings only"]
    chk.finish()


if __name__ == "__main__":
    main()
