#!/usr/bin/env python3
"""C27 - Partial links are transparent.

"Combining objects into a relocatable object with -r and then linking that object gives a program
that behaves the same as linking the original objects directly."

Family (bounded-exhaustive): the runnable freestanding programs of lib/runcorpus.py (4 translation
units m,a,b,c each + a fixed helper object) x ALL 15 set partitions of {m,a,b,c}; every block of
size >= 2 is first combined with `-r`, then the blocks (in the order of their first member) and the
helper are linked into the final executable x final kind {static non-PIE, static-PIE (only
programs compiled -fPIE/-fPIC)} x pipeline
    wild-r>wild   wild produces the relocatables, wild links them            (both tiers)
    ld-r>wild     GNU ld produces the relocatables, wild links them          (thorough; consumer)
    wild-r>ld     wild produces the relocatables, GNU ld links them          (thorough; producer)
wild runs through the in-process server; GNU ld and the produced programs are subprocesses.

Oracle, independent of wild: the program's transcript (stdout) and exit status are identical to
those of the direct 4-object link by GNU ld, which must itself be the same for all 24 input orders
(verified: that is what makes the comparison across partitions, which permute the input order,
legitimate) - and wild's own direct link must agree with it too.  In addition every relocatable
that wild produces is read with elfread: ET_REL without program headers, no section address
assigned, one symbol table with locals first and sh_info at the first non-local, every symbol's
section index valid, every relocation section linked to the symbol table and to a valid target
with every symbol index and offset in range, section groups well formed and every COMDAT signature
of the inputs still a group signature; and `readelf -a` must not print a warning or an error.

Keys name the cause, not the vector: `structure:<class>` (ill-formed relocatable),
`final-fails:reloc-lost-its-symbol(<what>):<pipeline>` (final link or run fails and a relocatable of
the partition carries relocations that lost their symbol - nothing else can be learnt from such a
partition), `link-fails:<stage>:<diagnostic class>:<pipeline>`, `run:<program>:<tag of the first
differing transcript line>:<pipeline>`, `direct-link:<program>:<tag>:<kind>`.  The text of a
violation lists the programs / partitions / kinds it covers.
"""
import itertools
import os
import re
import struct
import subprocess
import sys

sys.path.insert(0, os.path.join(os.path.dirname(os.path.abspath(__file__)), "..", "lib"))
import vlib
import wildrun
import elfread
import runcorpus as R

QUICK_PROGRAMS = ["p3_pie_Os_sections", "p4_pie_cxx", "p6_pic_O2", "p8_nopic_Os"]
PIPELINES = ["wild-r>wild", "ld-r>wild", "wild-r>ld"]
KINDS = ["static", "static-pie"]
PARTS = R.partitions4()
BLOCKS = sorted({b for p in PARTS for b in p if len(b) > 1}, key=lambda b: (len(b), b))


def kinds_of(P):
    return [k for k in KINDS if k in R.KINDS_OF_FLAVOUR[P.flavour]]


def run_ld(argv, cwd):
    p = subprocess.run(["ld", "--no-demangle", *argv], cwd=cwd, stdin=subprocess.DEVNULL, capture_output=True)
    return p.returncode, p.stderr.decode("utf-8", "replace")


def wild(argv, cwd):
    rc, msg = wildrun.server_link(argv, cwd=cwd)
    for _ in range(2):
        if rc in (0, 1, 101):
            break
        rc, msg = wildrun.server_link(argv, cwd=cwd)      # server killed from outside: retry
    return rc, msg


# ---------------------------------------------------------------------------------- diagnostics
def symbol_nature(d, name):
    """How the program's own objects define `name`: common / hidden / protected / weak / global /
    unknown (ground truth from the inputs, used to classify 'undefined symbol' diagnostics)."""
    best = "unknown"
    for t in "mabch":
        try:
            e = elfread.Elf(os.path.join(d, t + ".o"))
        except (OSError, elfread.ElfError):
            continue
        for s in e.symbols(".symtab"):
            if s.name != name or s.shndx == elfread.SHN_UNDEF or s.bind == elfread.STB_LOCAL:
                continue
            if s.shndx == elfread.SHN_COMMON:
                return "common"
            if s.visibility == elfread.STV_HIDDEN:
                return "hidden"
            if s.visibility == elfread.STV_PROTECTED:
                best = "protected"
            elif s.bind == elfread.STB_WEAK and best == "unknown":
                best = "weak"
            elif best in ("unknown", "weak"):
                best = "global"
    return best


def in_comdat_group(d, name):
    """Is `name` defined in a section that is a member of a COMDAT group in one of the inputs?"""
    for t in "mabch":
        try:
            e = elfread.Elf(os.path.join(d, t + ".o"))
        except (OSError, elfread.ElfError):
            continue
        for s in e.symbols(".symtab"):
            if s.name == name and 0 < s.shndx < len(e.sections) and \
                    e.sections[s.shndx].sh_flags & elfread.SHF_GROUP:
                return True
    return False


def msg_class(msg, d):
    """A short, stable class of a linker diagnostic (wild or GNU ld)."""
    m = re.search(r"Undefined symbol (\S+?),? ", msg) or re.search(r"undefined reference to `([^']+)'", msg)
    if m:
        return f"undefined-{symbol_nature(d, m.group(1))}-symbol"
    m = re.search(r"Duplicate symbols detected: (\S+?),", msg) or re.search(r"multiple definition of `([^']+)'", msg)
    if m:
        return "duplicate-symbol-" + ("in-comdat-group" if in_comdat_group(d, m.group(1))
                                      else symbol_nature(d, m.group(1)))
    if "panicked" in msg:
        m = re.search(r"panicked at ([^\n]*)", msg)
        return "panic:" + (m.group(1)[:60] if m else "")
    lines = [l.strip() for l in msg.replace("WARNING:", "\nWARNING:").splitlines()
             if l.strip() and not l.startswith("WARNING:")]
    last = lines[-1] if lines else "no-message"
    last = re.sub(r"[`'][^`']*[`']", "_", last)
    last = re.sub(r"0x[0-9a-f]+|\b\d+\b", "N", last)
    last = re.sub(r"\S+\.o\b", "OBJ", last)
    return re.sub(r"[^A-Za-z0-9_.+-]+", "-", last)[:70].strip("-")


# --------------------------------------------------------------------------- structural checks
def check_relocatable(path, input_paths):
    """[(class, detail)] of ill-formedness of a relocatable object (independent reader)."""
    v = []
    try:
        e = elfread.Elf(path)
    except (elfread.ElfError, OSError) as ex:
        return [("unreadable", str(ex))]
    if e.e_type != elfread.ET_REL:
        v.append(("not-ET_REL", f"e_type={e.e_type}"))
    if e.e_phnum:
        v.append(("has-program-headers", f"e_phnum={e.e_phnum}"))
    secs = e.sections
    for s in secs:
        if s.sh_addr:
            v.append(("address-assigned", f"section {s.index} {s.name} sh_addr={s.sh_addr:#x}"))
            break
    symtabs = [s for s in secs if s.sh_type == elfread.SHT_SYMTAB]
    if len(symtabs) != 1:
        v.append(("symtab-count", f"{len(symtabs)} SHT_SYMTAB sections"))
        return v
    st = symtabs[0]
    try:
        syms = e.symbols(st)
    except elfread.ElfError as ex:
        return v + [("symtab-unreadable", str(ex))]
    nsyms = len(syms)
    first_global = next((s.index for s in syms if s.bind != elfread.STB_LOCAL), nsyms)
    late_local = next((s for s in syms[first_global:] if s.bind == elfread.STB_LOCAL), None)
    if late_local is not None:
        v.append(("local-after-global", f"symbol {late_local.index} {late_local.name!r} is local, "
                  f"first non-local is {first_global}"))
    if st.sh_info != first_global:
        v.append(("symtab-sh_info", f"sh_info={st.sh_info}, first non-local symbol is {first_global}"))
    if syms and (syms[0].name or syms[0].value or syms[0].shndx or syms[0].bind or syms[0].type):
        v.append(("symbol-0-not-null", repr(syms[0])))
    for s in syms[1:]:
        if s.shndx >= len(secs) and s.shndx not in (elfread.SHN_ABS, elfread.SHN_COMMON):
            v.append(("symbol-shndx", f"symbol {s.index} {s.name!r} st_shndx={s.shndx:#x}"))
            break
        if 0 < s.shndx < len(secs) and s.type != elfread.STT_TLS and s.value > secs[s.shndx].sh_size:
            v.append(("symbol-value-outside-section", f"symbol {s.index} {s.name!r} value {s.value:#x} in "
                      f"{secs[s.shndx].name} of size {secs[s.shndx].sh_size:#x}"))
            break
    for s in secs:
        if s.sh_type not in (elfread.SHT_RELA, elfread.SHT_REL):
            continue
        ent = 24 if s.sh_type == elfread.SHT_RELA else 16
        if s.sh_link != st.index:
            v.append(("reloc-sh_link", f"{s.name} sh_link={s.sh_link}, symtab is {st.index}"))
        if not 0 < s.sh_info < len(secs) or secs[s.sh_info].sh_type in (elfread.SHT_RELA, elfread.SHT_SYMTAB,
                                                                        elfread.SHT_STRTAB, elfread.SHT_NULL):
            v.append(("reloc-sh_info", f"{s.name} sh_info={s.sh_info}"))
            continue
        if s.sh_entsize != ent or s.sh_size % ent:
            v.append(("reloc-entsize", f"{s.name} entsize={s.sh_entsize} size={s.sh_size:#x}"))
            continue
        tgt = secs[s.sh_info]
        data = s.data
        for off in range(0, len(data), ent):
            r_off, r_info = struct.unpack_from("<QQ", data, off)
            if (r_info >> 32) >= nsyms:
                v.append(("reloc-symbol-index", f"{s.name}[{off // ent}] symbol {r_info >> 32} of {nsyms}"))
                break
            if r_off >= tgt.sh_size and (r_info & 0xffffffff) != 0:
                v.append(("reloc-offset", f"{s.name}[{off // ent}] r_offset {r_off:#x} outside {tgt.name} "
                          f"of size {tgt.sh_size:#x}"))
                break
    # section groups
    member_of = {}
    sigs = set()
    for g in secs:
        if g.sh_type != elfread.SHT_GROUP:
            continue
        if g.sh_link != st.index or g.sh_info >= nsyms or g.sh_size < 4 or g.sh_size % 4:
            v.append(("group-header", f"group {g.index} sh_link={g.sh_link} sh_info={g.sh_info} size={g.sh_size}"))
            continue
        sig = syms[g.sh_info]
        sigs.add(sig.name or (secs[sig.shndx].name if sig.shndx < len(secs) else ""))
        words = struct.unpack("<%dI" % (g.sh_size // 4), g.data)
        for idx in words[1:]:
            if not 0 < idx < len(secs):
                v.append(("group-member-index", f"group {g.index} member {idx}"))
            elif not secs[idx].sh_flags & elfread.SHF_GROUP:
                v.append(("group-member-without-SHF_GROUP", f"group {g.index} member {idx} {secs[idx].name}"))
            elif idx in member_of:
                v.append(("section-in-two-groups", f"{secs[idx].name} in groups {member_of[idx]} and {g.index}"))
            else:
                member_of[idx] = g.index
    for s in secs:
        if s.sh_flags & elfread.SHF_GROUP and s.index not in member_of:
            v.append(("SHF_GROUP-section-in-no-group", f"section {s.index} {s.name}"))
            break
    for s in secs:
        if s.sh_type in (elfread.SHT_RELA, elfread.SHT_REL) and 0 < s.sh_info < len(secs):
            if member_of.get(s.sh_info) != member_of.get(s.index):
                v.append(("group-member-relocs-outside-group", f"{s.name}"))
                break
    in_sigs = set()
    for p in input_paths:
        ie = elfread.Elf(p)
        isyms = None
        for g in ie.sections:
            if g.sh_type == elfread.SHT_GROUP:
                isyms = isyms or ie.symbols(ie.sections[g.sh_link])
                sig = isyms[g.sh_info]
                in_sigs.add(sig.name or ie.sections[sig.shndx].name)
    lost = sorted(in_sigs - sigs)
    if lost:
        v.append(("groups-dropped", f"{len(lost)} of {len(in_sigs)} COMDAT signatures of the inputs are "
                  f"no group signature in the output (e.g. {lost[:3]}); output has {len(sigs)} groups"))
    return v


def symbol_losses(path, input_paths):
    """Diagnosis only (not a verdict): non-local defined / common symbols of the inputs that are not
    non-local in the relocatable."""
    try:
        out = {s.name: s for s in elfread.Elf(path).symbols(".symtab") if s.bind != elfread.STB_LOCAL}
    except (elfread.ElfError, OSError):
        return []
    lost = []
    for p in input_paths:
        for s in elfread.Elf(p).symbols(".symtab"):
            if s.bind == elfread.STB_LOCAL or s.shndx == elfread.SHN_UNDEF or not s.name:
                continue
            o = out.get(s.name)
            if o is None or o.shndx == elfread.SHN_UNDEF:
                what = "common" if s.shndx == elfread.SHN_COMMON else \
                    "hidden" if s.visibility == elfread.STV_HIDDEN else "global"
                lost.append(f"{s.name}({what})")
    return sorted(set(lost))


def lost_references(path, input_paths, d):
    """Relocations of the output that name no symbol (index 0, type != NONE) although no input
    relocation does: the names the inputs refer to and the output no longer does, by nature.
    -> (count of such relocations, {nature: [names]})"""
    def refs(p):
        e = elfread.Elf(p)
        names, null = set(), 0
        for r in e.relocations():
            if r.sym_index == 0:
                null += r.type != 0
            elif r.sym_name:
                names.add(r.sym_name)
        return names, null
    try:
        out_names, out_null = refs(path)
    except (elfread.ElfError, OSError):
        return 0, {}
    in_names, in_null = set(), 0
    for p in input_paths:
        n, z = refs(p)
        in_names |= n
        in_null += z
    if out_null <= in_null:
        return 0, {}
    nat = {}
    for name in sorted(in_names - out_names):
        if name.startswith("."):
            continue
        k = symbol_nature(d, name)
        if k == "unknown" and name.startswith("_"):
            k = "linker-defined"          # __start_X/__stop_X, __ehdr_start, __init_array_start, ...
        nat.setdefault(k, []).append(name)
    return out_null - in_null, nat


def readelf_warnings(path):
    p = subprocess.run(["readelf", "-a", "-W", path], stdin=subprocess.DEVNULL, stdout=subprocess.DEVNULL,
                       stderr=subprocess.PIPE)
    lines = [l for l in p.stderr.decode("utf-8", "replace").splitlines() if l.strip()]
    return lines, p.returncode


# ------------------------------------------------------------------------------------- stages
def stage_materialise(job):
    base, name = job
    R.materialise(R.program(name), os.path.join(base, name))
    return name


def stage_ld_direct(job):
    """GNU ld's direct link of one program in one input order, run."""
    base, name, kind, perm = job
    d = os.path.join(base, name)
    out = f"ref_{kind}_{''.join(perm)}"
    rc, err = run_ld(R.link_argv(kind, [t + ".o" for t in perm], out), d)
    if rc != 0:
        return name, kind, perm, None, f"GNU ld cannot link {name} ({kind}, order {perm}): {err[-300:]}"
    got = R.run_native(os.path.join(d, out), d)
    os.unlink(os.path.join(d, out))
    return name, kind, perm, got, None


def stage_wild_direct(job):
    base, name, kind, ref = job
    d = os.path.join(base, name)
    out = f"direct_{kind}"
    rc, msg = wild(R.link_argv(kind, [t + ".o" for t in "mabc"], out), d)
    if rc != 0:
        return name, kind, ("link", rc, msg[-400:])
    got = R.run_native(os.path.join(d, out), d)
    return name, kind, ("run", got, R.first_diff(ref, got))


def stage_reference(base, names, orders, chk=None):
    """Compile; GNU ld direct links (all `orders` for the static kind, the natural order for
    static-pie); wild direct links.  -> ({name: dict(refs, direct, lines)}, spawns) or raises
    RuntimeError for a corpus problem."""
    vlib.pmap(stage_materialise, [(base, n) for n in names], chunksize=1)
    spawns = len(names)
    jobs = []
    for n in names:
        for kind in kinds_of(R.program(n)):
            for perm in (orders if kind == "static" else [tuple("mabc")]):
                jobs.append((base, n, kind, tuple(perm)))
    res = {n: dict(refs={}, direct={}, lines=0) for n in names}
    for name, kind, perm, got, err in vlib.pmap(stage_ld_direct, jobs, chunksize=1):
        spawns += 2
        if err:
            raise RuntimeError(err)
        ref = res[name]["refs"].setdefault(kind, got)
        fd = R.first_diff(ref, got)
        if fd:
            raise RuntimeError(f"program {name} depends on its input order under GNU ld ({kind}, "
                               f"order {''.join(perm)}): {fd}")
    for n in names:
        refs = res[n]["refs"]
        st = refs["static"]
        if st[0] != 42 or "RT-FAIL" in st[1] or "STDERR" in st[1]:
            raise RuntimeError(f"reference run of {n} is not clean: status {st[0]} {st[1][-200:]}")
        if "static-pie" in refs and R.first_diff(st, refs["static-pie"]):
            raise RuntimeError(f"GNU ld's static and static-pie builds of {n} disagree: "
                               f"{R.first_diff(st, refs['static-pie'])}")
        res[n]["lines"] = len(st[1].splitlines())
    jobs = [(base, n, kind, res[n]["refs"][kind]) for n in names for kind in res[n]["refs"]]
    for name, kind, d in wildrun.pmap(stage_wild_direct, jobs, chunksize=1):
        spawns += 1
        res[name]["direct"][kind] = d
    return res, spawns


def stage_relocatable(job):
    """One block of one program combined by one producer."""
    base, name, blk, producer = job
    d = os.path.join(base, name)
    out = f"r_{producer}_{blk}.o"
    argv = ["-r", *[t + ".o" for t in blk], "-o", out]
    res = dict(name=name, blk=blk, producer=producer, out=out, spawns=0, structure=[], losses=[], argv=argv,
               lost_refs={})
    if producer == "ld":
        rc, msg = run_ld(argv, d)
        res["spawns"] += 1
    else:
        rc, msg = wild(argv, d)
    res["rc"], res["msg"] = rc, msg[-500:]
    if rc != 0:
        res["cls"] = msg_class(msg, d)
        return res
    if producer == "ld":
        # Sanity of the checker itself: GNU ld's relocatables must pass it.
        inputs = [os.path.join(d, t + ".o") for t in blk]
        res["structure"] = check_relocatable(os.path.join(d, out), inputs)
        n_null, nat = lost_references(os.path.join(d, out), inputs, d)
        if n_null:
            res["structure"].append(("reloc-lost-its-symbol", str(nat)))
    if producer == "wild":
        inputs = [os.path.join(d, t + ".o") for t in blk]
        try:
            res["structure"] = check_relocatable(os.path.join(d, out), inputs)
            res["losses"] = symbol_losses(os.path.join(d, out), inputs)
            n_null, nat = lost_references(os.path.join(d, out), inputs, d)
            res["lost_refs"] = nat
            if n_null:
                for k, names_ in sorted(nat.items()) or [("unknown", [])]:
                    res["structure"].append((f"reloc-lost-its-symbol:{k}", f"{n_null} relocations with symbol "
                                             f"index 0; the inputs refer to {names_[:4]}, the output does not"))
        except Exception as ex:                                  # noqa: BLE001
            res["structure"] = [("checker-exception", repr(ex))]
        lines, rrc = readelf_warnings(os.path.join(d, out))
        res["spawns"] += 1
        for l in lines:
            if re.search(r"warning|error", l, re.I):
                c = re.sub(r"0x[0-9a-f]+|\b\d+\b", "N", l.split(":", 2)[-1].strip())
                res["structure"].append(("readelf:" + re.sub(r"[^A-Za-z0-9]+", "-", c)[:60].strip("-"), l))
                break
        if rrc != 0 and not lines:
            res["structure"].append(("readelf-exit", f"status {rrc}"))
    return res


def stage_final(job):
    """One (program, partition, pipeline, kind): final link, run, compare with the reference."""
    base, name, part, pipeline, kind, ref = job
    d = os.path.join(base, name)
    producer, consumer = pipeline.split(">")
    producer = producer[:-2]
    inputs = [blk + ".o" if len(blk) == 1 else f"r_{producer}_{blk}.o" for blk in part]
    out = f"f_{producer}_{consumer}_{'_'.join(part)}_{kind}"
    argv = R.link_argv(kind, inputs, out)
    res = dict(name=name, part=part, pipeline=pipeline, kind=kind, argv=argv, spawns=0)
    missing = [i for i in inputs if not os.path.exists(os.path.join(d, i))]
    if missing:
        res.update(stage="no-relocatable", detail=f"{missing} could not be produced")
        return res
    if consumer == "ld":
        rc, msg = run_ld(argv, d)
        res["spawns"] += 1
    else:
        rc, msg = wild(argv, d)
    if rc != 0:
        res.update(stage="link", rc=rc, cls=msg_class(msg, d), detail=msg[-500:])
        return res
    got = R.run_native(os.path.join(d, out), d)
    res["spawns"] += 1
    res["sha"] = vlib.file_sha(os.path.join(d, out))
    try:
        os.unlink(os.path.join(d, out))
    except OSError:
        pass
    fd = R.first_diff(ref, got)
    if fd:
        res.update(stage="run", tag=fd[0], detail=fd[1])
    else:
        res["stage"] = "ok"
    return res


# --------------------------------------------------------------------------------------- replay
def replay(chk, path):
    import json
    rp = json.load(open(path))["replay"]
    with vlib.scratch("c27r") as base:
        name = rp["program"]
        try:
            ref = stage_reference(base, [name], [tuple("mabc")])[0][name]
        except RuntimeError as ex:
            chk.machinery(str(ex))
        bad = 0
        if rp.get("mode") == "direct":
            print(ref["direct"][rp["kind"]])
            bad = ref["direct"][rp["kind"]][0] == "link" or bool(ref["direct"][rp["kind"]][2])
        elif rp.get("mode") == "structure":
            r = stage_relocatable((base, name, rp["block"], "wild"))
            print(r["rc"], r["msg"], r["structure"], r["losses"])
            bad = bool(r["structure"]) or r["rc"] != 0
        else:
            producer = rp["pipeline"].split(">")[0][:-2]
            for blk in rp["partition"]:
                if len(blk) > 1:
                    r = stage_relocatable((base, name, blk, producer))
                    print("relocatable", blk, "rc", r["rc"], r["msg"][-200:], r["losses"])
            r = stage_final((base, name, tuple(rp["partition"]), rp["pipeline"], rp["kind"],
                             ref["refs"][rp["kind"]]))
            print({k: v for k, v in r.items() if k != "argv"})
            print("argv:", " ".join(r["argv"]))
            bad = r["stage"] != "ok"
    print("REPLAY:", "violation reproduced" if bad else "no violation")
    sys.exit(1 if bad else 0)


# ----------------------------------------------------------------------------------------- main
def main():
    chk = vlib.Check("C27", "exploration")
    if not chk.args.no_build:
        vlib.build("wild")
    if chk.args.replay:
        replay(chk, chk.args.replay)
    all_names = [p.name for p in R.programs()]
    names = all_names if chk.thorough else QUICK_PROGRAMS
    pipelines = PIPELINES if chk.thorough else PIPELINES[:1]
    orders = list(itertools.permutations("mabc"))
    if chk.seed:
        import random
        rnd = random.Random(chk.seed)
        rnd.shuffle(names)
    spawns = 0
    n_eval = n_ok = 0
    outcomes = set()
    samples = []
    skipped_kind = 0
    with vlib.scratch("c27") as base:
        # ---- stage A: references
        try:
            refs, sp = stage_reference(base, names, orders)
        except RuntimeError as ex:
            chk.machinery(str(ex))
        spawns += sp
        for name in names:
            r = refs[name]
            P = R.program(name)
            skipped_kind += (len(KINDS) - len(kinds_of(P))) * len(PARTS) * len(pipelines)
            for kind, dres in r["direct"].items():
                n_eval += 1
                if dres[0] == "link":
                    chk.violation(f"direct-link:{name}:link-fails:{kind}",
                                  f"wild cannot link the 4 objects directly: rc={dres[1]} {dres[2]}",
                                  {"mode": "direct", "program": name, "kind": kind})
                elif dres[2]:
                    chk.violation(f"direct-link:{name}:{dres[2][0]}:{kind}",
                                  f"wild's direct {kind} link of {name} differs from GNU ld's: {dres[2][1]}",
                                  {"mode": "direct", "program": name, "kind": kind})
                else:
                    n_ok += 1
        # ---- stage B: relocatables
        producers = sorted({p.split(">")[0][:-2] for p in pipelines}, reverse=True)
        jobs = [(base, n, blk, pr) for n in names for blk in BLOCKS for pr in producers]
        rel = {}
        struct_seen = {}
        n_rel = n_struct_ok = 0
        for r in wildrun.pmap(stage_relocatable, jobs, chunksize=2):
            spawns += r["spawns"]
            rel[(r["name"], r["blk"], r["producer"])] = r
            if r["rc"] != 0:
                if r["producer"] == "ld":
                    chk.machinery(f"GNU ld -r failed on {r['name']} block {r['blk']}: {r['msg'][-300:]}")
                key = f"link-fails:relocatable:{r['cls']}:wild-r"
                struct_seen.setdefault(key, []).append((r, f"{r['name']}[{r['blk']}]: {r['msg'][-200:]}"))
                continue
            if r["producer"] == "ld" and r["structure"]:
                chk.machinery(f"the structural checker rejects GNU ld's relocatable {r['name']}[{r['blk']}]: "
                              f"{r['structure'][:2]}")
            if r["producer"] == "wild":
                n_rel += 1
                if not r["structure"]:
                    n_struct_ok += 1
                for cls, detail in r["structure"]:
                    struct_seen.setdefault(f"structure:{cls}", []).append((r, f"{r['name']}[{r['blk']}]: {detail}"))
        for key, hits in sorted(struct_seen.items()):
            r0 = hits[0][0]
            progs = sorted({h[0]["name"] for h in hits})
            chk.violation(key, f"{len(hits)} relocatables of {len(progs)} programs ({', '.join(progs)}); first: "
                               f"{hits[0][1]}",
                          {"mode": "structure", "program": r0["name"], "block": r0["blk"], "argv": r0["argv"]})
        # ---- stage C: finals
        jobs = []
        for n in names:
            P = R.program(n)
            for part in PARTS:
                if all(len(b) == 1 for b in part):
                    continue                       # the direct link, done in stage A
                for pl in pipelines:
                    for kind in kinds_of(P):
                        jobs.append((base, n, part, pl, kind, refs[n]["refs"][kind]))
        if chk.seed:
            rnd.shuffle(jobs)
        groups = {}
        final_images = set()
        for r in wildrun.pmap(stage_final, jobs, chunksize=2):
            spawns += r["spawns"]
            n_eval += 1
            if r.get("sha"):
                final_images.add(r["sha"])
            if r["stage"] == "ok":
                n_ok += 1
                outcomes.add((r["name"], "ok"))
                if len(samples) < 6 and r["part"] in (("ma", "bc"), ("m", "abc")):
                    samples.append({"program": r["name"], "partition": R.partition_name(r["part"]),
                                    "pipeline": r["pipeline"], "kind": r["kind"], "result": "identical transcript"})
                continue
            if r["stage"] == "no-relocatable":
                outcomes.add((r["name"], "no-relocatable"))
                continue                                             # reported in stage B
            producer = r["pipeline"].split(">")[0][:-2]
            nat = sorted({k for blk in r["part"] for k in
                          rel.get((r["name"], blk, producer), {}).get("lost_refs", {})})
            specific = r["stage"] == "link" and (r["cls"].startswith(("duplicate-symbol", "panic"))
                                                 or r["cls"] == "undefined-hidden-symbol")
            if nat and not specific:
                # A relocatable of this partition has relocations that lost their symbol (reported as
                # structure:reloc-lost-its-symbol:*): an unspecific failure afterwards is that defect.
                key = f"final-fails:reloc-lost-its-symbol({'+'.join(nat)}):{r['pipeline']}"
            elif r["stage"] == "link":
                key = f"link-fails:final:{r['cls']}:{r['pipeline']}"
            else:
                key = f"run:{r['name']}:{r['tag']}:{r['pipeline']}"
            outcomes.add((r["name"], key))
            groups.setdefault(key, []).append(r)
        for key, hits in sorted(groups.items()):
            hits.sort(key=lambda r: (len(r["part"]) * -1, r["name"], r["part"], r["kind"]))
            r0 = hits[0]
            progs = sorted({h["name"] for h in hits})
            cases = sorted({f"{h['name']}:{R.partition_name(h['part'])}:{h['kind']}" for h in hits})
            producer = r0["pipeline"].split(">")[0][:-2]
            losses = []
            for blk in r0["part"]:
                rr = rel.get((r0["name"], blk, producer))
                if rr and rr["losses"]:
                    losses.append(f"{blk}: {rr['losses'][:6]}")
            what = (f"{len(hits)} cases in {len(progs)} programs ({', '.join(progs)}); first "
                    f"{r0['name']} {R.partition_name(r0['part'])} {r0['kind']}: {r0['detail'][-300:]}"
                    + (f"; non-local symbols of the inputs missing from the relocatable: {losses}" if losses else "")
                    + f"; cases: {cases[:12]}{'...' if len(cases) > 12 else ''}")
            chk.violation(key, what, {"mode": "partition", "program": r0["name"], "partition": list(r0["part"]),
                                      "pipeline": r0["pipeline"], "kind": r0["kind"], "argv": r0["argv"]})
            if len(samples) < 12:
                samples.append({"program": r0["name"], "partition": R.partition_name(r0["part"]),
                                "pipeline": r0["pipeline"], "kind": r0["kind"], "result": key})
        lines = {n: refs[n]["lines"] for n in names}
    chk.coverage = {
        "evaluations": n_eval, "identical": n_ok, "distinct_nontrivial": len(final_images) + n_rel,
        "distinct_final_images_run": len(final_images), "distinct_outcomes": len(outcomes),
        "programs": len(names), "program_names": names, "transcript_lines": lines, "partitions_per_program": len(PARTS),
        "pipelines": pipelines, "kinds": KINDS,
        "skipped_static_pie_of_non_pic_programs": skipped_kind,
        "relocatables_by_wild_checked": n_rel, "relocatables_structurally_clean": n_struct_ok,
        "gnu_ld_input_orders_verified_per_program": len(orders),
        "subprocesses": spawns,
        "rule": "programs x all 15 set partitions of {m,a,b,c} (blocks of size>=2 pre-linked with -r) x "
                "pipelines x {static, static-pie where the code is PIC}; quick tier: 4 of the 10 programs and "
                "only the wild-r>wild pipeline",
        "samples": samples, "exhaustive": True,
        "features": {p.name: p.features for p in R.programs() if p.name in names},
    }
    chk.assumptions = [
        "behaviour = stdout transcript + exit status of a native run on this x86-64 kernel",
        "the reference transcript is GNU ld 2.40's direct link, identical for all 24 input orders",
        "the start-up code of the programs does for static outputs what glibc's static start-up does "
        "(RELR/RELA self-relocation, static TLS variant II, IRELATIVE) - it is part of TU m and goes "
        "through the partial links like everything else",
    ]
    chk.finish()


if __name__ == "__main__":
    main()
