#!/usr/bin/env python3
"""C28 - Optional transformations don't change program behaviour.

"A program behaves the same whether it's linked with or without relaxation, with or without string
merging, with or without packed relative relocations, with any hash style or build-ID mode, and as
a static, static-PIE or dynamic executable where its code allows."

Family (bounded-exhaustive): the 10 runnable freestanding programs of lib/runcorpus.py x the FULL
product
    {--relax, --no-relax} x {string merging, --no-string-merge}
    x {-z pack-relative-relocs, -z nopack-relative-relocs} x --hash-style {gnu, sysv, both}
    x --build-id {none, fast, sha1, uuid}
    x kind {static, static-pie, pie-dyn, nonpie-dyn}                         = 384 vectors/program
Kinds a program's code flavour cannot be linked as (static-pie and pie-dyn for -fno-pic code) are
skipped by that rule and counted.  In the static kinds the helper unit is one more object; in the
dynamic kinds it is libvqh.so (built once by GNU ld, found through LD_LIBRARY_PATH) and libc.so.6 is
an extra, never called DT_NEEDED (ld.so needs a malloc once a process has dependencies).  Every
vector is linked by the real wild (in-process server) and run natively.

Oracle, independent of wild: stdout transcript + exit status identical to GNU ld's build of the same
program, which must be the same for all kinds the flavour supports (and, thorough tier, for GNU
ld's own --relax/--no-relax x pack/nopack variants) - that makes the comparison across kinds and
options legitimate; wild's reference vector (--no-relax, --no-string-merge, nopack, gnu, none,
static) must agree with it as well.

Keys name the cause: `run:<program>:<tag of the first differing transcript line>:<axes>` and
`link-fails:<program>:<diagnostic class>:<axes>` where <axes> lists only the option axes whose
value matters for the failure (axes on which the failing set covers every value are dropped).
"""
import itertools
import json
import os
import re
import subprocess
import sys

sys.path.insert(0, os.path.join(os.path.dirname(os.path.abspath(__file__)), "..", "lib"))
import vlib
import wildrun
import runcorpus as R

AXES = ["relax", "merge", "pack", "hash", "buildid", "kind"]
VALUES = {
    "relax": ["on", "off"], "merge": ["on", "off"], "pack": ["on", "off"],
    "hash": ["gnu", "sysv", "both"], "buildid": ["none", "fast", "sha1", "uuid"],
    "kind": R.KINDS,
}
QUICK_VALUES = dict(VALUES, buildid=["none", "sha1"])
QUICK_PROGRAMS = ["p0_nopic_O2", "p4_pie_cxx", "p9_pic_Os_sections"]
REFERENCE = dict(relax="off", merge="off", pack="off", hash="gnu", buildid="none", kind="static")


def opts_of(v):
    return ["--relax" if v["relax"] == "on" else "--no-relax",
            *([] if v["merge"] == "on" else ["--no-string-merge"]),
            "-z", "pack-relative-relocs" if v["pack"] == "on" else "nopack-relative-relocs",
            f"--hash-style={v['hash']}", f"--build-id={v['buildid']}"]


def vec_name(v):
    return ",".join(f"{a}={v[a]}" for a in AXES)


def run_ld(argv, cwd):
    p = subprocess.run(["ld", *argv], cwd=cwd, stdin=subprocess.DEVNULL, capture_output=True)
    return p.returncode, p.stderr.decode("utf-8", "replace")


def wild(argv, cwd):
    rc, msg = wildrun.server_link(argv, cwd=cwd)
    for _ in range(2):
        if rc in (0, 1, 101):
            break
        rc, msg = wildrun.server_link(argv, cwd=cwd)
    return rc, msg


def msg_class(msg):
    if "panicked" in msg:
        m = re.search(r"panicked at ([^\n]*)", msg)
        return "panic:" + (m.group(1)[:60] if m else "")
    lines = [l.strip() for l in msg.replace("WARNING:", "\nWARNING:").splitlines()
             if l.strip() and not l.startswith("WARNING:")]
    last = lines[-1] if lines else "no-message"
    last = re.sub(r"[`'][^`']*[`']", "_", last)
    last = re.sub(r"0x[0-9a-f]+|\b\d+\b", "N", last)
    last = re.sub(r"\S+\.o\b", "OBJ", last)
    return re.sub(r"[^A-Za-z0-9_.+-]+", "-", last)[:70].strip("-")


def stage_materialise(job):
    base, name = job
    R.materialise(R.program(name), os.path.join(base, name))
    return name


def stage_ld(job):
    """GNU ld's build of one program as one kind with some of ld's own options; run."""
    base, name, kind, opts, tag = job
    d = os.path.join(base, name)
    out = f"ld_{kind}_{tag}"
    rc, err = run_ld(R.link_argv(kind, [t + ".o" for t in "mabc"], out, opts), d)
    if rc != 0:
        return name, kind, tag, None, f"GNU ld cannot link {name} as {kind} {opts}: {err[-300:]}"
    got = R.run_native(os.path.join(d, out), d)
    os.unlink(os.path.join(d, out))
    return name, kind, tag, got, None


def stage_vector(job):
    base, name, idx, v, ref = job
    d = os.path.join(base, name)
    out = f"v_{idx}"
    argv = R.link_argv(v["kind"], [t + ".o" for t in "mabc"], out, opts_of(v))
    rc, msg = wild(argv, d)
    if rc != 0:
        return name, v, "link", msg_class(msg), f"rc={rc} {msg[-400:]}", argv, None
    got = R.run_native(os.path.join(d, out), d)
    sha = vlib.file_sha(os.path.join(d, out))
    try:
        os.unlink(os.path.join(d, out))
    except OSError:
        pass
    fd = R.first_diff(ref, got)
    if fd:
        return name, v, "run", fd[0], fd[1], argv, sha
    return name, v, "ok", None, None, argv, sha


def axes_class(fails, universe):
    """fails, universe: lists of vectors.  -> 'axis=v|v,axis=v' for the axes on which the failing
    set does not cover every value the universe has."""
    parts = []
    for a in AXES:
        fv = {v[a] for v in fails}
        uv = {v[a] for v in universe}
        if fv != uv:
            parts.append(f"{a}={'|'.join(x for x in VALUES[a] if x in fv)}")
    return ",".join(parts) or "all-vectors"


def vectors_of(P, values):
    out = []
    for combo in itertools.product(*[values[a] for a in AXES]):
        v = dict(zip(AXES, combo))
        if v["kind"] in R.KINDS_OF_FLAVOUR[P.flavour]:
            out.append(v)
    return out


def references(base, names, thorough):
    """-> ({name: (status, transcript)}, spawns); raises RuntimeError on a corpus problem."""
    vlib.pmap(stage_materialise, [(base, n) for n in names], chunksize=1)
    spawns = len(names)
    jobs = []
    for n in names:
        for kind in R.KINDS_OF_FLAVOUR[R.program(n).flavour]:
            jobs.append((base, n, kind, [], "default"))
            if thorough:
                for rx, pk in itertools.product(("--relax", "--no-relax"), ("pack-relative-relocs",
                                                                           "nopack-relative-relocs")):
                    jobs.append((base, n, kind, [rx, "-z", pk, "--hash-style=both", "--build-id=sha1"],
                                 f"{rx[2:]}_{pk[:4]}"))
    refs = {}
    for name, kind, tag, got, err in vlib.pmap(stage_ld, jobs, chunksize=1):
        spawns += 2
        if err:
            raise RuntimeError(err)
        ref = refs.setdefault(name, got)
        fd = R.first_diff(ref, got)
        if fd:
            raise RuntimeError(f"GNU ld's builds of {name} disagree ({kind} {tag}): {fd}")
    for n, ref in refs.items():
        if ref[0] != 42 or "RT-FAIL" in ref[1] or "STDERR" in ref[1]:
            raise RuntimeError(f"reference run of {n} is not clean: status {ref[0]} {ref[1][-200:]}")
    return refs, spawns, len(jobs)


def replay(chk, path):
    rp = json.load(open(path))["replay"]
    with vlib.scratch("c28r") as base:
        name = rp["program"]
        try:
            refs, _, _ = references(base, [name], False)
        except RuntimeError as ex:
            chk.machinery(str(ex))
        r = stage_vector((base, name, 0, rp["vector"], refs[name]))
        print("argv:", " ".join(r[5]))
        print("result:", r[2], r[3], r[4])
        bad = r[2] != "ok"
    print("REPLAY:", "violation reproduced" if bad else "no violation")
    sys.exit(1 if bad else 0)


def main():
    chk = vlib.Check("C28", "exploration")
    if not chk.args.no_build:
        vlib.build("wild")
    if chk.args.replay:
        replay(chk, chk.args.replay)
    names = [p.name for p in R.programs()] if chk.thorough else QUICK_PROGRAMS
    values = VALUES if chk.thorough else QUICK_VALUES
    full = 1
    for a in AXES:
        full *= len(values[a])
    n_eval = n_ok = skipped = spawns = 0
    outcomes = set()
    samples = []
    per_prog = {}
    with vlib.scratch("c28") as base:
        try:
            refs, sp, n_ld = references(base, names, chk.thorough)
        except RuntimeError as ex:
            chk.machinery(str(ex))
        spawns += sp
        jobs, universe = [], {}
        for n in names:
            P = R.program(n)
            vs = vectors_of(P, values)
            universe[n] = vs
            skipped += full - len(vs)
            jobs += [(base, n, i, v, refs[n]) for i, v in enumerate(vs)]
        if chk.seed:
            import random
            random.Random(chk.seed).shuffle(jobs)
        groups = {}
        images = {}
        for name, v, stage, tag, detail, argv, sha in wildrun.pmap(stage_vector, jobs, chunksize=4):
            n_eval += 1
            images[(name, tuple(v[a] for a in AXES))] = sha
            spawns += stage != "link"
            pp = per_prog.setdefault(name, {"vectors": 0, "identical": 0})
            pp["vectors"] += 1
            if stage == "ok":
                n_ok += 1
                pp["identical"] += 1
                outcomes.add((name, v["kind"], "ok"))
                continue
            outcomes.add((name, v["kind"], stage, tag))
            groups.setdefault((name, stage, tag), []).append((v, detail, argv))
        for (name, stage, tag), hits in sorted(groups.items()):
            fails = [h[0] for h in hits]
            cls = axes_class(fails, universe[name])
            is_ref = any(all(v[a] == REFERENCE[a] for a in AXES) for v in fails)
            # the simplest failing vector (closest to the reference vector) is the replay case
            hits.sort(key=lambda h: sum(h[0][a] != REFERENCE[a] for a in AXES))
            v0, detail, argv = hits[0]
            key = f"{'link-fails' if stage == 'link' else 'run'}:{name}:{tag}:{cls}"
            what = (f"{len(hits)} of {len(universe[name])} vectors of {name}"
                    f"{' (including the reference vector)' if is_ref else ''}; simplest: {vec_name(v0)}: "
                    f"{detail[-300:]}")
            chk.violation(key, what, {"program": name, "vector": v0, "argv": argv})
            if len(samples) < 10:
                samples.append({"program": name, "vector": vec_name(v0), "result": key})
        for n in names[:3]:
            samples.append({"program": n, "vector": vec_name(universe[n][-1]),
                            "result": "identical transcript" if not any(k[0] == n for k in groups) else "see violations"})
        lines = {n: len(refs[n][1].splitlines()) for n in names}
        # Measured effect of every axis: pairs of vectors that differ in that axis only (consecutive
        # values) and whose output images differ.
        axis_effect = {a: [0, 0] for a in AXES}
        for (n, t), sha in images.items():
            for i, a in enumerate(AXES):
                vals = values[a]
                j = vals.index(t[i])
                if j + 1 < len(vals):
                    other = images.get((n, t[:i] + (vals[j + 1],) + t[i + 1:]))
                    if other is not None and sha is not None:
                        axis_effect[a][0] += 1
                        axis_effect[a][1] += other != sha
        distinct_images = len({s_ for s_ in images.values() if s_})
    chk.coverage = {
        "evaluations": n_eval, "identical": n_ok, "distinct_nontrivial": distinct_images, "distinct_outcomes": len(outcomes),
        "axis_pairs_compared_and_differing_images": {a: {"pairs": p, "images_differ": q}
                                                     for a, (p, q) in axis_effect.items()},
        "programs": len(names), "program_names": names, "transcript_lines": lines, "vectors_per_program_full_product": full,
        "axes": {a: values[a] for a in AXES}, "per_program": per_prog,
        "skipped_kinds_the_code_flavour_cannot_be_linked_as": skipped,
        "gnu_ld_reference_builds": n_ld, "subprocesses": spawns,
        "rule": "programs x full product of the option axes x kinds; -fno-pic programs skip static-pie and "
                "pie-dyn; quick tier: 3 programs and build-id restricted to {none, sha1}",
        "samples": samples, "exhaustive": True,
        "features": {p.name: p.features for p in R.programs() if p.name in names},
    }
    chk.assumptions = [
        "behaviour = stdout transcript + exit status of a native run on this x86-64 kernel / glibc ld.so",
        "the reference transcript is GNU ld 2.40's build, identical across all kinds the flavour supports",
        "the start-up code of the programs does for static outputs what glibc's static start-up does "
        "(RELR/RELA self-relocation, static TLS variant II, IRELATIVE)",
    ]
    chk.finish()


if __name__ == "__main__":
    main()
