#!/usr/bin/env python3
"""C29 - Alignment arithmetic is exact.

Exhaustive enumeration (engine: `unitx alignment`, /verif/engines/src/align.rs) of the real
`Alignment::new / align_up / align_down / align_modulo` (through the facade
`libwild::verif::api`) over stated windows of the 64-bit domain, against a reference written from
the property statement in u128 arithmetic:
  new(raw)      every raw in [0, 2^20] and every 2^k, 2^k+-1 (k <= 63), 2^64-1
  align_up/down all 17 alignments x [0,2^18) u [2^32-2^17, 2^32+2^17) u [2^63-2^17, 2^63+2^17) u
                [2^64-2^18, 2^64)
  align_modulo  all 17 alignments a x offsets {[0,W) u [a-W/2, a+W/2) u [2^32-W/4, 2^32+W/4) u
                [2^64-W, 2^64)} x references {[0,W) u [a-W/8, a+W/8) u 2^16-1, 2^16, 2^63, 2^64-1},
                W = 2^13 (thorough) / 2^10 (quick)
Results that do not exist in u64 (the smallest multiple >= v is 2^64 or more) are outside the
statement; they are counted and skipped. A panic inside the statement's domain is a violation."""
import os
import sys

sys.path.insert(0, os.path.join(os.path.dirname(os.path.abspath(__file__)), "..", "lib"))
import vlib
import unitx


def main():
    chk = vlib.Check("C29", "exploration")
    build_s = unitx.build(chk)
    if chk.args.replay:
        unitx.finish_replay(chk, unitx.replay_case(chk, "alignment", chk.args.replay))
    res = unitx.run(chk, "alignment")
    unitx.record_violations(chk, res)
    cells = res["cells"]
    nontrivial = sorted(k for k in cells if ":VIOLATION:" not in k)
    chk.coverage = {
        "evaluations": res["evaluations"],
        "distinct_nontrivial": len(nontrivial),
        "rule": "every member of the windows listed in 'domain' is evaluated once (no sampling); a "
                "case is characterised by (function, alignment, outcome class) where the outcome "
                "classes are: new -> accepted / rejected-not-power-of-two / rejected-too-large; "
                "align_up, align_down -> unchanged / moved; align_modulo -> already-congruent-and-"
                "aligned / aligned-up-is-congruent / adjusted-past-aligned-up. distinct_nontrivial "
                "counts the distinct such cells that actually occurred (listed in 'cells')",
        "samples": res["samples"],
        "exhaustive": True,
        "domain": {
            "new": f"{res['new_domain']} raw values: [0, 2^20] u {{2^k, 2^k+-1 : k<=63}} u {{2^64-1}}",
            "align_up_down": f"17 alignments x {res['updown_values_per_alignment']} values: [0,2^18) u "
                             "[2^32-2^17,2^32+2^17) u [2^63-2^17,2^63+2^17) u [2^64-2^18,2^64)",
            "align_modulo": f"{res['modulo_pairs']} (alignment, offset, reference) triples; e.g. for 2^12: "
                            f"{res['modulo_offsets_exp12']} offsets x {res['modulo_refs_exp12']} references",
        },
        "outside_statement_skipped": res["outside_statement"],
        "cells": cells,
        "engine_wall_s": res["wall_s"],
        "build_s": round(build_s, 1),
        "oracle_sensitivity": "UNITX_MUTANT=new-ge16|new-any-pow2|up-plus-mask|down-off-by-one|"
                              "modulo-no-align (seeded defects inside the harness) are each reported; "
                              "DESIGN.md's mutant `adjustment >= value` is equivalent (adjustment is "
                              "always > value when that line is reached) and is not reported",
    }
    chk.assumptions = [
        "the facade libwild::verif::api forwards to Alignment::{new,align_up,align_down,align_modulo} "
        "unchanged (4 one-line functions at the end of libwild/src/verif.rs)",
        "values between the windows are not evaluated: the claim is exhaustive for the stated windows, "
        "not for all 2^64 x 2^64 pairs",
        "engine built with overflow-checks off (as wild's release profile); an arithmetic overflow "
        "inside the statement's domain would show up as a wrong result, not as a panic",
    ]
    chk.finish()


if __name__ == "__main__":
    main()
