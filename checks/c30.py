#!/usr/bin/env python3
"""C30 - Constructor and destructor order matches GNU ld.

Bounded-exhaustive family of x86-64 programs, every member linked by the real wild (in-process
server) and by GNU ld 2.40 with the same objects and the same command line.

Program = r.o (entry, no entries of its own; refers to `pull_u2`) followed by a permutation of
three translation units: u0.o, u1.o and lib.a(u2.o) (u2.o is pulled in by r.o's reference).  Each
unit contributes a list of input sections, each holding TWO function pointers
(`.quad fn_u<k>_<section>_a, fn_u<k>_<section>_b`, R_X86_64_64) to distinct one-instruction
functions in the unit's .text.  Section kinds (sh_type INIT_ARRAY / FINI_ARRAY / PREINIT_ARRAY by
name as gas does, PROGBITS for .ctors/.dtors, flags "aw", written with elfgen - no assembler):
  base  P=.preinit_array (executables only) I=.init_array I100=.init_array.100
        I65534=.init_array.65534 C=.ctors C200=.ctors.200 F=the unit also carries the fini-side
        mirror of each of its I*/C* kinds (.fini_array[.N] / .dtors[.N])
  ext   priority edge kinds .init_array.9 .init_array.00100 .ctors.65435 .init_array.0
        .ctors.65535 .init_array.65535 .ctors.0 (each with its .fini_array/.dtors mirror): numeric
        vs string comparison, leading zeros, ties between .init_array.N and .ctors.(65535-N).
Observable (static): the sequence of function names in the output's .preinit_array / .init_array /
.fini_array / .ctors / .dtors, each 8-byte word resolved to a symbol through the output's .symtab
(PIE / shared: through the word's dynamic relocation: R_X86_64_RELATIVE addend or the dynamic
symbol of an R_X86_64_64), and - for dynamic outputs - the same read through
DT_{PREINIT,INIT,FINI}_ARRAY[SZ].
Oracle: identical to GNU ld's output for the same member, section by section (if GNU ld keeps a
separate .ctors in some configuration, so must wild: like is compared with like).
Second oracle (static executables of the order sub-family): native run. r.o's _start walks
__preinit_array_start.., __init_array_start.. forwards and __fini_array_end.. backwards like glibc
does; every function records its id; the byte string printed by wild's output must equal the one
printed by GNU ld's output (and GNU ld's must equal what its static arrays predict, else the
harness is at fault)."""
import itertools
import json
import os
import subprocess
import sys
import time

sys.path.insert(0, os.path.join(os.path.dirname(os.path.abspath(__file__)), "..", "lib"))
import vlib
import wildrun
import elfread
import elfgen
import bindkit

P, I, I100, I65534, C, C200, F = "P", "I", "I100", "I65534", "C", "C200", "F"
BASE = [P, I, I100, I65534, C, C200, F]
SEC = {P: ".preinit_array", I: ".init_array", I100: ".init_array.100",
       I65534: ".init_array.65534", C: ".ctors", C200: ".ctors.200"}
EXT_SECS = [".init_array.9", ".init_array.00100", ".ctors.65435", ".init_array.0",
            ".ctors.65535", ".init_array.65535", ".ctors.0"]
EXT_POOL = [SEC[k] for k in (I, I100, I65534, C, C200)] + EXT_SECS


def mirror(sec):
    if sec.startswith(".init_array"):
        return ".fini_array" + sec[len(".init_array"):]
    if sec.startswith(".ctors"):
        return ".dtors" + sec[len(".ctors"):]
    return None


ALL_SECS = [SEC[P]] + EXT_POOL + [mirror(s) for s in EXT_POOL]
SEC_INDEX = {s: i for i, s in enumerate(ALL_SECS)}
OUT_SECS = [".preinit_array", ".init_array", ".fini_array", ".ctors", ".dtors"]
DT_ARRAYS = [("DT_PREINIT_ARRAY", elfread.DT_PREINIT_ARRAY, elfread.DT_PREINIT_ARRAYSZ),
             ("DT_INIT_ARRAY", elfread.DT_INIT_ARRAY, elfread.DT_INIT_ARRAYSZ),
             ("DT_FINI_ARRAY", elfread.DT_FINI_ARRAY, elfread.DT_FINI_ARRAYSZ)]
OUT_FLAGS = {"exe": [], "pie": ["-pie"], "shared": ["-shared"]}
ORDERS = list(itertools.permutations((0, 1, 2)))
FIXED_THIRD = (I100, C, F)


def sec_type(sec):
    if sec.startswith(".preinit_array"):
        return elfgen.SHT_PREINIT_ARRAY
    if sec.startswith(".init_array"):
        return elfgen.SHT_INIT_ARRAY
    if sec.startswith(".fini_array"):
        return elfgen.SHT_FINI_ARRAY
    return elfgen.SHT_PROGBITS


def fn_name(unit, sec, ab):
    return "fn_u%d_%s_%s" % (unit, sec[1:].replace(".", "_"), ab)


def fn_id(unit, sec, ab):
    return unit * 60 + SEC_INDEX[sec] * 2 + "ab".index(ab)


NAME_INFO = {fn_name(u, s, ab): (u, s, ab) for u in range(3) for s in ALL_SECS for ab in "ab"}
ID_NAME = {fn_id(u, s, ab): fn_name(u, s, ab) for u in range(3) for s in ALL_SECS for ab in "ab"}


def contrib(subset, rev=False):
    """Base-kind subset -> tuple of input section names in object order."""
    init = [SEC[k] for k in BASE[:6] if k in subset]
    fini = [mirror(s) for s in init if mirror(s)] if F in subset else []
    secs = init + fini
    return tuple(reversed(secs)) if rev else tuple(secs)


def contrib_ext(secs):
    secs = list(secs)
    return tuple(secs + [mirror(s) for s in secs])


# ------------------------------------------------------------------------------------ inputs
def unit_object(unit, secs):
    """elfgen object for one unit: .text with two functions per section (mov $id,%edi; jmp
    record), then the pointer sections in the given order. Unit 2 also defines pull_u2."""
    o = elfgen.ElfObject("x86_64")
    code = bytearray()
    funcs = []
    for s in secs:
        for ab in "ab":
            funcs.append((fn_name(unit, s, ab), len(code)))
            code += b"\xbf" + fn_id(unit, s, ab).to_bytes(4, "little") + b"\xe9\0\0\0\0"
    pull_off = len(code)
    code += b"\xc3"
    t = o.section(".text", flags=elfgen.SHF_ALLOC | elfgen.SHF_EXECINSTR, align=16,
                  data=bytes(code))
    rec = o.symbol("record", vis=elfgen.STV_HIDDEN)
    syms = {}
    for name, off in funcs:
        syms[name] = o.symbol(name, section=t, value=off, size=10, type=elfgen.STT_FUNC)
        o.reloc(t, off + 6, 4, rec, -4)                    # R_X86_64_PLT32
    if unit == 2:
        o.symbol("pull_u2", section=t, value=pull_off, size=1, type=elfgen.STT_FUNC)
    for s in secs:
        sec = o.section(s, type=sec_type(s), flags=elfgen.SHF_ALLOC | elfgen.SHF_WRITE, align=8,
                        data=bytes(16))
        for k, ab in enumerate("ab"):
            o.reloc(sec, 8 * k, 1, syms[fn_name(unit, s, ab)], 0)   # R_X86_64_64
    o.note_gnu_stack()
    return o.to_bytes()


def unit_asm(unit, secs):
    """Assembler source equivalent to unit_object (for hand reproduction)."""
    out = ['.text', '.hidden record']
    for s in secs:
        for ab in "ab":
            n = fn_name(unit, s, ab)
            out += [f".globl {n}", f".type {n},@function", f"{n}: mov ${fn_id(unit, s, ab)}, %edi",
                    " jmp record"]
    if unit == 2:
        out += [".globl pull_u2", "pull_u2: ret"]
    for s in secs:
        out += [f'.section {s},"aw"', " .quad " + ", ".join(fn_name(unit, s, ab) for ab in "ab")]
    out.append('.section .note.GNU-stack,"",@progbits')
    return "\n".join(out) + "\n"


def walk(start, end, back=False):
    if back:
        return (f" lea {start}(%rip), %r13\n lea {end}(%rip), %rbx\n"
                "1: cmp %r13, %rbx\n jbe 2f\n sub $8, %rbx\n call *(%rbx)\n jmp 1b\n2:\n")
    return (f" lea {start}(%rip), %rbx\n lea {end}(%rip), %r13\n"
            "1: cmp %r13, %rbx\n jae 2f\n call *(%rbx)\n add $8, %rbx\n jmp 1b\n2:\n")


R_EXE = (".globl _start\n.globl record\n.hidden record\n.text\n_start:\n lea buf(%rip), %r12\n"
         + walk("__preinit_array_start", "__preinit_array_end")
         + walk("__init_array_start", "__init_array_end")
         + " movb $0xff, (%r12)\n inc %r12\n"
         + walk("__fini_array_start", "__fini_array_end", back=True)
         + " lea buf(%rip), %rsi\n mov %r12, %rdx\n sub %rsi, %rdx\n mov $1, %edi\n mov $1, %eax\n"
           " syscall\n xor %edi, %edi\n mov $60, %eax\n syscall\n"
           " mov pull_u2@GOTPCREL(%rip), %rax\n"
           "record: movb %dil, (%r12)\n inc %r12\n ret\n"
           ".bss\nbuf: .skip 1024\n"
           '.section .note.GNU-stack,"",@progbits\n')
R_MIN = (".globl _start\n.globl record\n.hidden record\n.text\n_start:\n"
         " mov pull_u2@GOTPCREL(%rip), %rax\n ret\nrecord: ret\n"
         '.section .note.GNU-stack,"",@progbits\n')

ROOTS = {}


def obj_path(base, unit, secs):
    tag = vlib.sha(repr((unit, secs)))[:16]
    return os.path.join(base, "in", f"u{unit}_{tag}" + (".a" if unit == 2 else ".o"))


def prepare(members, base):
    os.makedirs(os.path.join(base, "in"), exist_ok=True)
    ROOTS["exe"] = vlib.assemble(R_EXE)
    ROOTS["pie"] = ROOTS["shared"] = vlib.assemble(R_MIN)
    need = set()
    for contribs, _order, _out in members:
        for u, secs in enumerate(contribs):
            need.add((u, secs))
    n = 0
    for u, secs in sorted(need):
        p = obj_path(base, u, secs)
        if os.path.exists(p):
            continue
        n += 1
        data = unit_object(u, secs)
        if u == 2:
            bindkit.write_ar(p, [("u2.o", data, ["pull_u2"] + [fn_name(2, s, ab) for s in secs
                                                                for ab in "ab"])])
        else:
            with open(p, "wb") as f:
                f.write(data)
    return n


def member_argv(base, m, out):
    contribs, order, kind = m
    files = [ROOTS[kind]] + [obj_path(base, u, contribs[u]) for u in order]
    return OUT_FLAGS[kind] + files + ["-o", out]


def describe(m):
    contribs, order, kind = m
    return {"units": {f"u{u}": list(s) for u, s in enumerate(contribs)},
            "command_line_order": ["u%d" % u for u in order], "output": kind}


# ------------------------------------------------------------------------------------ observation
def _strip(b):
    if b.startswith("def:") or b.startswith("dyn:"):
        return b[4:]
    return b


def observe(path):
    """-> {output section or DT tag: [function name per word]} (empty arrays omitted)."""
    img = bindkit.Image(path, name_filter=lambda n: n.startswith("fn_"))
    out = {}
    for s in OUT_SECS:
        w = img.section_words(s)
        if w:
            out[s] = [_strip(x) for x in w]
    if img.dynamic:
        dd = img.e.dynamic_dict()
        for tag, at, st in DT_ARRAYS:
            if at in dd or st in dd:
                n = dd.get(st, 0) // 8
                if n:
                    try:
                        out[tag] = [_strip(x) for x in img.words(dd.get(at, 0), n)]
                    except elfread.ElfError as ex:
                        out[tag] = ["unreadable:" + str(ex)[:60]]
    return out


def rel_of(x, y, order):
    ux, sx, _ax = NAME_INFO[x]
    uy, sy, _ay = NAME_INFO[y]
    if ux == uy:
        return "same-section" if sx == sy else "same-unit"
    return "x-unit-earlier" if order.index(ux) < order.index(uy) else "x-unit-later"


def model_priority(sec):
    """Priority as GNU ld's SORT_BY_INIT_PRIORITY sees it; None for the unsuffixed names. Used
    only to NAME the class of a disagreement, never to decide one."""
    parts = sec[1:].split(".")
    if len(parts) == 1:
        return None
    n = int(parts[1])
    return 65535 - n if parts[0] in ("ctors", "dtors") else n


def inversion_class(x, y, order):
    """x precedes y in GNU ld's array and follows it in wild's."""
    _ux, sx, _ax = NAME_INFO[x]
    _uy, sy, _ay = NAME_INFO[y]
    rel = rel_of(x, y, order)
    if rel == "same-section":
        return f"order:within-section:{sx}"
    px, py = model_priority(sx), model_priority(sy)
    if px is None and py is None:
        return f"order:plain:{sx}-before-{sy}:{rel}"
    if py is None:
        return f"order:suffixed-before-plain:{sx}"
    if px is None:
        return f"order:plain-before-suffixed:{sy}"
    if px != py:
        return f"order:priority:{sx}-before-{sy}"
    if sx == sy:
        return f"order:same-name:{sx}:{rel}"
    return f"order:equal-priority:{sx[1:].split('.')[0]}-before-{sy[1:].split('.')[0]}"


def compare(g, w, order):
    """GNU ld's observation vs wild's -> [(key, what)]."""
    v = []
    gpos, wpos = {}, {}
    for obs, pos in ((g, gpos), (w, wpos)):
        for sec in OUT_SECS:
            for i, n in enumerate(obs.get(sec, [])):
                if n in pos:
                    pos[n] = (pos[n][0], pos[n][1], True)
                else:
                    pos[n] = (sec, i, False)
    for n, (sec, _i, dup) in sorted(wpos.items()):
        if n not in NAME_INFO:
            if n not in gpos:
                v.append((f"garbage-entry:{sec}", f"wild's {sec} holds {n}, GNU ld's has no such "
                          f"word"))
            continue
        insec = NAME_INFO[n][1]
        if dup and not gpos.get(n, (0, 0, False))[2]:
            v.append((f"duplicate:{insec}", f"{n} occurs twice in wild's arrays"))
        if n not in gpos:
            v.append((f"extra:{insec}", f"{n} is in wild's {sec} but in none of GNU ld's arrays"))
        elif gpos[n][0] != sec:
            v.append((f"placement:{insec}:gnu={gpos[n][0]}:wild={sec}",
                      f"{n} is in {gpos[n][0]} in GNU ld's output and in {sec} in wild's"))
    for n, (sec, _i, _dup) in sorted(gpos.items()):
        if n in NAME_INFO and n not in wpos:
            v.append((f"missing:{NAME_INFO[n][1]}", f"{n} is in GNU ld's {sec} but in none of "
                      f"wild's arrays"))
    for sec in OUT_SECS:
        gl = [n for n in g.get(sec, []) if n in NAME_INFO and wpos.get(n, ("",))[0] == sec]
        wl = [n for n in w.get(sec, []) if n in NAME_INFO and gpos.get(n, ("",))[0] == sec]
        if gl == wl or sorted(gl) != sorted(wl) or len(set(gl)) != len(gl):
            continue
        wi = {n: i for i, n in enumerate(wl)}
        classes = {}
        for a in range(len(gl)):
            for b in range(a + 1, len(gl)):
                x, y = gl[a], gl[b]
                if wi[x] > wi[y]:
                    classes.setdefault(inversion_class(x, y, order), (x, y))
        for cls, (x, y) in sorted(classes.items()):
            v.append((cls, f"{sec}: GNU ld emits {x} before {y}, wild after; GNU ld: {g.get(sec)} "
                      f"wild: {w.get(sec)}"))
    if not v:
        for tag, _at, _st in DT_ARRAYS:
            if g.get(tag) != w.get(tag):
                v.append((f"dt:{tag}", f"array read through {tag}[SZ]: GNU ld {g.get(tag)} wild "
                          f"{w.get(tag)}"))
    return v


def predicted_run(obs):
    def ids(names):
        inv = {n: i for i, n in ID_NAME.items()}
        return [inv.get(n, 0xfe) for n in names]
    return bytes(ids(obs.get(".preinit_array", [])) + ids(obs.get(".init_array", [])) + [0xff] +
                 list(reversed(ids(obs.get(".fini_array", [])))))


def run_exe(path):
    try:
        p = subprocess.run([path], stdin=subprocess.DEVNULL, stdout=subprocess.PIPE,
                           stderr=subprocess.PIPE, timeout=10)
        return p.returncode, p.stdout
    except subprocess.TimeoutExpired:
        return "timeout", b""
    except OSError as ex:
        return "exec-failed", str(ex).encode()


REF_SCHEMA = "c30-v2"
REF_CACHE = os.path.join(vlib.VERIF, ".build", "refcache", "c30")
USE_CACHE = os.environ.get("VERIF_NO_REFCACHE", "") == ""


def gnu_side(base, m, native, d, ldver, use_cache):
    """GNU ld's verdict on a member: {"rc", "msg", "obs", "run": [rc, hex]}; memoised on
    (ld version, flags, input bytes). -> (value, subprocesses spawned)."""
    contribs, order, kind = m
    gout = os.path.join(d, "gnu.out")
    argv = member_argv(base, m, gout)
    files = argv[len(OUT_FLAGS[kind]):-2]
    want_run = bool(native and kind == "exe")
    key = bindkit.ref_key(REF_SCHEMA, ldver, OUT_FLAGS[kind], files, "run" if want_run else "")
    if use_cache:
        val = bindkit.ref_get(REF_CACHE, key)
        if val is not None:
            return val, 0
    nsub = 1
    r = subprocess.run(["ld", *argv], cwd=d, stdout=subprocess.PIPE, stderr=subprocess.PIPE)
    val = {"rc": r.returncode, "msg": r.stderr.decode("utf-8", "replace")[-300:]}
    if r.returncode == 0:
        try:
            val["obs"] = observe(gout)
        except elfread.ElfError as ex:
            val["obs_error"] = str(ex)
        if want_run:
            grc, gbytes = run_exe(gout)
            nsub += 1
            val["run"] = [grc, gbytes.hex()]
    if use_cache and "obs_error" not in val:
        bindkit.ref_put(REF_CACHE, key, val)
    return val, nsub


def run_member(item):
    """-> dict(m, status, viol [(key, what)], sig, nsub, ...)."""
    base, m, native, keep, ldver = item
    contribs, order, kind = m
    d = os.path.join(base, keep) if keep else os.path.join(base, f"w{os.getpid()}")
    os.makedirs(d, exist_ok=True)
    wout, gout = os.path.join(d, "wild.out"), os.path.join(d, "gnu.out")
    for p in (wout, gout):
        try:
            os.unlink(p)
        except OSError:
            pass
    res = dict(m=m, viol=[], nsub=0, status="ok", sig=None, ran=False)
    gv, res["nsub"] = gnu_side(base, m, native, d, ldver, USE_CACHE and not keep)
    res["ref_cached"] = res["nsub"] == 0
    wrc, wmsg = wildrun.server_link(member_argv(base, m, wout), cwd=d)
    if gv["rc"] != 0:
        res["status"] = "gnu-rejects" if wrc != 0 else "gnu-rejects-wild-accepts"
        res["msg"] = gv["msg"]
        return res
    if "obs_error" in gv:
        res["status"] = "machinery"
        res["msg"] = f"GNU ld output unreadable: {gv['obs_error']}"
        return res
    g = gv["obs"]
    if wrc != 0:
        res["status"] = "wild-rejects"
        res["viol"].append((f"status:gnu-accepts-wild-rejects:{kind}:rc={wrc}",
                            f"wild failed: {wmsg[-300:]}"))
        return res
    try:
        w = observe(wout)
    except elfread.ElfError as ex:
        res["viol"].append((f"output-malformed:{kind}", str(ex)))
        return res
    bad = [n for sec in OUT_SECS for n in g.get(sec, []) if n not in NAME_INFO]
    if bad:
        res["status"] = "machinery"
        res["msg"] = f"unresolvable word(s) {bad} in GNU ld's arrays"
        return res
    res["viol"] = compare(g, w, order)
    res["sig"] = tuple((s, tuple(NAME_INFO[n][1:] + (order.index(NAME_INFO[n][0]),)
                                 for n in g[s])) for s in OUT_SECS if s in g)
    res["n_entries"] = sum(len(g.get(s, [])) for s in OUT_SECS)
    res["gnu_separate_ctors"] = bool(g.get(".ctors") or g.get(".dtors"))
    if native and kind == "exe":
        grc, gbytes = gv["run"][0], bytes.fromhex(gv["run"][1])
        wrc2, wbytes = run_exe(wout)
        res["nsub"] += 1
        res["ran"] = True
        if grc != 0 or gbytes != predicted_run(g):
            res["status"] = "machinery"
            res["msg"] = (f"GNU ld's program: rc={grc} printed {gbytes.hex()} but its arrays "
                          f"predict {predicted_run(g).hex()}")
            return res
        if (wrc2, wbytes) != (grc, gbytes) and not res["viol"]:
            res["viol"].append(("run:differs-with-equal-arrays",
                                f"native run of wild's output rc={wrc2} "
                                f"{[ID_NAME.get(b, hex(b)) for b in wbytes]} vs GNU ld's "
                                f"{[ID_NAME.get(b, hex(b)) for b in gbytes]}"))
        elif (wrc2, wbytes) != (grc, gbytes):
            res["run_differs"] = True
    return res


# ------------------------------------------------------------------------------------ families
def subsets(pool, maxsize):
    out = []
    for k in range(maxsize + 1):
        out += [tuple(c) for c in itertools.combinations(pool, k)]
    return out


def family(thorough):
    """-> list of (family tag, member, native?)."""
    fam = []
    fixed = contrib(FIXED_THIRD)
    # pairs of unit subsets, third unit fixed
    if thorough:
        s01 = subsets(BASE, 7)
        s2 = subsets(BASE, 3)
    else:
        s01 = subsets(BASE, 2)
        s2 = []
    for a in s01:
        for b in s01:
            fam.append(("pairs01", (contrib(a), contrib(b), fixed), (0, 1, 2), "exe"))
    for a in s2:
        for b in s2:
            fam.append(("pairs02", (contrib(a), fixed, contrib(b)), (0, 1, 2), "exe"))
            fam.append(("pairs12", (fixed, contrib(a), contrib(b)), (0, 1, 2), "exe"))
    # command-line order x output kind x section order inside the objects
    s3 = [tuple(c) + (F,) for c in itertools.combinations(BASE[:6], 3)]
    ntr = 120 if thorough else 12
    for k in range(ntr):
        tr = [s3[(k * mul + add * (k // 20)) % len(s3)] for mul, add in ((1, 0), (7, 1), (13, 3))]
        for order in ORDERS:
            for kind in ("exe", "pie", "shared"):
                for rev in (False, True):
                    cs = tuple(contrib([x for x in t if not (kind == "shared" and x == P)], rev)
                               for t in tr)
                    fam.append(("orders", cs, order, kind))
    # priority edge kinds
    e01 = subsets(EXT_POOL, 2 if thorough else 1)
    efixed = contrib_ext((".init_array.100", ".ctors.65435", ".init_array.9"))
    for a in e01:
        for b in e01:
            fam.append(("ext", (contrib_ext(a), contrib_ext(b), efixed), (0, 1, 2), "exe"))
    if thorough:
        for a in subsets(EXT_POOL, 1):
            for b in subsets(EXT_POOL, 1):
                for order in ORDERS[1:]:
                    for kind in ("pie", "shared"):
                        fam.append(("ext-orders", (contrib_ext(a), contrib_ext(b), efixed), order,
                                    kind))
    # the big pairwise sweep goes last, so that a run stopped by the wall cap has still covered
    # every other sub-family completely
    rank = {"orders": 0, "ext": 1, "ext-orders": 2, "pairs02": 3, "pairs12": 3, "pairs01": 4}
    fam.sort(key=lambda x: rank[x[0]])
    seen, out = set(), []
    n_dup = 0
    for tag, cs, order, kind in fam:
        m = (cs, order, kind)
        if m in seen:
            n_dup += 1
            continue
        seen.add(m)
        out.append((tag, m))
    return out, n_dup


def replay_dict(base, m):
    contribs, order, kind = m
    d = describe(m)
    d["member"] = [[list(s) for s in contribs], list(order), kind]
    d["sources"] = {f"u{u}.s": unit_asm(u, contribs[u]) for u in range(3)}
    d["sources"]["r.s"] = R_EXE if kind == "exe" else R_MIN
    files = " ".join(["r.o"] + [("lib.a" if u == 2 else f"u{u}.o") for u in order])
    fl = " ".join(OUT_FLAGS[kind])
    d["how"] = (f"python3 checks/c30.py --replay <this file>; by hand: gcc -c r.s u0.s u1.s u2.s; "
                f"ar rc lib.a u2.o; /verif/.build/bin/wild {fl} {files} -o w.out; "
                f"ld {fl} {files} -o g.out; compare `objdump -s -j .init_array -j .fini_array "
                f"-j .preinit_array` with `nm -n` (PIE/shared: readelf -r) of both")
    return d


def replay(chk):
    with open(chk.args.replay) as f:
        doc = json.load(f)
    mm = doc["replay"]["member"]
    m = (tuple(tuple(s) for s in mm[0]), tuple(mm[1]), mm[2])
    base = os.path.join("/dev/shm", f"verif.c30replay.{os.getpid()}")
    os.makedirs(base, exist_ok=True)
    prepare([m], base)
    res = run_member((base, m, True, "replay", bindkit.ld_version()))
    d = os.path.join(base, "replay")
    print("directory:", d)
    print("wild:", vlib.WILD, " ".join(member_argv(base, m, "wild.out")))
    print("GNU :", "ld", " ".join(member_argv(base, m, "gnu.out")))
    try:
        print("GNU ld :", observe(os.path.join(d, "gnu.out")))
        print("wild   :", observe(os.path.join(d, "wild.out")))
    except (elfread.ElfError, OSError) as ex:
        print("observe failed:", ex)
    print("status:", res["status"], res.get("msg", ""))
    for k, w in res["viol"]:
        print("VIOLATION", k, w)
    hit = any(k == doc["key"] for k, _w in res["viol"])
    print("REPRODUCED" if hit else "not reproduced")
    sys.exit(1 if hit else 0)


def main():
    chk = vlib.Check("C30", "exploration")
    if not chk.args.no_build:
        vlib.build("wild")
    if chk.args.replay:
        replay(chk)
    fam, n_dup = family(chk.thorough)
    if chk.seed:
        import random
        random.Random(chk.seed).shuffle(fam)
        fam.sort(key=lambda x: x[0] == "pairs01")
    # Wall cap on the enumeration (a capped run is reported as not exhaustive). VERIF_C30_CAP
    # overrides it, e.g. to finish a thorough run on a machine that is busy with other work.
    cap = float(os.environ.get("VERIF_C30_CAP", 0) or (600 if chk.thorough else 50))
    t0 = time.time()
    stats = dict(evaluations=0, gnu_rejects=0, gnu_rejects_wild_accepts=0, wild_rejects=0,
                 native_runs=0, members_with_violation=0, run_differs_with_static_violation=0,
                 gnu_separate_ctors=0, entries_compared=0, ref_cached=0)
    per_family = {}
    sigs = set()
    nsub = 0
    samples = []
    capped = None
    with vlib.scratch("c30") as base:
        n_obj = prepare([m for _t, m in fam], base)
        ldver = bindkit.ld_version()
        items = [(base, m, tag == "orders", None, ldver) for tag, m in fam]
        tags = [tag for tag, _m in fam]
        chunk = 2048
        done = 0
        while done < len(items):
            if time.time() - t0 > cap:
                capped = f"wall cap {cap}s hit after {done} of {len(items)} members"
                break
            part = items[done:done + chunk]
            results = wildrun.pmap(run_member, part, chunksize=8)
            for tag, res in zip(tags[done:done + chunk], results):
                m = res["m"]
                nsub += res["nsub"]
                stats["ref_cached"] += bool(res.get("ref_cached"))
                stats["evaluations"] += 1
                per_family[tag] = per_family.get(tag, 0) + 1
                if res["status"] == "machinery":
                    chk.machinery(f"{res['msg']} on {describe(m)}")
                if res["status"] == "gnu-rejects":
                    stats["gnu_rejects"] += 1
                    continue
                if res["status"] == "gnu-rejects-wild-accepts":
                    stats["gnu_rejects_wild_accepts"] += 1
                    continue
                if res["status"] == "wild-rejects":
                    stats["wild_rejects"] += 1
                if res["viol"]:
                    stats["members_with_violation"] += 1
                for key, what in res["viol"]:
                    chk.violation(key, f"{what}; member {describe(m)}", replay_dict(base, m))
                if res.get("run_differs"):
                    stats["run_differs_with_static_violation"] += 1
                if res["ran"]:
                    stats["native_runs"] += 1
                if res["sig"] is not None:
                    stats["entries_compared"] += res["n_entries"]
                    stats["gnu_separate_ctors"] += bool(res["gnu_separate_ctors"])
                    # non-trivial: some output array interleaves entries of >= 2 units or of >= 2
                    # input section kinds, i.e. the order had to be decided
                    if any(len({(e[0], e[2]) for e in seq}) >= 2 for _s, seq in res["sig"]):
                        sigs.add((res["sig"], m[2]))
                    if len(samples) < 3 and tag in ("orders", "ext") and res["n_entries"] >= 12 \
                            and (not samples or samples[-1]["family"] != tag):
                        samples.append(dict(describe(m), family=tag,
                                            gnu_ld_arrays={s: [f"cmdline-pos{e[2]}:{e[0]}:{e[1]}"
                                                               for e in seq]
                                                           for s, seq in res["sig"]}))
            done += len(part)
    if not samples:
        samples.append(dict(describe(fam[0][1]), family=fam[0][0]))
    chk.coverage = {
        "evaluations": stats["evaluations"],
        "distinct_nontrivial": len(sigs),
        "rule": "member = (input sections of u0.o, u1.o, lib.a(u2.o); command-line order; output "
                "kind); every member linked by wild and by GNU ld; non-trivial = GNU ld accepted it "
                "and at least one output array holds entries of >= 2 different (input section name, "
                "command-line position) classes; distinct = distinct (GNU ld array contents by "
                "(section, entry, position), output kind)",
        "samples": samples,
        "exhaustive": capped is None,
        "capped": capped,
        "family": (
            "pairs01: all 128x128 subsets of the 7 base kinds for (u0,u1), u2 fixed {I100,C,F}; "
            "pairs02/pairs12: all 64x64 subsets of size<=3 for (u0,u2) / (u1,u2), third fixed; "
            "orders: 120 triples of {3 of the 6 section kinds}+F (rule: unit i gets combos[(k*{1,7,13}[i] + {0,1,3}[i]*(k//20)) "
            "mod 20]) x 6 "
            "command-line orders x {exe,pie,shared} x {section order in object, reversed}; "
            "ext: all pairs of subsets of size<=2 of 12 priority kinds (5 base + 7 edge) for "
            "(u0,u1); ext-orders: singles x singles x 5 other orders x {pie,shared}"
            if chk.thorough else
            "pairs01: all 29x29 subsets of size<=2 of the 7 base kinds for (u0,u1), u2 fixed "
            "{I100,C,F}; orders: 12 triples of {3 of the 6 section kinds}+F (rule: unit i gets combos[k*{1,7,13}[i] mod 20]) "
            " x 6 command-line orders x "
            "{exe,pie,shared} x {section order in object, reversed}; ext: 13x13 subsets of size<=1 "
            "of 12 priority kinds for (u0,u1)"),
        "members_per_family": per_family,
        "duplicate_members_dropped": n_dup,
        "thinning": "2^7 subsets per unit are crossed pairwise (u0,u1) only; (u0,u2),(u1,u2) use "
                    "subsets of size<=3; the third unit is fixed; orders/output kinds on the "
                    "stated sub-family" if chk.thorough else
                    "subsets of size<=2 crossed pairwise for (u0,u1) only; third unit fixed; "
                    "orders/output kinds on 12 triples; ext kinds singly",
        "gnu_ld_verdicts": stats["evaluations"], "wild_links": stats["evaluations"],
        "gnu_ld_verdicts_from_cache": stats["ref_cached"],
        "gnu_ld_cache": "GNU ld's observation per member is memoised on (ld version, flags, input "
                        "bytes) under .build/refcache/c30 (VERIF_NO_REFCACHE=1 disables); wild is "
                        "never cached",
        "subprocesses": nsub + 3,
        "distinct_unit_objects": n_obj,
        "gnu_rejects_both": stats["gnu_rejects"],
        "gnu_rejects_wild_accepts_not_judged": stats["gnu_rejects_wild_accepts"],
        "wild_rejects_gnu_accepts": stats["wild_rejects"],
        "native_runs": stats["native_runs"],
        "entries_compared": stats["entries_compared"],
        "members_where_gnu_ld_keeps_separate_ctors_or_dtors": stats["gnu_separate_ctors"],
        "members_with_violation": stats["members_with_violation"],
    }
    chk.assumptions = [
        "GNU ld 2.40 with its default linker script is the referee",
        "files are not named crtbegin.o/crtend.o, so GNU ld's EXCLUDE_FILE clauses never apply",
        "a word is identified by the symbol defined at the address it holds (every function has "
        "its own address and a global symbol)",
        "members GNU ld rejects are not judged",
    ]
    chk.finish()


if __name__ == "__main__":
    main()
